"""One function per property: which models are checked, which behaviours are generated and
replayed, which traces are recorded and validated.  See DESIGN.md section 6."""

import json
import os

import vlib
from vlib import ToolError, log


def cfg_consts(consts):
    lines = ["CONSTANTS"]
    for k, v in consts.items():
        lines.append(" %s = %s" % (k, v))
    return "\n".join(lines) + "\n"


GEN_TAIL = "INIT Init\nNEXT Next\nINVARIANT Emit\nCHECK_DEADLOCK FALSE\n"
MC_TAIL = "INIT Init\nNEXT Next\nCHECK_DEADLOCK FALSE\n"


def replay(chk, path):
    """Re-runs the stage that produced a stored violation and reports whether it still fails."""
    with open(path) as f:
        v = json.load(f)
    log("replaying %s: %s" % (path, json.dumps(v)[:400]))
    fn = globals()["check_" + chk.pid]
    return fn(chk)


# ---------------------------------------------------------------------------
# Shared stages for the three bitvector types

FAMILY_QUICK = "{63, 64, 65, 511, 512, 513, 4095, 4096, 4097}"
FAMILY_THOROUGH = "{63, 64, 65, 127, 128, 129, 511, 512, 513, 1023, 1024, 1025, 4095, 4096, 4097, 8191, 8192, 8193}"


def stage_bvref64(chk, n=8):
    res = vlib.run_tlc(chk.work, "MC_BVRef64_run", "MC_BVRef64", cfg_consts({"N": n}) + MC_TAIL + "INVARIANT Inv\n", workers=8)
    vlib.tlc_must_pass(res, "MC_BVRef64")
    chk.add_tlc(res, "MC_BVRef64: the U64 (limb) reference semantics agrees with the natural-number semantics on all bit sequences <= %d bits; limb arithmetic across limb boundaries" % n)


def stage_bvref(chk, n):
    res = vlib.run_tlc(chk.work, "MC_BVRef_run", "MC_BVRef", cfg_consts({"N": n}) + MC_TAIL + "INVARIANT Inv\n", workers=8)
    vlib.tlc_must_pass(res, "MC_BVRef")
    chk.add_tlc(res, "MC_BVRef: two independent reference definitions agree on all bit sequences <= %d bits" % n)


def stage_gen_bv(chk, bins, types, n_bits, family, variants=("dbg-native",)):
    path, res = vlib.generate_cases(chk.work, "GenBV_bits", "GenBV",
                                    cfg_consts({"N": n_bits, "Mode": '"bits"', "FamilyLens": "{}", "RLClasses": "{}", "RLMaxRuns": 0, "RLTails": "{}", "SpreadPos": "{}", "SpreadK": 0}) + GEN_TAIL)
    chk.add_tlc(res, "GenBV bits<=%d" % n_bits, {"behaviours": len(res.replay_lines)})
    path2, res2 = vlib.generate_cases(chk.work, "GenBV_family", "GenBV",
                                      cfg_consts({"N": 0, "Mode": '"family"', "FamilyLens": family, "RLClasses": "{}", "RLMaxRuns": 0, "RLTails": "{}", "SpreadPos": "{}", "SpreadK": 0}) + GEN_TAIL)
    chk.add_tlc(res2, "GenBV family", {"behaviours": len(res2.replay_lines)})
    for v in variants:
        for p, label in ((path, "bits"), (path2, "family")):
            st = "replay GenBV %s on %s (%s)" % (label, v, ",".join(types))
            out = chk.run_harness(bins[v], ["replay", "--kind", "bv", "--types", ",".join(types), "--cases", p], st)
            if out:
                chk.add_replay(out, st)
            if "plain" in types:
                st = "replay GenBV %s on %s: the support-structure layer (RankSupport, SelectSupport<Identity|Complement>, Transformation) answers as defined inside its domain" % (label, v)
                out = chk.run_harness(bins[v], ["replay", "--kind", "support", "--cases", p], st)
                if out:
                    chk.add_replay(out, st)
    chk.cov["exhaustive"] = True


def stage_trace(chk, bins, scenario, trace_module, invariants=(), variant="dbg-native", seeds=1, extra_args=(), consts=None, tla_defs="", cfg_extra=""):
    total = {}
    for k in range(seeds):
        seed = chk.seed + k
        tpath = os.path.join(chk.work, "%s_%d.ndjson" % (scenario, seed))
        out = chk.run_harness(bins[variant], ["record", scenario, "--seed", str(seed), "--tier", chk.tier, "--out", tpath] + list(extra_args),
                              "record %s trace seed %d on %s" % (scenario, seed, variant))
        if out is None:
            continue
        ok, info, res = vlib.validate_trace(chk.work, "T_%s_%d" % (scenario.replace("-", "_"), k), trace_module, tpath, invariants=invariants, consts=consts, defs=tla_defs, cfg_extra=cfg_extra)
        chk.add_tlc(res, "validate %s trace seed %d on %s" % (scenario, seed, variant), {"events": out["stats"].get("events"), "accepted": ok})
        for key, val in out["stats"].items():
            if isinstance(val, int):
                total[key] = total.get(key, 0) + val
            elif isinstance(val, dict) and all(isinstance(x, int) for x in val.values()):
                d = total.setdefault(key, {})
                for k2, v2 in val.items():
                    d[k2] = d.get(k2, 0) + v2
        if ok:
            chk.cov["traces_validated_against_impl"] += 1
            chk.cov["evaluations"] += out["stats"].get("queries", out["stats"].get("events", 0))
            if len(chk.cov["samples"]) < 8 and "sample" in out["stats"]:
                chk.cov["samples"].append({"stage": "trace " + scenario, "event": out["stats"]["sample"]})
        else:
            line = info.get("unmatched_line")
            ev = vlib.trace_line(tpath, line) if line else None
            keep = os.path.join(vlib.OUT_BASE, "replays", chk.pid)
            os.makedirs(keep, exist_ok=True)
            kept = os.path.join(keep, "%s_seed%d.ndjson" % (scenario, seed))
            # keep the prefix up to and including the rejected event
            with open(tpath) as f, open(kept, "w") as g:
                for i, l in enumerate(f, 1):
                    if line and i > line:
                        break
                    g.write(l)
            chk.violation("trace %s rejected by %s" % (scenario, trace_module),
                          {"kind": "trace", "scenario": scenario, "seed": seed, "variant": variant, "line": line,
                           "event": ev, "info": info, "trace": kept, "tlc_tail": res.out[-1200:]})
    return total


# ---------------------------------------------------------------------------
# The lifecycle machine (tla/SDSLife.tla): one bit sequence through every public route

LIFE_TAIL = "INIT Init\nNEXT Next\nVIEW View\nINVARIANT Inv\nCHECK_DEADLOCK FALSE\n"
LIFE_ALL_OPS = '{"mut", "to", "enable", "reload", "file", "writer", "mapper", "clone"}'
LIFE_ALL_KINDS = '{"raw", "int", "plain", "sparse", "rl"}'


def stage_life(chk, bins, label, own, ops=LIFE_ALL_OPS, kinds=LIFE_ALL_KINDS, initkinds='{"raw", "int"}', intwidths="{1, 3, 30}", maxlen=3, scales=(1, 3, 64, 65),
               big_scales=(), big_stride=7, walks=0, walk_depth=12, variant="dbg-native", memory=1):
    """Cover of every (object state, class of the previous call, call) of the lifecycle machine, replayed at every scale;
    `own` lists the step classes this property answers for (a disagreement at another step belongs to another property's check)."""
    if not getattr(chk, "_tmpdir", None):
        chk.scratch_tmpdir()
    if not chk.thorough and intwidths == "{1, 3, 30}":
        intwidths = "{1, 30}"
    consts = {"MaxLen": maxlen, "Ops": ops, "Kinds": kinds, "InitKinds": initkinds, "IntWidths": intwidths, "Memory": memory, "MaxDepth": 99}
    path, res = vlib.generate_cases(chk.work, "GenLife_" + label, "GenLife", cfg_consts(consts) + LIFE_TAIL, timeout=900)
    chk.add_tlc(res, "GenLife %s: cover of every (reachable (kind, bits <= %d, supports), class of the previous %s, call) of the lifecycle machine "
                     "(invariants LifeOK, Content checked)" % (label, maxlen, "call" if memory == 1 else "two calls"), {"behaviours": len(res.replay_lines)})
    st = "replay lifecycle behaviours (%s) at scales %s on %s: after every call kind, bits, supports, == / same bytes / same answers as the object built directly from the state" % (label, list(scales), variant)
    out = chk.run_harness(bins[variant], ["replay", "--kind", "life", "--cases", path, "--scales", ",".join(str(k) for k in scales), "--own", ",".join(own)], st)
    if out:
        chk.add_replay(out, st)
    if big_scales:
        st = "replay every %dth lifecycle behaviour (%s) at scales %s (rank blocks, select superblocks)" % (big_stride, label, list(big_scales))
        out = chk.run_harness(bins[variant], ["replay", "--kind", "life", "--cases", path, "--scales", ",".join(str(k) for k in big_scales), "--own", ",".join(own), "--stride", str(big_stride)], st)
        if out:
            chk.add_replay(out, st)
    if walks:
        consts["MaxDepth"] = walk_depth
        wpath, wres = vlib.generate_cases(chk.work, "GenLife_walk_" + label, "GenLife", cfg_consts(consts) + LIFE_TAIL, simulate="num=%d" % walks, seed=chk.seed, timeout=900)
        chk.add_tlc(wres, "GenLife %s: %d random walks of depth %d" % (label, walks, walk_depth), {"behaviours": len(wres.replay_lines)})
        st = "replay lifecycle random walks (%s, depth %d) at scales %s" % (label, walk_depth, list(scales))
        # (TLC prints every successor of every state of a walk: all of them are replayed - prefixes of the walks with one more call)
        out = chk.run_harness(bins[variant], ["replay", "--kind", "life", "--cases", wpath, "--scales", ",".join(str(k) for k in scales), "--own", ",".join(own), "--minsteps", str(min(4, walk_depth))], st)
        if out:
            chk.add_replay(out, st)


# ---------------------------------------------------------------------------

def stage_mech_plainbv(chk, n):
    base = {"W": 4, "RB": 2, "SB": 4, "BL": 2, "N": n, "MaskLast": "TRUE", "LongIdxBug": "FALSE", "ThrReal": "FALSE"}
    res = vlib.run_tlc(chk.work, "MC_PlainBV", "PlainBV", cfg_consts(base) + MC_TAIL + "INVARIANT Refines\n", workers=16, timeout=2400)
    vlib.tlc_must_pass(res, "mech/PlainBV")
    chk.add_tlc(res, "mech/PlainBV (Layer B): rank9 + select-mcl with scaled constants (4-bit words, 2-word rank blocks, 4-one superblocks, 2-one blocks) "
                     "refine Layer A on every bit sequence <= %d bits: rank, select, select_zero, predecessor, successor at every argument" % n)
    # sensitivity of the model: with the long-array index shifted by one (the mutant the property names) Refines must fail
    mut = dict(base)
    mut["LongIdxBug"] = "TRUE"
    mut["N"] = 6
    res2 = vlib.run_tlc(chk.work, "MC_PlainBV_mut", "PlainBV", cfg_consts(mut) + MC_TAIL + "INVARIANT Refines\n", workers=4, timeout=600)
    if not res2.violation:
        raise ToolError("self-test failed: mech/PlainBV with the long-array index off by one does not violate Refines")
    chk.cov["stages"].append({"stage": "self-test: mech/PlainBV with LongIdxBug = TRUE violates Refines (the model is sensitive to the named mutant)", "ok": True})


def stage_layout_drift(chk, bins):
    """Layer B <-> code: predicted vs serialized support structures.  A difference is MODEL-DRIFT, never a violation."""
    tpath = os.path.join(chk.work, "layout.ndjson")
    out = chk.run_harness(bins["dbg-native"], ["record", "layout", "--seed", str(chk.seed), "--tier", "thorough" if chk.thorough else "quick", "--out", tpath], "record serialized support structures")
    if out is None:
        return
    try:
        ok, info, res = vlib.validate_trace(chk.work, "T_layout", "TraceLayout", tpath, heap="8g", timeout=3000)
    except ToolError as e:
        chk.cov["model_drift"] = {"status": "not evaluated", "reason": str(e)[:300]}
        return
    chk.add_tlc(res, "TraceLayout: rank samples, select superblock samples, long and short arrays predicted by mech/PlainBV at the real constants vs the serialized structures", {"accepted": ok})
    chk.cov["model_drift"] = {"status": "none" if ok else "MODEL-DRIFT", "info": info}
    if not ok:
        log("MODEL-DRIFT property=%s: the serialized support structures differ from mech/PlainBV's prediction at event %s (not a violation)" % (chk.pid, info.get("unmatched_line")))


def stage_mech_oneiter(chk):
    for checks in ("TRUE", "FALSE"):
        res = vlib.run_tlc(chk.work, "MC_OneIter_" + checks, "OneIter", cfg_consts({"W": 4, "N": 7 if chk.thorough else 6, "UB": 6, "Checks": checks, "FixNth": "TRUE"}) +
                           "SPECIFICATION Spec\nINVARIANT Safe\nINVARIANT Agree\nCHECK_DEADLOCK FALSE\n", workers=16, timeout=1800)
        vlib.tlc_must_pass(res, "mech/OneIter")
        chk.add_tlc(res, "mech/OneIter (Layer B): the word-scanning set-bit iterator with 6-bit usize arithmetic (overflow checks %s): never reads past the last word "
                         "(Safe) and agrees with the deque (Agree) under every interleaving of nth(k) / next_back, k in {0,1,2,MAX-1,MAX}" % ("on" if checks == "TRUE" else "off, wrapping"))
    res = vlib.run_tlc(chk.work, "MC_OneIter_mut", "OneIter", cfg_consts({"W": 4, "N": 3, "UB": 6, "Checks": "FALSE", "FixNth": "FALSE"}) +
                       "SPECIFICATION Spec\nINVARIANT Safe\nCHECK_DEADLOCK FALSE\n", workers=4, timeout=600)
    if not res.violation:
        raise ToolError("self-test failed: mech/OneIter with the unclamped next + n does not violate Safe")
    chk.cov["stages"].append({"stage": "self-test: mech/OneIter with the unclamped comparison (F1) violates Safe with wrapping arithmetic", "ok": True})


def check_C01(chk):
    bins = vlib.build_harness(["dbg-native", "dbg-generic", "rel-native"])
    stage_bvref(chk, 12 if chk.thorough else 9)
    stage_mech_plainbv(chk, 14 if chk.thorough else 11)
    if chk.thorough:
        stage_layout_drift(chk, bins)
    # both in-word select implementations: BMI2 (native) and the portable table-driven one (generic)
    stage_gen_bv(chk, bins, ["plain"], 12 if chk.thorough else 10, FAMILY_THOROUGH if chk.thorough else FAMILY_QUICK, variants=("dbg-native", "dbg-generic"))
    # beyond 2^32 bits: the counts a plain bitvector caches (optimized build)
    stage_trace(chk, bins, "giant", "TraceGiant", invariants=("CountsOK",), variant="rel-native")
    # conversion from a multiset: the plain bitvector holds the distinct positions, each counted once
    msp, rms = vlib.generate_cases(chk.work, "GenMS_conv", "GenMS", cfg_consts({"MaxU": 5 if chk.thorough else 4, "MaxVals": 5 if chk.thorough else 4}) + GEN_TAIL)
    chk.add_tlc(rms, "GenMS multisets as conversion sources", {"behaviours": len(rms.replay_lines)})
    st = "replay multiset cases: conversion of the multiset into a plain bitvector (content, count, equality with the directly built vector)"
    out = chk.run_harness(bins["dbg-native"], ["replay", "--kind", "ms", "--cases", msp], st)
    if out:
        chk.add_replay(out, st)
    # the plain bitvector reached through the lifecycle machine: raw / width-1 integer vectors under every mutation history, then BitVector::from and enable_*
    stage_life(chk, bins, "C01", ["to:raw>plain", "enable:plain"], ops='{"mut", "to", "enable"}', kinds='{"raw", "int", "plain"}', intwidths="{1, 30}" if chk.thorough else "{1}",
               maxlen=4 if chk.thorough else 3, scales=(1, 3, 64, 65), big_scales=(130, 1100) if chk.thorough else (1100,), big_stride=3 if chk.thorough else 11)
    total = stage_trace(chk, bins, "plain", "TraceBV", invariants=("ObjWellFormed",), seeds=6 if chk.thorough else 1)
    chk.cov["regimes"] = total
    if total.get("layout_unreadable"):
        # the regime counters read the select structures out of the serialized object; if the bytes do not have the documented layout
        # (C07's business) the counters are unavailable and the vacuity guard cannot be applied
        vlib.log("MODEL-DRIFT property=C01: the serialized select structures could not be read with the documented layout (%d objects); regime counters unavailable" % total["layout_unreadable"])
        chk.cov.setdefault("model_drift", []).append({"stage": "plain trace regime counters", "unreadable": total["layout_unreadable"]})
    elif not chk.violations and (total.get("long_one_hits", 0) == 0 or total.get("long_zero_hits", 0) == 0):
        raise ToolError("vacuous: no validated select query inside a long superblock (ones=%s zeros=%s)" % (
            total.get("long_one_hits"), total.get("long_zero_hits")))
    return chk.finish(rule="cases = (bit vector content, query, argument); generated exhaustively by TLC for all contents "
                           "<= N bits and a boundary family, and recorded from regime-directed contents; distinct = distinct "
                           "(content, query, argument) triples with non-empty content")


def sparse_widths(total):
    return sorted(int(k[1:]) for k in total.get("widths", {}).keys()) if isinstance(total.get("widths"), dict) else []


def check_C02(chk):
    bins = vlib.build_harness(["dbg-native", "dbg-generic"])
    stage_bvref(chk, 9)
    stage_mech_eliasfano(chk)
    stage_gen_bv(chk, bins, ["sparse"], 12 if chk.thorough else 10, FAMILY_THOROUGH if chk.thorough else FAMILY_QUICK, variants=("dbg-native", "dbg-generic"))
    total = stage_trace(chk, bins, "sparse", "TraceBV", invariants=("ObjWellFormed",), seeds=5 if chk.thorough else 1)
    stage_bvref64(chk)
    total64 = stage_trace(chk, bins, "huge", "TraceBV64", extra_args=("--only", "sparse"))
    for k, v in total64.get("widths", {}).items():
        total.setdefault("widths", {})[k] = total.get("widths", {}).get(k, 0) + v
    widths = sparse_widths(total)
    chk.cov["low_widths_observed"] = widths
    need = 30 if chk.thorough else 14
    if not chk.violations and len(widths) < need:
        raise ToolError("vacuous: only %d distinct low-part widths observed (%s), need %d" % (len(widths), widths, need))
    return chk.finish(rule="cases = (universe size, set positions, query, argument) on the Elias-Fano vector built by 5 routes; "
                           "TLC-generated for all contents <= N bits and the boundary family; recorded for a sweep of low-part widths, "
                           "bucket-boundary positions, select_zero stress layouts, empty/full vectors; distinct = distinct (content, query, argument)")


def stage_gen_rl(chk, bins, classes, maxruns, tails):
    path, res = vlib.generate_cases(chk.work, "GenBV_rl", "GenBV",
                                    cfg_consts({"N": 0, "Mode": '"rl"', "FamilyLens": "{}", "RLClasses": classes, "RLMaxRuns": maxruns, "RLTails": tails, "SpreadPos": "{}", "SpreadK": 0}) + GEN_TAIL,
                                    timeout=1500)
    chk.add_tlc(res, "GenBV run-length value classes %s, <= %d runs" % (classes, maxruns), {"behaviours": len(res.replay_lines)})
    out = chk.run_harness(bins["dbg-native"], ["replay", "--kind", "bv", "--types", "rl", "--cases", path], "replay GenBV rl classes on dbg-native")
    if out:
        chk.add_replay(out, "replay GenBV rl classes on dbg-native")


def stage_mech_rle(chk):
    """Layer B for the run-length vector: the builder as implemented refines the document-derived encoder; the sample index
    and the narrowed binary search return the last block whose value is at most the query."""
    calls = 4 if chk.thorough else 3
    res = vlib.run_tlc(chk.work, "MC_RLE", "RLE", cfg_consts({"Classes": "{1, 8, 64, 134217728}", "MaxCalls": calls, "FixSetLen": "TRUE"}) + MC_TAIL + "INVARIANT Inv\n",
                       workers=16, timeout=2400)
    vlib.tlc_must_pass(res, "mech/RLE")
    chk.add_tlc(res, "mech/RLE (Layer B): every history of <= %d try_set / set_len calls with gaps and lengths from {0,1,8,64,2^27}: counters exact, the finished "
                     "file equals Format!EncRL of the accepted content (block closing, padding, samples, merging) and decodes to the maximal runs" % calls)
    res2 = vlib.run_tlc(chk.work, "MC_RLE_mut", "RLE", cfg_consts({"Classes": "{1, 8}", "MaxCalls": 2, "FixSetLen": "FALSE"}) + MC_TAIL + "INVARIANT Inv\n", workers=4, timeout=600)
    if not res2.violation:
        raise ToolError("self-test failed: mech/RLE without the set_len repair (F9) does not violate its invariant")
    chk.cov["stages"].append({"stage": "self-test: mech/RLE with set_len leaving the pending run at the old length (F9) violates the invariant", "ok": True})
    for ratio, mv, mu in ((2, 6, 9),) + (((3, 7, 10),) if chk.thorough else ()):
        res3 = vlib.run_tlc(chk.work, "MC_SampleIndex_%d" % ratio, "SampleIndex", cfg_consts({"Ratio": ratio, "MaxVals": mv, "MaxUniverse": mu}) + MC_TAIL + "INVARIANT Refines\n",
                            workers=16, timeout=2400)
        vlib.tlc_must_pass(res3, "mech/SampleIndex")
        chk.add_tlc(res3, "mech/SampleIndex (Layer B): parameters / samples / range / block_for with ratio %d on every non-decreasing sequence of <= %d values below %d: "
                          "the narrowed binary search returns the last block with value <= query" % (ratio, mv, mu))


def check_C03(chk):
    bins = vlib.build_harness(["dbg-native"])
    stage_bvref(chk, 9)
    stage_mech_rle(chk)
    stage_gen_bv(chk, bins, ["rl"], 12 if chk.thorough else 10, FAMILY_THOROUGH if chk.thorough else FAMILY_QUICK)
    if chk.thorough:
        stage_gen_rl(chk, bins, "{1, 2, 7, 8, 9, 63, 64, 65, 511, 512}", 2, "{0, 1, 64}")
        stage_gen_rl(chk, bins, "{1, 7, 8, 64, 512}", 3, "{0, 9}")
    else:
        stage_gen_rl(chk, bins, "{1, 2, 7, 8, 9, 64, 512}", 2, "{0, 1}")
    stage_trace(chk, bins, "rl", "TraceBV", invariants=("ObjWellFormed",), seeds=5 if chk.thorough else 1)
    stage_bvref64(chk)
    stage_trace(chk, bins, "huge", "TraceBV64", extra_args=("--only", "rl"))
    return chk.finish(rule="cases = (length, maximal runs, query, argument) on the run-length vector built by 6 routes (per run, bit at a "
                           "time, split runs that must merge, set_len before each run, conversions), plus the run iterator with its "
                           "running offset/rank; distinct = distinct (content, query, argument)")


def stage_gen_vec(chk, bins, kind, widths, depth, maxitems, simulate=None, label=""):
    name = "GenVec_%s_%s" % (kind, label or ("d%d" % depth))
    path, res = vlib.generate_cases(chk.work, name, "GenVec",
                                    cfg_consts({"Kind": '"%s"' % kind, "Widths": widths, "Depth": depth, "MaxItems": maxitems}) + GEN_TAIL,
                                    simulate=simulate, timeout=1200, seed=chk.seed)
    chk.add_tlc(res, "GenVec %s widths=%s depth=%d %s" % (kind, widths, depth, "simulate " + simulate if simulate else "exhaustive"),
                {"behaviours": len(res.replay_lines)})
    out = chk.run_harness(bins["dbg-native"], ["replay", "--kind", "vec", "--cases", path], "replay %s on dbg-native" % name)
    if out:
        chk.add_replay(out, "replay %s on dbg-native" % name)


def stage_mech_rawvec(chk):
    depth, maxbits = (5, 13) if chk.thorough else (3, 12)
    base = {"W": 4, "ByteBits": 2, "MaxBits": maxbits, "Depth": depth, "ZeroTail": "TRUE"}
    res = vlib.run_tlc(chk.work, "MC_RawVec", "RawVec", cfg_consts(base) + MC_TAIL + "INVARIANT Inv\n", workers=16, timeout=3000)
    vlib.tlc_must_pass(res, "mech/RawVec")
    chk.add_tlc(res, "mech/RawVec (Layer B): (len, words) with 4-bit words, write_int/read_int of mech/Words, set_unused_bits where the code calls it; every history of "
                     "depth %d over push/pop bit and int, set_bit, set_int, resize, complement, clear: Shape, TailZero, refinement of SDSVec!Step" % depth)
    mut = dict(base)
    mut["ZeroTail"] = "FALSE"
    mut["Depth"] = 3
    res2 = vlib.run_tlc(chk.work, "MC_RawVec_mut", "RawVec", cfg_consts(mut) + MC_TAIL + "INVARIANT Inv\n", workers=8, timeout=600)
    if not res2.violation:
        raise ToolError("self-test failed: mech/RawVec without re-zeroing the tail after pop_int does not violate TailZero")
    chk.cov["stages"].append({"stage": "self-test: mech/RawVec without the tail re-zeroing after pop_int (the mutant the property names) violates TailZero", "ok": True})


def stage_mech_eliasfano(chk):
    consts = {"MaxN": 9 if chk.thorough else 7, "MaxM": 6 if chk.thorough else 5, "Widths": "{1, 2, 3}", "Thr": 2}
    res = vlib.run_tlc(chk.work, "MC_EliasFano", "EliasFano", cfg_consts(consts) + MC_TAIL + "INVARIANT Refines\n", workers=16, timeout=3000)
    vlib.tlc_must_pass(res, "mech/EliasFano")
    chk.add_tlc(res, "mech/EliasFano (Layer B): high/low parts, bucket scans of rank / get / predecessor / successor, select, select_zero through find_zero_run "
                     "(binary search threshold 2): every universe <= %d, every non-decreasing value list of <= %d values (sets and multisets, overfull included), "
                     "every low width 1..3, every argument = Layer A" % (consts["MaxN"], consts["MaxM"]))


def check_C05(chk):
    bins = vlib.build_harness(["dbg-native", "rel-native"])
    stage_mech_rawvec(chk)
    if chk.thorough:
        stage_gen_vec(chk, bins, "int", "{1, 7, 31, 32, 33, 63, 64}", 2, 4)
        stage_gen_vec(chk, bins, "int", "{7, 33, 64}", 3, 3, label="d3")
        stage_gen_vec(chk, bins, "raw", "{}", 2, 3)
        stage_gen_vec(chk, bins, "int", "{1, 7, 31, 32, 33, 63, 64}", 40, 6, simulate="num=500", label="sim")    # TLC prints every successor of every simulated state: about 60 behaviours per run
        stage_gen_vec(chk, bins, "raw", "{}", 40, 5, simulate="num=500", label="sim")
    else:
        stage_gen_vec(chk, bins, "int", "{1, 7, 33, 64}", 2, 4)
        stage_gen_vec(chk, bins, "raw", "{}", 2, 3)
        stage_gen_vec(chk, bins, "int", "{1, 7, 31, 32, 33, 63, 64}", 30, 6, simulate="num=80", label="sim")
        stage_gen_vec(chk, bins, "raw", "{}", 30, 5, simulate="num=80", label="sim")
    # mutation histories interleaved with the routes out of and back into a raw vector (plain bitvector and back, width-1 integer vector, clone, serialize + load)
    stage_life(chk, bins, "C05", ["mut:", "to:int>raw", "to:plain>raw", "to:raw>raw", "clone:raw", "clone:int"], ops='{"mut", "to", "clone", "reload"}', kinds='{"raw", "int", "plain"}',
               maxlen=4 if chk.thorough else 3, scales=(1, 3, 64, 65, 130), walks=400 if chk.thorough else 60, walk_depth=14)
    stage_trace(chk, bins, "vec", "TraceVec", invariants=("StateOK",), seeds=4 if chk.thorough else 1)
    # beyond 2^32 bits: the counts of a 512 MiB vector through a short history and the routes into and out of a plain bitvector (optimized build)
    stage_trace(chk, bins, "giant", "TraceGiant", invariants=("CountsOK",), variant="rel-native")
    return chk.finish(rule="cases = call histories of IntVector / RawVector; after every call the result, the projected content, equality and "
                           "byte-identity with a canonically built vector and count_ones are compared with the Layer A state machine; "
                           "distinct = distinct history prefixes")


def stage_gen_wm(chk, bins, alpha, maxlen, extra="{}", label=""):
    name = "GenWM_" + label
    path, res = vlib.generate_cases(chk.work, name, "GenWM", cfg_consts({"Alpha": alpha, "MaxLen": maxlen, "ExtraVals": extra}) + GEN_TAIL, timeout=1500)
    chk.add_tlc(res, "GenWM alphabet %s length <= %d" % (alpha, maxlen), {"behaviours": len(res.replay_lines)})
    out = chk.run_harness(bins["dbg-native"], ["replay", "--kind", "wm", "--cases", path], "replay %s on dbg-native (5 item types)" % name)
    if out:
        chk.add_replay(out, "replay %s on dbg-native (5 item types)" % name)


def check_C04(chk):
    bins = vlib.build_harness(["dbg-native"])
    res = vlib.run_tlc(chk.work, "MC_VecRef_run", "MC_VecRef", cfg_consts({"Alpha": "{0, 1, 2, 3, 5}", "MaxLen": 5 if chk.thorough else 4}) + MC_TAIL + "INVARIANT Inv\n", workers=8)
    vlib.tlc_must_pass(res, "MC_VecRef")
    chk.add_tlc(res, "MC_VecRef: map_up inverts map_down, reordering is the stable reversed-bit sort, closed forms equal definitions")
    resm = vlib.run_tlc(chk.work, "MC_WM", "WM", cfg_consts({"Alpha": "{0, 1, 2, 3, 5}", "MaxLen": 4 if chk.thorough else 3, "CheckedSub": "TRUE"}) + MC_TAIL + "INVARIANT Refines\n",
                        workers=16, timeout=3000)
    vlib.tlc_must_pass(resm, "mech/WM")
    chk.add_tlc(resm, "mech/WM (Layer B): levels by stable partition, per-level map_down / map_up steps with the checked subtraction, `first`, rank = map_down_with - first, "
                      "select = map_up_with(first + r): every vector over {0,1,2,3,5} up to length %d, every index / rank incl. huge, every value incl. 2^width(+1)" % (4 if chk.thorough else 3))
    resn = vlib.run_tlc(chk.work, "MC_WM_mut", "WM", cfg_consts({"Alpha": "{0, 1, 2, 3}", "MaxLen": 6, "CheckedSub": "FALSE"}) + MC_TAIL + "INVARIANT Refines\n", workers=8, timeout=900)
    if not resn.violation:
        raise ToolError("self-test failed: mech/WM with the unchecked subtraction in map_up_one (F5) does not violate Refines")
    chk.cov["stages"].append({"stage": "self-test: mech/WM with the unchecked subtraction of F5 violates Refines", "ok": True})
    if chk.thorough:
        stage_gen_wm(chk, bins, "{0, 1, 2, 3}", 7, label="a4")
        stage_gen_wm(chk, bins, "{0, 1, 2, 3, 4, 5, 6, 7}", 4, label="a8")
        stage_gen_wm(chk, bins, "{0, 1}", 11, label="a2")
        for k in (1, 4, 7, 8, 15, 16):
            stage_gen_wm(chk, bins, "{0, 1, %d, %d, %d}" % (2 ** k - 1, 2 ** k, 2 ** k + 1), 3, label="p%d" % k)
    else:
        stage_gen_wm(chk, bins, "{0, 1, 2, 3}", 5, label="a4")
        stage_gen_wm(chk, bins, "{0, 1, 2, 3, 4, 5, 6, 7}", 3, label="a8")
        stage_gen_wm(chk, bins, "{0, 1}", 7, label="a2")
        for k in (8, 16):
            stage_gen_wm(chk, bins, "{0, 1, %d, %d, %d}" % (2 ** k - 1, 2 ** k, 2 ** k + 1), 2, label="p%d" % k)
    chk.cov["exhaustive"] = True
    stage_trace(chk, bins, "wm", "TraceWM", seeds=4 if chk.thorough else 1)
    return chk.finish(rule="cases = (vector, query, index/rank argument, value argument) on WaveletMatrix and WMCore built from each of the five "
                           "item types; TLC-generated for all vectors over small and sparse alphabets; recorded for skewed/uniform vectors of "
                           "width 1..16; distinct = distinct (vector, query, argument, value)")


ITER_TAIL = "INIT Init\nNEXT Next\nVIEW View\nINVARIANT Partition\nCHECK_DEADLOCK FALSE\n"


def gen_iter_histories(chk, maxn, ks="{0, 1, 2}", memory=0):
    path, res = vlib.generate_cases(chk.work, "GenIter_cover%d" % memory, "GenIter", cfg_consts({"MaxN": maxn, "Ks": ks, "Memory": memory}) + ITER_TAIL, timeout=900)
    chk.add_tlc(res, ("GenIter cover of every (window, previous operation, call) of the window machine, item counts 0..%d (Partition invariant checked)" if memory else
                      "GenIter transition cover of the window machine, item counts 0..%d (Partition invariant checked)") % maxn,
                {"behaviours": len(res.replay_lines)})
    return path


def stage_mech_sparseiter(chk):
    u, mv = (6, 6) if chk.thorough else (5, 5)
    res = vlib.run_tlc(chk.work, "MC_SparseIter", "SparseIter", cfg_consts({"MaxU": u, "MaxVals": mv, "KeepFallback": "TRUE"}) +
                       "SPECIFICATION Spec\nINVARIANT Agree\nCHECK_DEADLOCK FALSE\n", workers=16, timeout=2400)
    vlib.tlc_must_pass(res, "mech/SparseIter")
    chk.add_tlc(res, "mech/SparseIter (Layer B): the two-ended duplicate-skipping bit iterator of the sparse vector under every interleaving of next / next_back "
                     "on every multiset (universe <= %d, <= %d values): agrees with the deque over the distinct-position bits, exact length" % (u, mv))
    res2 = vlib.run_tlc(chk.work, "MC_SparseIter_mut", "SparseIter", cfg_consts({"MaxU": 3, "MaxVals": 2, "KeepFallback": "FALSE"}) +
                        "SPECIFICATION Spec\nINVARIANT Agree\nCHECK_DEADLOCK FALSE\n", workers=4, timeout=600)
    if not res2.violation:
        raise ToolError("self-test failed: mech/SparseIter without the last_set fallback does not violate Agree")
    chk.cov["stages"].append({"stage": "self-test: mech/SparseIter without the last_set fallback (single value, iterated from the back) violates Agree", "ok": True})


def check_C10(chk):
    bins = vlib.build_harness(["dbg-native"])
    stage_mech_oneiter(chk)
    stage_mech_sparseiter(chk)
    nbits = 10 if chk.thorough else 9
    hist = gen_iter_histories(chk, nbits + 1, memory=1 if chk.thorough else 0)
    # every (window, previous operation, call): all item counts in the thorough tier and on the multi-block contents, <= 6 items otherwise
    hist_mem = hist if chk.thorough else gen_iter_histories(chk, nbits + 1, memory=1)
    contents, res = vlib.generate_cases(chk.work, "GenBV_iter", "GenBV",
                                        cfg_consts({"N": nbits, "Mode": '"bits"', "FamilyLens": "{}", "RLClasses": "{}", "RLMaxRuns": 0, "RLTails": "{}", "SpreadPos": "{}", "SpreadK": 0}) + GEN_TAIL)
    chk.add_tlc(res, "GenBV reference sequences for all contents <= %d bits" % nbits, {"behaviours": len(res.replay_lines)})
    wmc, res2 = vlib.generate_cases(chk.work, "GenWM_iter", "GenWM", cfg_consts({"Alpha": "{0, 1, 2}", "MaxLen": 5 if chk.thorough else 4, "ExtraVals": "{}"}) + GEN_TAIL)
    chk.add_tlc(res2, "GenWM reference sequences for vectors over {0,1,2}", {"behaviours": len(res2.replay_lines)})
    st = "replay iterator transition cover on all iterator types x all contents x all start points (dbg-native)"
    out = chk.run_harness(bins["dbg-native"], ["replay", "--kind", "iter", "--cases", hist, "--contents", contents, "--wmcontents", wmc], st)
    if out:
        chk.add_replay(out, st, behaviours=out.get("evaluations", 0))
    if not chk.thorough:
        small, ress = vlib.generate_cases(chk.work, "GenBV_iter6", "GenBV",
                                          cfg_consts({"N": 6, "Mode": '"bits"', "FamilyLens": "{}", "RLClasses": "{}", "RLMaxRuns": 0, "RLTails": "{}", "SpreadPos": "{}", "SpreadK": 0}) + GEN_TAIL)
        chk.add_tlc(ress, "GenBV reference sequences for all contents <= 6 bits", {"behaviours": len(ress.replay_lines)})
        st = "replay the (window, previous operation, call) cover on all iterator types x all contents <= 6 bits"
        out = chk.run_harness(bins["dbg-native"], ["replay", "--kind", "iter", "--cases", hist_mem, "--contents", small, "--wmcontents", wmc], st)
        if out:
            chk.add_replay(out, st, behaviours=out.get("evaluations", 0))
    spread, res3 = vlib.generate_cases(chk.work, "GenBV_spread", "GenBV",
                                       cfg_consts({"N": 0, "Mode": '"spread"', "FamilyLens": "{128, 130, 192}" if chk.thorough else "{128, 130}", "RLClasses": "{}", "RLMaxRuns": 0,
                                                   "RLTails": "{}", "SpreadPos": "{0, 1, 63, 64, 65, 126, 127}", "SpreadK": 4 if chk.thorough else 3}) + GEN_TAIL)
    chk.add_tlc(res3, "GenBV contents with few ones / few zeros spread over three words", {"behaviours": len(res3.replay_lines)})
    st = "replay iterator transition cover on multi-word contents (word-crossing scans)"
    out = chk.run_harness(bins["dbg-native"], ["replay", "--kind", "iter", "--cases", hist, "--contents", spread], st)
    if out:
        chk.add_replay(out, st, behaviours=out.get("evaluations", 0))
    blocks, res4 = vlib.generate_cases(chk.work, "GenBV_rlblocks", "GenBV",
                                       cfg_consts({"N": 0, "Mode": '"rlblocks"', "FamilyLens": "{}", "RLClasses": "{}", "RLMaxRuns": 0, "RLTails": "{}", "SpreadPos": "{}", "SpreadK": 0}) + GEN_TAIL)
    chk.add_tlc(res4, "GenBV contents whose run-length encoding spans 2-3 blocks with padding", {"behaviours": len(res4.replay_lines)})
    st = "replay the (window, previous operation, call) cover on multi-block run-length contents (iterators positioned near block ends)"
    out = chk.run_harness(bins["dbg-native"], ["replay", "--kind", "iter", "--cases", hist_mem, "--contents", blocks], st)
    if out:
        chk.add_replay(out, st, behaviours=out.get("evaluations", 0))
    chk.cov["exhaustive"] = True
    stage_trace(chk, bins, "iter", "TraceIter", invariants=("Window",), seeds=5 if chk.thorough else 1)
    return chk.finish(rule="cases = (structure content, iterator kind, start point, call history); histories are the transition cover of the "
                           "Layer A window machine (every call from every reachable window, reached by a shortest history, then drained); "
                           "distinct = distinct (content, iterator, start, history) with a non-empty reference sequence")



def replay_stage(chk, bins, variant, args, stage, hooks=False, oob_only=False, behaviours=None):
    """Runs a harness replay; a death by signal is a violation (memory unsafety), with hooks the bounds summary is kept."""
    a = list(args)
    if hooks:
        a += ["--hooks", "1"]
    out = chk.run_harness(bins[variant], a, stage)
    if out is None:
        return None
    if oob_only:
        # C08 decides bounds only: wrong values or ordinary panics belong to other properties.
        h = out.get("hooks", {})
        chk.cov["evaluations"] += out.get("evaluations", 0)
        chk.cov["distinct_nontrivial"] += out.get("distinct_nontrivial", 0)
        chk.cov.setdefault("bounds_events", 0)
        chk.cov["bounds_events"] += h.get("accesses", 0) + h.get("carves", 0)
        chk.cov["stages"].append({"stage": stage, "comparisons": out.get("evaluations", 0), "bounds_events": h.get("accesses", 0) + h.get("carves", 0),
                                   "worst_margin_event": h.get("worst"), "oob": h.get("oob_count", 0)})
        if h.get("oob_count", 0) == 0:
            chk.cov["traces_validated_against_impl"] += behaviours if behaviours is not None else out.get("cases", 0)
        for o in h.get("oob", []):
            chk.violation(stage, {"kind": "oob", "variant": variant, "site": o[0], "index_or_end": o[1], "len": o[2]})
        oobm = [m for m in out.get("mismatches", []) if "VERIF-OOB" in json.dumps(m)]
        for m in oobm[:3]:
            chk.violation(stage, m)
        for smp in out.get("samples", [])[:1]:
            if len(chk.cov["samples"]) < 8:
                chk.cov["samples"].append({"stage": stage, "case": smp})
    else:
        chk.add_replay(out, stage, behaviours=behaviours)
    return out


def gen_bv_sets(chk, nbits, family):
    p1, r1 = vlib.generate_cases(chk.work, "GenBV_bits", "GenBV",
                                 cfg_consts({"N": nbits, "Mode": '"bits"', "FamilyLens": "{}", "RLClasses": "{}", "RLMaxRuns": 0, "RLTails": "{}", "SpreadPos": "{}", "SpreadK": 0}) + GEN_TAIL)
    chk.add_tlc(r1, "GenBV bits<=%d" % nbits, {"behaviours": len(r1.replay_lines)})
    p2, r2 = vlib.generate_cases(chk.work, "GenBV_family", "GenBV",
                                 cfg_consts({"N": 0, "Mode": '"family"', "FamilyLens": family, "RLClasses": "{}", "RLMaxRuns": 0, "RLTails": "{}", "SpreadPos": "{}", "SpreadK": 0}) + GEN_TAIL)
    chk.add_tlc(r2, "GenBV family %s" % family, {"behaviours": len(r2.replay_lines)})
    p3, r3 = vlib.generate_cases(chk.work, "GenBV_spread", "GenBV",
                                 cfg_consts({"N": 0, "Mode": '"spread"', "FamilyLens": "{128, 130}", "RLClasses": "{}", "RLMaxRuns": 0, "RLTails": "{}",
                                             "SpreadPos": "{0, 1, 63, 64, 65, 126, 127}", "SpreadK": 3}) + GEN_TAIL)
    chk.add_tlc(r3, "GenBV spread", {"behaviours": len(r3.replay_lines)})
    return p1, p2, p3


def check_C09(chk):
    bins = vlib.build_harness(["dbg-native", "rel-native"])
    nbits = 9 if chk.thorough else 6
    p1, p2, p3 = gen_bv_sets(chk, nbits, FAMILY_THOROUGH if chk.thorough else FAMILY_QUICK)
    hist = gen_iter_histories(chk, nbits + 1)
    wmc, rw = vlib.generate_cases(chk.work, "GenWM_total", "GenWM", cfg_consts({"Alpha": "{0, 1, 2, 3}", "MaxLen": 4 if chk.thorough else 3}) + " ExtraVals <- ExtraDef\n" + GEN_TAIL,
                                  defs="ExtraDef == {-1, 100}")
    chk.add_tlc(rw, "GenWM with values up to u64::MAX", {"behaviours": len(rw.replay_lines)})
    ctor, rc = vlib.generate_cases(chk.work, "GenCtor_run", "GenCtor", cfg_consts({"Smalls": "{0, 1, 2, 5}"}) + GEN_TAIL)
    chk.add_tlc(rc, "GenCtor: defined success / refusal of constructors for extreme arguments", {"behaviours": len(rc.replay_lines)})
    for v in ("dbg-native", "rel-native"):
        for p, label in ((p1, "bits"), (p2, "family"), (p3, "spread")):
            replay_stage(chk, bins, v, ["replay", "--kind", "bv", "--types", "plain,sparse,rl", "--cases", p], "total: all queries x extreme arguments, GenBV %s, three bitvector types, %s" % (label, v))
        out = replay_stage(chk, bins, v, ["replay", "--kind", "iter", "--cases", hist, "--contents", p1, "--wmcontents", wmc],
                           "total: nth/nth_back beyond the remainder on every iterator type, %s" % v)
        if out:
            chk.cov["traces_validated_against_impl"] += 0
        replay_stage(chk, bins, v, ["replay", "--kind", "iter", "--cases", hist, "--contents", p3], "total: iterator cover on multi-word contents, %s" % v)
        replay_stage(chk, bins, v, ["replay", "--kind", "wm", "--cases", wmc], "total: wavelet matrix and core mappings for any index, rank, value, %s" % v)
        replay_stage(chk, bins, v, ["replay", "--kind", "ctor", "--cases", ctor], "total: constructors, %s" % v)
    # recorded direction on the optimized build: the extreme-argument tokens are part of every query batch
    for scen, mod in (("plain", "TraceBV"), ("sparse", "TraceBV"), ("rl", "TraceBV"), ("wm", "TraceWM")):
        if chk.thorough or scen in ("plain", "wm"):
            stage_trace(chk, bins, scen, mod, variant="rel-native")
    # universes up to usize::MAX: the arguments are then real 64-bit numbers (U64 limb triples), debug and optimized builds
    for v in ("dbg-native", "rel-native"):
        stage_trace(chk, bins, "huge", "TraceBV64", variant=v)
    chk.cov["exhaustive"] = True
    return chk.finish(rule="cases = (structure, call, argument) with arguments from {0,1,len-1,len,len+1,2len+7,2^32,2^62+12345,2^63,2^63+1,MAX-1,MAX}; "
                           "each replayed on a debug build (overflow checks on) and an optimized build (checks off); both must return the "
                           "value Layer A defines; a panic is a disagreement; distinct = distinct (content, call, argument)")


BUILDER_TAIL = "INIT Init\nNEXT Next\nVIEW View\nINVARIANT Inv\nCHECK_DEADLOCK FALSE\n"


def check_C16(chk):
    bins = vlib.build_harness(["dbg-native"])
    for kind, consts in (("sparse", {"MaxU": 6 if chk.thorough else 5, "MaxCap": 4 if chk.thorough else 3, "MaxLen": 0}),
                         ("rl", {"MaxU": 0, "MaxCap": 0, "MaxLen": 11 if chk.thorough else 9})):
        c = dict(consts)
        c["Kind"] = '"%s"' % kind
        c["Memory"] = 1
        path, res = vlib.generate_cases(chk.work, "GenBuilder_" + kind, "GenBuilder", cfg_consts(c) + BUILDER_TAIL, timeout=1200)
        chk.add_tlc(res, "GenBuilder %s: cover of every (reachable builder state, class of the previous call, call) of the builder machine (invariant BuilderOK checked)" % kind, {"behaviours": len(res.replay_lines)})
        st = "replay builder transition cover (%s) on dbg-native" % kind
        out = chk.run_harness(bins["dbg-native"], ["replay", "--kind", "builder", "--cases", path], st)
        if out:
            chk.add_replay(out, st)
    ctor, rc = vlib.generate_cases(chk.work, "GenCtor_run", "GenCtor", cfg_consts({"Smalls": "{0, 1, 2, 5}"}) + GEN_TAIL)
    chk.add_tlc(rc, "GenCtor: refusal of overflowing / out-of-order run-length builder calls near usize::MAX", {"behaviours": len(rc.replay_lines)})
    out = chk.run_harness(bins["dbg-native"], ["replay", "--kind", "ctor", "--cases", ctor], "replay GenCtor on dbg-native")
    if out:
        chk.add_replay(out, "replay GenCtor on dbg-native")
    chk.cov["exhaustive"] = True
    stage_trace(chk, bins, "builder", "TraceBuilder", invariants=("Inv",), seeds=2 if chk.thorough else 1)
    # what the run-length builder builds at scale: many blocks, nearly full blocks followed by long values, by rotating decompositions
    stage_trace(chk, bins, "rl", "TraceBV", invariants=("ObjWellFormed",))
    return chk.finish(rule="cases = builder call histories with valid and invalid calls; every (reachable builder state, call) pair once, reached by a "
                           "shortest history, followed by a completion and the conversion; result, every observable after every call and the "
                           "converted vector's content are compared; distinct = distinct history prefixes")


def check_C15(chk):
    bins = vlib.build_harness(["dbg-native"])
    stage_mech_eliasfano(chk)
    stage_mech_sparseiter(chk)
    maxu, maxv = (6, 6) if chk.thorough else (5, 5)
    path, res = vlib.generate_cases(chk.work, "GenMS_run", "GenMS", cfg_consts({"MaxU": maxu, "MaxVals": maxv}) + GEN_TAIL, timeout=1500)
    chk.add_tlc(res, "GenMS: all universes <= %d x all value sequences of <= %d values (non-decreasing ones answered, others must be refused)" % (maxu, maxv),
                {"behaviours": len(res.replay_lines)})
    hist = gen_iter_histories(chk, maxu + 1)
    st = "replay multiset cases by set / try_set / extend / try_from_iter, queries and two-ended iterator cover"
    out = chk.run_harness(bins["dbg-native"], ["replay", "--kind", "ms", "--cases", path, "--histories", hist], st)
    if out:
        chk.add_replay(out, st)
    chk.cov["exhaustive"] = True
    stage_trace(chk, bins, "ms", "TraceMS", seeds=2 if chk.thorough else 1)
    res = vlib.run_tlc(chk.work, "MC_MSRef64_run", "MC_MSRef64", cfg_consts({"MaxU": 5 if chk.thorough else 4, "MaxVals": 5 if chk.thorough else 4}) + MC_TAIL + "INVARIANT Agree\n", workers=8)
    vlib.tlc_must_pass(res, "MC_MSRef64")
    chk.add_tlc(res, "MC_MSRef64: the U64 (limb) multiset semantics agrees with MSRef on every small multiset and argument")
    stage_trace(chk, bins, "huge_ms", "TraceMS64")
    return chk.finish(rule="cases = (universe, value list, query, argument) on multiset sparse vectors built by three routes; plus iterator call "
                           "histories over duplicates; distinct = distinct (universe, values, query, argument) with a non-empty value list")


def stage_conv(chk, bins, callset, depth, nbits, family=None):
    beh, res = vlib.generate_cases(chk.work, "GenConv_" + callset, "GenConv", cfg_consts({"Depth": depth, "CallSet": '"%s"' % callset}) + GEN_TAIL)
    chk.add_tlc(res, "GenConv: all histories of depth %d over the object machine (%s)" % (depth, callset), {"behaviours": len(res.replay_lines)})
    contents, r2 = vlib.generate_cases(chk.work, "GenBV_conv", "GenBV",
                                       cfg_consts({"N": nbits, "Mode": '"bits"', "FamilyLens": "{}", "RLClasses": "{}", "RLMaxRuns": 0, "RLTails": "{}", "SpreadPos": "{}", "SpreadK": 0}) + GEN_TAIL)
    chk.add_tlc(r2, "GenBV contents <= %d bits" % nbits, {"behaviours": len(r2.replay_lines)})
    st = "replay object-machine histories (%s, depth %d) x all contents <= %d bits" % (callset, depth, nbits)
    out = chk.run_harness(bins["dbg-native"], ["replay", "--kind", "conv", "--cases", beh, "--contents", contents], st)
    if out:
        chk.add_replay(out, st, behaviours=len(res.replay_lines) * len(r2.replay_lines))
    if family:
        fam, r3 = vlib.generate_cases(chk.work, "GenBV_convfam", "GenBV",
                                      cfg_consts({"N": 0, "Mode": '"family"', "FamilyLens": family, "RLClasses": "{}", "RLMaxRuns": 0, "RLTails": "{}", "SpreadPos": "{}", "SpreadK": 0}) + GEN_TAIL)
        chk.add_tlc(r3, "GenBV boundary family %s" % family, {"behaviours": len(r3.replay_lines)})
        short, r4 = vlib.generate_cases(chk.work, "GenConv_short_" + callset, "GenConv", cfg_consts({"Depth": 2, "CallSet": '"%s"' % callset}) + GEN_TAIL)
        st = "replay object-machine histories (%s, depth 2) x boundary family" % callset
        out = chk.run_harness(bins["dbg-native"], ["replay", "--kind", "conv", "--cases", short, "--contents", fam], st)
        if out:
            chk.add_replay(out, st, behaviours=len(r4.replay_lines) * len(r3.replay_lines))


def check_C11(chk):
    bins = vlib.build_harness(["dbg-native"])
    stage_conv(chk, bins, "convert", 3, 8 if chk.thorough else 7, family="{63, 64, 65, 511, 512, 513}" if not chk.thorough else FAMILY_QUICK)
    # conversions whose source is a multiset: the plain bitvector holds the distinct positions, counted once each
    msp, rms = vlib.generate_cases(chk.work, "GenMS_conv", "GenMS", cfg_consts({"MaxU": 5 if chk.thorough else 4, "MaxVals": 5 if chk.thorough else 4}) + GEN_TAIL)
    chk.add_tlc(rms, "GenMS multisets as conversion sources", {"behaviours": len(rms.replay_lines)})
    st = "replay multiset cases: queries and conversion of the multiset into a plain bitvector (content, count, equality with the directly built vector)"
    out = chk.run_harness(bins["dbg-native"], ["replay", "--kind", "ms", "--cases", msp], st)
    if out:
        chk.add_replay(out, st)
    # conversions at the top of the range: sparse <-> run-length with lengths up to usize::MAX, validated against the U64 semantics
    stage_trace(chk, bins, "huge", "TraceBV64", extra_args=("--only", "conv"))
    # conversions at every state of the lifecycle machine: sources that were mutated, converted, given supports before
    stage_life(chk, bins, "C11", ["to:plain>plain", "to:plain>sparse", "to:plain>rl", "to:sparse>", "to:rl>"], ops='{"mut", "to", "enable"}', intwidths="{1}",
               maxlen=3 if chk.thorough else 2, scales=(1, 3, 64, 65) if chk.thorough else (1, 3, 65), big_scales=(130, 1100), big_stride=11 if chk.thorough else 41,
               walks=150 if chk.thorough else 0, walk_depth=9, memory=2)      # two calls of memory: what a mutator leaves behind (stale bits, cached counts) reaches the conversion after next
    chk.cov["exhaustive"] = True
    stage_trace(chk, bins, "conv", "TraceConv", seeds=2 if chk.thorough else 1)
    return chk.finish(rule="cases = (content, initial type and builder decomposition, conversion chain of length <= 3); after every conversion the "
                           "content, equality with and byte-identity to the directly built structure are compared; distinct = distinct (content, chain)")


def check_C19(chk):
    bins = vlib.build_harness(["dbg-native"])
    stage_conv(chk, bins, "supports", 4, 7 if chk.thorough else 6, family="{63, 64, 65, 511, 512, 513, 4095, 4096, 4097}")
    stage_format_nosupport(chk, bins)
    # wavelet matrices and cores whose level bitvectors carry every subset of supports (and per-level mixtures): load, ==, answers
    stage_wm_subsets(chk, bins)
    # supports enabled, reloaded and cloned at every state of the lifecycle machine
    stage_life(chk, bins, "C19", ["enable:", "reload:plain", "reload:sparse", "reload:rl", "file:plain", "file:sparse", "file:rl", "clone:plain", "clone:sparse", "clone:rl"],
               ops='{"mut", "to", "enable", "reload", "file", "clone"}', intwidths="{1}", maxlen=3 if chk.thorough else 2, scales=(1, 64, 65), big_scales=(130, 1100), big_stride=5 if chk.thorough else 13)
    chk.cov["exhaustive"] = True
    stage_trace(chk, bins, "conv", "TraceConv", seeds=2 if chk.thorough else 1)
    return chk.finish(rule="cases = (content, history of enable_* / serialize+load calls of depth 4 from a plain bitvector without supports): every "
                           "reachable subset of supports in every order; after each call the reported subset, the content, every enabled answer, "
                           "equality and byte-identity with the directly built structure with the same subset; finally enabling the rest must give "
                           "the fully enabled original; plus composite structures loaded from files whose embedded bitvectors carry no supports and "
                           "skip_option over every optional structure; distinct = distinct (content, history)")


def stage_format_dir2(chk, bins, kinds=("raw", "int", "bv", "sparse", "rl", "wm"), maxbits=6, maxn=7):
    """Direction 2 of C07: files written by the document-derived encoder (support structures absent, every admissible
    low-part width, wider sample widths) are loaded by the library and queried.  MC_Format's RoundTrip invariant
    (encoder and decoder agree) is checked on every generated file in the same TLC run."""
    for kind in kinds:
        path, res = vlib.generate_cases(chk.work, "GenFormat_" + kind, "MC_Format",
                                        cfg_consts({"Kind": '"%s"' % kind, "MaxBits": maxbits, "MaxN": maxn}) + GEN_TAIL, timeout=1500)
        chk.add_tlc(res, "MC_Format/%s: encoder/decoder round trip on every small-scope content and writer-side choice; files emitted" % kind,
                    {"behaviours": len(res.replay_lines)})
        st = "load files written from the document's rules alone (%s): content, equality with the library-built structure, answers" % kind
        out = chk.run_harness(bins["dbg-native"], ["replay", "--kind", "format", "--cases", path], st)
        if out:
            chk.add_replay(out, st)


def stage_format_nosupport(chk, bins):
    stage_format_dir2(chk, bins, kinds=("bv", "sparse", "wm"))


def stage_mc_stream(chk):
    res = vlib.run_tlc(chk.work, "MC_Stream_run", "MC_Stream", cfg_consts({"MaxRecs": 3, "MaxSize": 3}) + "SPECIFICATION Spec\nINVARIANT Inv\nCHECK_DEADLOCK FALSE\n", workers=8)
    vlib.tlc_must_pass(res, "MC_Stream")
    chk.add_tlc(res, "MC_Stream: write / cut / load interleavings over <= 3 records of <= 3 elements; Tiling, loads succeed iff the record is present")


def gen_streams(chk, maxstream, poolsel="all", label=""):
    name = "GenStream_%s%d%s" % (poolsel, maxstream, label)
    path, res = vlib.generate_cases(chk.work, name, "GenStream", cfg_consts({"MaxStream": maxstream, "Mode": '"streams"', "PoolSel": '"%s"' % poolsel}) + GEN_TAIL, timeout=1500)
    chk.add_tlc(res, "GenStream: all streams of <= %d values from the %s pool" % (maxstream, poolsel), {"behaviours": len(res.replay_lines)})
    return path, res


def check_C06(chk):
    bins = vlib.build_harness(["dbg-native"])
    stage_mc_stream(chk)
    path, res = gen_streams(chk, 2)
    st = "replay streams: bytes written, bytes consumed, equality and answers of every loaded value, in memory and through files"
    out = chk.run_harness(bins["dbg-native"], ["replay", "--kind", "stream", "--cases", path, "--file", "1"], st)
    if out:
        chk.add_replay(out, st)
    if chk.thorough:
        path3, res3 = gen_streams(chk, 3, poolsel="map")
        out = chk.run_harness(bins["dbg-native"], ["replay", "--kind", "stream", "--cases", path3], st + " (streams of 3)")
        if out:
            chk.add_replay(out, st + " (streams of 3)")
    pp, rp = vlib.generate_cases(chk.work, "GenStream_params", "GenStream", cfg_consts({"MaxStream": 0, "Mode": '"params"', "PoolSel": '"all"'}) + GEN_TAIL)
    chk.add_tlc(rp, "GenStream: size_by_params grid", {"behaviours": len(rp.replay_lines)})
    out = chk.run_harness(bins["dbg-native"], ["replay", "--kind", "stream", "--cases", pp], "replay size_by_params grid")
    if out:
        chk.add_replay(out, "replay size_by_params grid")
    # vectors beyond any chunk or buffer size a loader may use internally (2^19 .. 2^26 items): load == original, all bytes consumed
    one = os.path.join(chk.work, "bigload.cases.ndjson")
    with open(one, "w") as f:
        f.write('{"k": "bigload"}\n')
    st = "round trip of Vec<u64> (2^20 + 100 items), Vec<(u64, u64)> (2^19 + 57), RawVector and BitVector (2^26 + 6417 bits)"
    out = chk.run_harness(bins["dbg-native"], ["replay", "--kind", "bigload", "--cases", one], st)
    if out:
        chk.add_replay(out, st)
    # serialize + load (in memory and through serialize_to / load_from) at every state of the lifecycle machine
    stage_life(chk, bins, "C06int", ["reload:", "file:"], ops='{"mut", "reload", "file"}', kinds='{"int"}', initkinds='{"int"}', intwidths="{1, 3, 30}", maxlen=3, scales=(1, 3, 64, 65))
    stage_life(chk, bins, "C06", ["reload:", "file:"], ops='{"mut", "to", "enable", "reload", "file"}', initkinds='{"raw", "int"}' if chk.thorough else '{"raw"}', intwidths="{1, 30}", maxlen=3 if chk.thorough else 2, scales=(1, 64, 65), big_scales=(1100,), big_stride=9)
    chk.cov["exhaustive"] = True
    stage_trace(chk, bins, "stream", "TraceStream", seeds=2 if chk.thorough else 1)
    return chk.finish(rule="cases = streams of serialized values of every Serialize type (73-value pool incl. empty instances, nested options, all 8 support "
                           "subsets) written back to back; per value: bytes written, size_in_elements/size_in_bytes, bytes consumed, ==, answers; "
                           "distinct = distinct (stream, position, comparison)")


def stage_gen_writer(chk, bins, kind, widths, bufs, depth, maxpush, label):
    name = "GenWriter_" + label
    path, res = vlib.generate_cases(chk.work, name, "GenWriter", cfg_consts({"Kind": '"%s"' % kind, "Widths": widths, "Bufs": bufs, "Depth": depth, "MaxPush": maxpush}) + GEN_TAIL, timeout=1500)
    chk.add_tlc(res, "GenWriter %s: widths %s, buffer sizes %s, depth %d / up to %d pushes, endings close / close twice / drop" % (kind, widths, bufs, depth, maxpush),
                {"behaviours": len(res.replay_lines)})
    st = "replay %s: len() after every push, close results, file bytes vs the in-memory vector's serialization" % name
    out = chk.run_harness(bins["dbg-native"], ["replay", "--kind", "writer", "--cases", path], st, timeout=3000)
    if out:
        chk.add_replay(out, st)


def check_C12(chk):
    bins = vlib.build_harness(["dbg-native"])
    chk.scratch_tmpdir()
    depth = 7 if chk.thorough else 5
    res = vlib.run_tlc(chk.work, "MC_Writer", "Writer", cfg_consts({"W": 4, "Requested": "{0, 1, 3, 4, 5, 8, 9}", "Depth": depth}) + MC_TAIL + "INVARIANT Inv\n", workers=16, timeout=3000)
    vlib.tlc_must_pass(res, "mech/Writer")
    chk.add_tlc(res, "mech/Writer (Layer B): buffer, safe flush with carried overflow, final flush, header, idempotent close with 4-bit words, requested buffer sizes "
                     "{0,1,3,4,5,8,9}, every history of %d pushes of 0..4 bits: Conservation, WholeWords, SmallCarry, ClosedFile" % depth)
    if chk.thorough:
        stage_gen_writer(chk, bins, "raw", "{}", "{0, 1, 63, 64, 65, 100, 128}", 3, 0, "raw3")
        stage_gen_writer(chk, bins, "int", "{1, 7, 31, 32, 33, 63, 64}", "{0, 1, 2, 3, 9, 10, 63, 64, 65}", 0, 140, "int")
    else:
        stage_gen_writer(chk, bins, "raw", "{}", "{0, 64, 65, 128}", 3, 0, "raw3")
        stage_gen_writer(chk, bins, "int", "{1, 7, 33, 64}", "{0, 1, 3, 9, 10, 64}", 0, 70, "int")
    # the writers fed from vectors at every state of the lifecycle machine (grown, shrunk, overwritten), files loaded back
    stage_life(chk, bins, "C12", ["writer:"], ops='{"mut", "to", "writer"}', kinds='{"raw", "int"}', maxlen=4 if chk.thorough else 3, scales=(1, 3, 64, 65, 130), big_scales=(1100,), big_stride=5)
    chk.cov["exhaustive"] = True
    stage_trace(chk, bins, "writer", "TraceWriter", seeds=2 if chk.thorough else 1)
    # writers under a file-size limit: a close that failed does not turn into a success when it is asked again (the file is incomplete)
    stage_trace(chk, bins, "wlimit", "TraceFaults", seeds=1)
    return chk.finish(rule="cases = (writer kind, item width, buffer size, push sequence, ending); raw: every history of 3 pushes over bits and 0..64-bit "
                           "integers per buffer size (a 64-bit buffer is exactly full / over-full by k / straddled within 3 pushes); int: every push "
                           "count up to several buffer fills per (width, buffer); distinct = distinct (configuration, history prefix)")


def gen_map_streams(chk, maxstream):
    path, res = gen_streams(chk, maxstream, poolsel="map")
    return path, res


def check_C13(chk):
    bins = vlib.build_harness(["dbg-native"])
    chk.scratch_tmpdir()
    stage_mc_stream(chk)
    path, res = gen_map_streams(chk, 3 if chk.thorough else 2)
    st = "replay mapped views: every record start, offsets outside the file (len, len+1, 2len+3, 2^63, MAX-1, MAX), every truncation to whole elements"
    out = chk.run_harness(bins["dbg-native"], ["replay", "--kind", "mapped", "--cases", path], st, timeout=3000)
    if out:
        chk.add_replay(out, st)
    # raw / integer vector mappers over files written at every state of the lifecycle machine
    stage_life(chk, bins, "C13", ["mapper:"], ops='{"mut", "to", "mapper"}', kinds='{"raw", "int"}', maxlen=4 if chk.thorough else 3, scales=(1, 3, 64, 65, 130), big_scales=(1100,), big_stride=5)
    chk.cov["exhaustive"] = True
    return chk.finish(rule="cases = (file made of <= 2 (3) mappable structures from a 38-value pool, view type, offset or truncation); content vs the "
                           "value, map_offset, map_len vs the sizes the format determines (so views tile the file); refusal outside the file and on "
                           "cut records; distinct = distinct (file, record, offset/truncation)")


def check_C18(chk):
    bins = vlib.build_harness(["dbg-native"])
    chk.scratch_tmpdir()
    base = {"Sizes": "{0, 8, 4088, 4096, 4104, 8192, 12288, 65536}", "PageSize": 4096, "MaxLive": 2}
    for ft, uu, must_hold in (('"map_failed"', '"bytes"', True), ('"null"', '"bytes"', False), ('"map_failed"', '"elements"', False)):
        c = dict(base)
        c["FailTest"] = ft
        c["UnmapUnit"] = uu
        res = vlib.run_tlc(chk.work, "MC_MMap_%s_%s" % (ft.strip('"'), uu.strip('"')), "MMap", cfg_consts(c) + "SPECIFICATION Spec\nINVARIANT Inv\nCHECK_DEADLOCK FALSE\n", workers=8, timeout=600)
        if must_hold:
            vlib.tlc_must_pass(res, "mech/MMap")
            chk.add_tlc(res, "mech/MMap (Layer B): map / drop cycles over file sizes {0, 8, 4088, 4096, 4104, 8192, 12288, 65536} with up to two live maps, failure test = MAP_FAILED, "
                             "munmap length in bytes: NoLeak and ValidWhenOk")
        elif not res.violation:
            raise ToolError("self-test failed: mech/MMap with %s / %s does not violate its invariant" % (ft, uu))
        else:
            chk.cov["stages"].append({"stage": "self-test: mech/MMap with failure test %s and munmap length in %s violates the invariant (F7 / F8)" % (ft, uu), "ok": True})
    total = stage_trace(chk, bins, "mmap", "TraceMap", seeds=2 if chk.thorough else 1, consts={"PageSize": os.sysconf("SC_PAGE_SIZE")})
    return chk.finish(rule="cases = (file size, mapping mode, map/drop cycle with one or two live maps); outcome of MemoryMap::new, slice validity and "
                           "content, bytes of the file mapped in /proc/self/maps after every new and drop, file content after writing through a "
                           "mutable map; validated event by event by TLC against SDSMap (NoLeak)",
                      extra={"page_size": 4096})


def check_C14(chk):
    bins = vlib.build_harness(["dbg-native"])
    chk.scratch_tmpdir()
    stage_mc_stream(chk)
    path, res = gen_streams(chk, 1)
    st = "faults: every byte prefix of every pool value's serialization -> load / skip_option must return an error; every write budget -> serialize must return an error"
    out = chk.run_harness(bins["dbg-native"], ["replay", "--kind", "faults", "--cases", path], st, timeout=3000)
    if out:
        chk.add_replay(out, st)
    mp, rm = gen_map_streams(chk, 2)
    st = "faults: mapped views on every truncation of files of <= 2 mappable structures"
    out = chk.run_harness(bins["dbg-native"], ["replay", "--kind", "mapped", "--cases", mp], st, timeout=3000)
    if out:
        chk.add_replay(out, st)
    chk.cov["exhaustive"] = True
    stage_trace(chk, bins, "wlimit", "TraceFaults", seeds=1)
    return chk.finish(level="fault_enumeration",
                      rule="fault points = (value from the 73-value pool, every byte cut 0..size-1 for load and skip_option, every write budget "
                           "0..size-1 for serialize), (file of <= 2 mappable structures, every truncation to whole elements, every record), "
                           "(writer configuration, every file-size limit 0..final size in steps of 8 bytes); distinct = distinct (value, fault point, operation)")



def stage_wm_subsets(chk, bins):
    """Wavelet matrix / core files whose level bitvectors carry every subset of supports, and per-level mixtures (C07 direction 2, C19)."""
    wpath, wres = vlib.generate_cases(chk.work, "GenWM_subsets", "GenWM", cfg_consts({"Alpha": "{0, 1, 2, 3}", "MaxLen": 4 if chk.thorough else 3, "ExtraVals": "{}"}) + GEN_TAIL, timeout=900)
    chk.add_tlc(wres, "GenWM vectors for the support-subset files", {"behaviours": len(wres.replay_lines)})
    st = "wavelet matrix / core files whose levels carry each of the 8 subsets of supports and per-level mixtures: load consumes the file, == the original, same answers"
    out = chk.run_harness(bins["dbg-native"], ["replay", "--kind", "wm", "--cases", wpath, "--subsets", "1"], st)
    if out:
        chk.add_replay(out, st)


def check_C07(chk):
    bins = vlib.build_harness(["dbg-native"])
    stage_format_dir2(chk, bins, maxbits=7 if chk.thorough else 6, maxn=8 if chk.thorough else 7)
    stage_wm_subsets(chk, bins)
    chk.cov["exhaustive"] = True
    stage_trace(chk, bins, "format", "TraceFormat", seeds=2 if chk.thorough else 1)
    return chk.finish(rule="direction 2: every small-scope content of every documented type x every writer-side choice (supports absent, low width 1..9, "
                           "sample width minimal or wider) encoded by tla/Format.tla and loaded by the library; direction 1: files written by the library "
                           "for small-scope and random contents decoded and checked by TLC with the document-derived rules; distinct = distinct files")


ALL_VARIANTS = ["dbg-native", "rel-native", "dbg-generic", "rel-generic"]


def check_C17(chk):
    bins = vlib.build_harness(ALL_VARIANTS)
    nw = 3 if chk.thorough else 2
    res = vlib.run_tlc(chk.work, "MC_Words_run", "MC_Words", cfg_consts({"W": 4, "ByteBits": 2, "NW": nw}) + MC_TAIL + "INVARIANT Inv\n", workers=16, timeout=1800)
    vlib.tlc_must_pass(res, "MC_Words")
    chk.add_tlc(res, "MC_Words: write_int/read_int (both branches, exact masks) and the byte-wise select refine the reference at W=4, %d-word arrays, all offsets/widths/values/backgrounds" % nw)
    res8 = vlib.run_tlc(chk.work, "MC_Words8", "MC_Words", cfg_consts({"W": 8, "ByteBits": 2, "NW": 1}) + MC_TAIL + "INVARIANT SelectOK\n", workers=16)
    vlib.tlc_must_pass(res8, "MC_Words W=8")
    chk.add_tlc(res8, "MC_Words: byte-wise select at W=8 with 2-bit bytes, all 256 words x all ranks")
    offs = "0..191" if chk.thorough else "{0, 1, 2, 31, 32, 33, 62, 63, 64, 65, 66, 100, 126, 127, 128, 129, 130, 190, 191}"
    paths = []
    for kind in ("misc", "sel", "rw"):
        p, r = vlib.generate_cases(chk.work, "GenWords_" + kind, "GenWords",
                                   cfg_consts({"W": 64, "ByteBits": 8, "Kind": '"%s"' % kind, "NWords": 3}) + " Offsets <- OffDef\n" + GEN_TAIL,
                                   defs="OffDef == " + (offs if kind == "rw" else "{}"), timeout=1800, workers=1)
        chk.add_tlc(r, "GenWords %s at W=64" % kind, {"behaviours": len(r.replay_lines)})
        paths.append((kind, p))
    for v in ALL_VARIANTS:
        for kind, p in paths:
            st = "replay GenWords %s on %s" % (kind, v)
            out = chk.run_harness(bins[v], ["replay", "--kind", "bits", "--cases", p], st)
            if out:
                chk.add_replay(out, st)
    chk.cov["exhaustive"] = True
    chk.cov["build_variants"] = ALL_VARIANTS
    for v in (ALL_VARIANTS if chk.thorough else ["dbg-generic", "rel-native"]):
        stage_trace(chk, bins, "bits", "TraceWords", variant=v, consts={"W": 64, "ByteBits": 8})
    return chk.finish(rule="cases = (offset, width, value, background) for read_int/write_int over 3-word arrays; (word, rank) for select: every byte value "
                           "in every lane alone and above full lower bytes, single-bit and dense words; masks for n=0..64; bit_len, reverse_low, rounding "
                           "helpers on boundary grids; each on debug/release x native(BMI2)/generic(portable select + lookup tables) builds; "
                           "distinct = distinct (function, arguments)")


def stage_temp_trace(chk, bins, variant, seeds, progdef, modelled):
    """Stress traces of temp_file_name (and serialize::test).  Full validation follows the extracted program primitive by primitive;
    if that stops at a primitive the code's protocol is not the modelled one (MODEL-DRIFT, not a violation) and the property itself -
    Unique and the name part over every path - is validated on the same trace."""
    for k in range(seeds):
        seed = chk.seed + k
        tpath = os.path.join(chk.work, "temp_%s_%d.ndjson" % (variant, seed))
        out = chk.run_harness(bins[variant], ["record", "temp", "--seed", str(seed), "--tier", chk.tier, "--out", tpath], "record temp trace seed %d on %s" % (seed, variant))
        if out is None:
            continue
        modes = ([("program", progdef)] if modelled else []) + [("names", "ProgDef == << >>")]
        for mode, pdef in modes:
            ok, info, res = vlib.validate_trace(chk.work, "T_temp_%s_%d_%s" % (variant.replace("-", "_"), k, mode), "TraceTemp", tpath, defs=pdef, cfg_extra=" Program <- ProgDef\n")
            chk.add_tlc(res, "validate temp trace seed %d on %s (%s)" % (seed, variant, "every primitive against the extracted program, then the paths" if mode == "program" else "Unique and name part over every returned path"),
                        {"events": out["stats"].get("events"), "accepted": ok})
            if ok:
                chk.cov["traces_validated_against_impl"] += 1
                chk.cov["evaluations"] += out["stats"].get("queries", 0)
                if len(chk.cov["samples"]) < 8:
                    chk.cov["samples"].append({"stage": "trace temp", "event": out["stats"].get("sample")})
                break
            line = info.get("unmatched_line")
            ev = vlib.trace_line(tpath, line) if line else None
            if mode == "program" and ev and ev.get("e") == "atomic":
                vlib.log("MODEL-DRIFT property=C20: primitive %s at event %s is not a step of the extracted program (not a violation); validating the paths only" % (ev, line))
                chk.cov.setdefault("model_drift", []).append({"stage": "temp trace %s" % variant, "event": ev})
                continue
            keep = os.path.join(vlib.OUT_BASE, "replays", chk.pid)
            os.makedirs(keep, exist_ok=True)
            kept = os.path.join(keep, "temp_%s_seed%d.ndjson" % (variant, seed))
            names_seen = 0
            with open(tpath) as f, open(kept, "w") as g:
                for i, l in enumerate(f, 1):
                    if line and i > line:
                        break
                    if '"e":"name"' in l or i == 1:      # the paths are what matters; the primitives are dropped from the kept trace
                        g.write(l)
                        names_seen += 1
            chk.violation("trace temp rejected by TraceTemp", {"kind": "trace", "scenario": "temp", "seed": seed, "variant": variant, "line": line, "event": ev,
                                                               "info": info, "trace": kept, "tlc_tail": res.out[-800:]})
            break


def stage_schedules(chk, bins, nthreads, steps, mixed=False):
    """TLC enumerates every order in which nthreads concurrent calls can take up to `steps` steps each (mech/Sched); each is
    enforced on the real code through the counter gates; TraceSched validates what the calls returned."""
    name = "Sched_%d_%d" % (nthreads, steps)
    path, res = vlib.generate_cases(chk.work, name, "Sched", "CONSTANTS\n NThreads = %d\n Steps = %d\nINIT Init\nNEXT Next\nINVARIANT Emit\nCHECK_DEADLOCK FALSE\n" % (nthreads, steps), timeout=1800)
    chk.add_tlc(res, "mech/Sched: every order of steps of %d concurrent calls with <= %d steps each (threads interchangeable)" % (nthreads, steps), {"behaviours": len(res.replay_lines)})
    tpath = os.path.join(chk.work, name + ".trace.ndjson")
    st = "replay of every schedule (%d threads x %d steps%s) through the counter gates on the real code" % (
        nthreads, steps, "; thread 1: serialize::test(remove) then temp_file_name, the others: two calls" if mixed else "")
    if mixed:
        tpath = os.path.join(chk.work, name + ".mixed.trace.ndjson")
    try:
        out = vlib.harness(bins["dbg-native"], ["schedules", "--cases", path, "--out", tpath, "--mixed", "1" if mixed else "0"], timeout=1800)
    except vlib.HarnessCrash as e:
        chk.violation(st, {"kind": "crash", "signal": e.signal})
        return
    ok, info, res2 = vlib.validate_trace(chk.work, "T_" + name + ("_mixed" if mixed else ""), "TraceSched", tpath)
    chk.add_tlc(res2, "TraceSched: the paths returned under each of the %d schedules are pairwise different and carry the name part" % len(res.replay_lines),
                {"events": out["stats"].get("events"), "accepted": ok})
    if ok:
        chk.cov["traces_validated_against_impl"] += len(res.replay_lines)
        chk.cov["evaluations"] += len(res.replay_lines) * nthreads
        if len(chk.cov["samples"]) < 8:
            chk.cov["samples"].append({"stage": st, "event": out["stats"].get("sample")})
    else:
        line = info.get("unmatched_line")
        ev = vlib.trace_line(tpath, line) if line else None
        # uniqueness across the run is decided at the last event: locate the first repeated path for the report
        seen = {}
        with open(tpath) as f:
            for i, l in enumerate(f, 1):
                e = json.loads(l)
                dup = [n for n in e.get("names", []) if n in seen] or [n for n in e.get("names", []) if e["names"].count(n) > 1]
                if dup:
                    ev, line = dict(e, repeated=dup[0], first_returned_at_event=seen.get(dup[0], i)), i
                    break
                for n in e.get("names", []):
                    seen[n] = i
        chk.violation(st, {"kind": "schedule", "threads": nthreads, "schedule": ",".join(str(x) for x in (ev or {}).get("s", [])), "names": (ev or {}).get("names"),
                           "completed": (ev or {}).get("completed"), "repeated": (ev or {}).get("repeated"), "line": line, "info": info})


def stage_temp_adv(chk, bins, variant):
    """A fresh process: adversarial requests (splits of early names into part and counter value) and name parts that are different
    texts for the same path; only the property itself - Unique and the name part over every returned path - is validated."""
    tpath = os.path.join(chk.work, "tempadv_%s.ndjson" % variant)
    out = chk.run_harness(bins[variant], ["record", "tempadv", "--seed", str(chk.seed), "--tier", chk.tier, "--out", tpath], "record adversarial temp names on %s" % variant)
    if out is None:
        return
    ok, info, res = vlib.validate_trace(chk.work, "T_tempadv_%s" % variant.replace("-", "_"), "TraceTemp", tpath, defs="ProgDef == << >>", cfg_extra=" Program <- ProgDef\n")
    chk.add_tlc(res, "validate adversarial temp names on %s (Unique and name part over every returned path)" % variant, {"events": out["stats"].get("events"), "accepted": ok})
    if ok:
        chk.cov["traces_validated_against_impl"] += 1
        chk.cov["evaluations"] += out["stats"].get("queries", 0)
        return
    line = info.get("unmatched_line")
    keep = os.path.join(vlib.OUT_BASE, "replays", chk.pid)
    os.makedirs(keep, exist_ok=True)
    kept = os.path.join(keep, "tempadv_%s.ndjson" % variant)
    with open(tpath) as f, open(kept, "w") as g:
        for i, l in enumerate(f, 1):
            if line and i > line:
                break
            g.write(l)
    chk.violation("trace tempadv rejected by TraceTemp", {"kind": "trace", "scenario": "tempadv", "variant": variant, "line": line, "event": vlib.trace_line(tpath, line) if line else None,
                                                          "info": info, "trace": kept, "tlc_tail": res.out[-800:]})


def check_C20(chk):
    import re
    bins = vlib.build_harness(["dbg-native", "rel-native"])
    chk.scratch_tmpdir()
    cal = vlib.harness(bins["dbg-native"], ["calibrate"])
    prog = cal.get("program", [])
    chk.cov["program_extracted_from_code"] = prog
    modelled = bool(prog) and all(p in ("fetch_add", "load", "store", "cas") for p in prog)
    attempts = int(cal.get("max_attempts", 0))
    chk.cov["cas_attempts_before_giving_up"] = attempts
    progdef = "ProgDef == <<%s>>" % ", ".join('"%s"' % p for p in prog)
    if not modelled:
        vlib.log("MODEL-DRIFT property=C20: the counter program extracted from the code (%s) is outside mech/TempName's instruction set; "
                 "the schedule replay and the recorded paths decide" % prog)
        chk.cov.setdefault("model_drift", []).append({"stage": "calibrate", "program": prog})
    # 1. design level: the extracted program under every interleaving (mech/TempName); a counterexample is replayed on the real code
    configs = [("{1, 2, 3}", 2), ("{1, 2}", 3), ("{1, 2, 3, 4}", 2)] + ([("{1, 2, 3, 4}", 3), ("{1, 2, 3, 4, 5}", 2)] if chk.thorough else [])
    for threads, calls in (configs if modelled else []):
        nthreads = threads.count(",") + 1
        res = vlib.run_tlc(chk.work, "MC_TempName_%d_%d" % (nthreads, calls), "TempName",
                           "CONSTANTS\n Threads = %s\n Calls = %d\n MaxAttempts = %d\n Program <- ProgDef\nSPECIFICATION Spec\nVIEW View\nINVARIANT Unique\nCHECK_DEADLOCK FALSE\n" % (threads, calls, attempts),
                           defs=progdef, workers=16, timeout=1800)
        chk.add_tlc(res, "MC TempName: all interleavings of %d threads x %d calls of the extracted program %s" % (nthreads, calls, prog))
        if res.violation:
            m = re.findall(r"sched = <<([0-9, ]*)>>", res.out)
            sched = m[-1].replace(" ", "") if m else ""
            try:
                out = chk.run_harness(bins["dbg-native"], ["gated", "--schedule", sched, "--threads", str(nthreads), "--calls", str(calls)], "replay of the TLC schedule on the real code", timeout=120)
            except ToolError as e:
                if "timed out" not in str(e):
                    raise
                # the gates stop a thread before each primitive of the traced counter; a thread that blocks somewhere else (a lock the code
                # takes) never arrives at its gate and the schedule cannot be enforced: the model does not describe this code
                vlib.log("MODEL-DRIFT property=C20: the schedule %s could not be enforced through the counter gates (a thread blocks outside the traced counter); "
                         "the stress traces and the adversarial requests decide" % sched)
                chk.cov.setdefault("model_drift", []).append({"stage": "gated replay timed out", "schedule": sched})
                chk._gates_unusable = True
                out = None
            if out is not None and out.get("distinct", 0) < out.get("total", 0):
                chk.violation("TLC schedule replayed through the counter gates on the real code",
                              {"kind": "schedule", "program": prog, "schedule": sched, "names": out.get("names")})
            elif out is not None:
                # the straight-line program extracted without contention does not describe what the code does under contention
                vlib.log("MODEL-DRIFT property=C20: mech/TempName has a duplicating schedule for program %s but the real code returned distinct names "
                         "under it (not a violation); the schedule replay decides" % prog)
                chk.cov.setdefault("model_drift", []).append({"stage": "MC TempName counterexample not reproduced", "program": prog, "schedule": sched})
            break
        elif res.error:
            raise ToolError("MC TempName: %s" % res.error)
    # 1b. unbounded: for the program <<fetch_add>> the inductive invariant of mech/TempNameProof is checked by the TLA+ proof system -
    # any set of threads, any number of calls.  (A failed or unavailable proof run is a failure of the machinery, never a verdict;
    # for any other extracted program the bounded exploration above and the schedule replay below decide alone.)
    if prog == ["fetch_add"]:
        import shutil, subprocess, time
        pdir = os.path.join(chk.work, "tlaps")
        os.makedirs(pdir, exist_ok=True)
        shutil.copy(os.path.join(vlib.TLA_DIR, "mech", "TempNameProof.tla"), pdir)
        t0 = time.time()
        try:
            pr = subprocess.run(["tlapm", "--threads", "8", "--cleanfp", "TempNameProof.tla"], cwd=pdir, stdout=subprocess.PIPE, stderr=subprocess.STDOUT, text=True, timeout=900)
        except (subprocess.TimeoutExpired, FileNotFoundError) as e:
            raise ToolError("tlapm did not finish: %s" % e)
        m = re.search(r"All (\d+) obligations? proved", pr.stdout)
        if not m:
            raise ToolError("tlapm could not prove mech/TempNameProof:\n%s" % pr.stdout[-2000:])
        chk.cov["stages"].append({"stage": "TLAPS: Spec => []Unique for the extracted program <<fetch_add>>, any set of threads, any number of calls "
                                           "(inductive invariant Inv of mech/TempNameProof)", "obligations_proved": int(m.group(1)), "wall_s": round(time.time() - t0, 2)})
        chk.cov["unbounded_proof"] = {"module": "tla/mech/TempNameProof.tla", "obligations_proved": int(m.group(1)), "tool": "tlapm"}
    else:
        chk.cov["unbounded_proof"] = {"note": "mech/TempNameProof covers the program <<fetch_add>> only; extracted: %s" % prog}
    # 2. the real code under every schedule of a few concurrent calls (no model of the program needed)
    if not chk.violations and not getattr(chk, "_gates_unusable", False):
        # can the gates enforce a schedule at all?  (two threads, alternating; a code that blocks outside the traced counter cannot be gated)
        try:
            vlib.harness(bins["dbg-native"], ["gated", "--schedule", "1,2,1,2,1,2,1,2", "--threads", "2", "--calls", "1"], timeout=60)
        except ToolError as e:
            if "timed out" not in str(e):
                raise
            vlib.log("MODEL-DRIFT property=C20: schedules cannot be enforced through the counter gates (a thread blocks outside the traced counter); "
                     "the stress traces and the adversarial requests decide")
            chk.cov.setdefault("model_drift", []).append({"stage": "gate probe timed out"})
            chk._gates_unusable = True
    if not chk.violations and not getattr(chk, "_gates_unusable", False):
        for nthreads, steps, mixed in [(2, 5, False), (3, 3, False), (3, 4, False), (2, 6, True), (3, 3, True)] + ([(3, 5, False), (4, 3, False), (3, 4, True)] if chk.thorough else []):
            stage_schedules(chk, bins, nthreads, steps, mixed)
            if chk.violations:
                break
    # 3. stress runs, validated primitive by primitive
    if not chk.violations:
        for v in ("dbg-native", "rel-native"):
            stage_temp_trace(chk, bins, v, 2 if chk.thorough else 1, progdef, modelled)
        stage_temp_adv(chk, bins, "dbg-native")
    return chk.finish(rule="schedules = (a) all interleavings of the atomic primitives of the counter program extracted from the code, for small thread/call "
                           "counts (TLC on mech/TempName, exhaustive); (b) every order of steps of 2-4 concurrent calls generated by mech/Sched and enforced "
                           "on the real code through the counter gates; (c) recorded stress runs (8 x 500 / 16 x 2000 calls, the counter moved to 2^16, "
                           "2^32, 2^48, serialize::test interleaved) whose primitives are validated in their linearization order; distinct = distinct names",
                      extra={"exhaustive": True})


def check_C08(chk):
    variants = ["rel-native", "rel-generic"] + (["dbg-native"] if chk.thorough else [])
    bins = vlib.build_harness(variants)
    chk.scratch_tmpdir()
    stage_mech_oneiter(chk)
    nbits = 8 if chk.thorough else 7
    p1, p2, p3 = gen_bv_sets(chk, nbits, FAMILY_QUICK)
    hist = gen_iter_histories(chk, nbits + 1)
    wmc, rw = vlib.generate_cases(chk.work, "GenWM_mem", "GenWM", cfg_consts({"Alpha": "{0, 1, 2, 3}", "MaxLen": 4 if chk.thorough else 3}) + " ExtraVals <- ExtraDef\n" + GEN_TAIL,
                                  defs="ExtraDef == {-1, 100}")
    chk.add_tlc(rw, "GenWM with values up to u64::MAX", {"behaviours": len(rw.replay_lines)})
    vecs = []
    for kind, widths in (("int", "{1, 7, 33, 64}"), ("raw", "{}")):
        pv, rv = vlib.generate_cases(chk.work, "GenVec_mem_" + kind, "GenVec", cfg_consts({"Kind": '"%s"' % kind, "Widths": widths, "Depth": 2, "MaxItems": 3}) + GEN_TAIL)
        chk.add_tlc(rv, "GenVec %s histories depth 2" % kind, {"behaviours": len(rv.replay_lines)})
        vecs.append(pv)
    mp, rm = gen_map_streams(chk, 2)
    fp, rf = gen_streams(chk, 1)
    msp, rms = vlib.generate_cases(chk.work, "GenMS_mem", "GenMS", cfg_consts({"MaxU": 4, "MaxVals": 4}) + GEN_TAIL)
    chk.add_tlc(rms, "GenMS multisets (universe <= 4, <= 4 values)", {"behaviours": len(rms.replay_lines)})
    for v in variants:
        replay_stage(chk, bins, v, ["replay", "--kind", "ms", "--cases", msp, "--histories", hist],
                     "bounds: multiset sparse vectors: queries, iterators, conversion to a plain bitvector, %s" % v, hooks=True, oob_only=True)
        for p, label in ((p1, "bits"), (p2, "family"), (p3, "spread")):
            replay_stage(chk, bins, v, ["replay", "--kind", "bv", "--types", "plain,sparse,rl", "--cases", p],
                         "bounds: every query x extreme arguments on GenBV %s, %s" % (label, v), hooks=True, oob_only=True)
        for p, label in ((p1, "bits"), (p2, "family")):
            replay_stage(chk, bins, v, ["replay", "--kind", "support", "--cases", p],
                         "bounds: the support-structure layer (RankSupport, SelectSupport<Identity|Complement>, Transformation::bit/word) with arguments "
                         "inside and outside the domain and with shorter parents, GenBV %s, %s" % (label, v), hooks=True, oob_only=True)
        replay_stage(chk, bins, v, ["replay", "--kind", "iter", "--cases", hist, "--contents", p1, "--wmcontents", wmc],
                     "bounds: iterator transition cover (incl. nth(huge)) on all iterator types, %s" % v, hooks=True, oob_only=True)
        replay_stage(chk, bins, v, ["replay", "--kind", "iter", "--cases", hist, "--contents", p3], "bounds: iterator cover on multi-word contents, %s" % v, hooks=True, oob_only=True)
        replay_stage(chk, bins, v, ["replay", "--kind", "wm", "--cases", wmc], "bounds: wavelet matrix and core mappings, %s" % v, hooks=True, oob_only=True)
        for pv in vecs:
            replay_stage(chk, bins, v, ["replay", "--kind", "vec", "--cases", pv, "--abuse", "1"],
                         "bounds: vector histories, then writes outside the vector through the safe API and use as a bitvector, %s" % v, hooks=True, oob_only=True)
        replay_stage(chk, bins, v, ["replay", "--kind", "mapped", "--cases", mp], "bounds: mapped views carved at record starts, outside offsets and on truncated files, %s" % v, hooks=True, oob_only=True)
        replay_stage(chk, bins, v, ["replay", "--kind", "faults", "--cases", fp], "bounds: structures loaded from bytes the library wrote, every truncation, %s" % v, hooks=True, oob_only=True)
        one = os.path.join(chk.work, "bigload.cases.ndjson")
        with open(one, "w") as f:
            f.write('{"k": "bigload"}\n')
        replay_stage(chk, bins, v, ["replay", "--kind", "bigload", "--cases", one], "bounds: loads of library-written vectors with more than 2^20 items, %s" % v, hooks=True, oob_only=True)
    # large recorded instances on the optimized build: a crash (signal) of the recorder is a violation
    for scen in ("plain", "iter"):
        tpath = os.path.join(chk.work, "mem_%s.ndjson" % scen)
        st = "bounds: recorder %s on rel-native (2^17..2^19-bit vectors, long superblocks, word scans)" % scen
        out = chk.run_harness(bins["rel-native"], ["record", scen, "--seed", str(chk.seed), "--tier", chk.tier, "--out", tpath], st)
        if out:
            chk.cov["stages"].append({"stage": st, "events": out["stats"].get("events"), "queries": out["stats"].get("queries")})
            chk.cov["evaluations"] += out["stats"].get("queries", 0)
            n_oob = 0
            with open(tpath) as f:
                for line in f:
                    if "-8" in line and "VERIF" in line:
                        n_oob += 1
            chk.cov["traces_validated_against_impl"] += 1
    if chk.cov.get("bounds_events", 0) == 0:
        raise ToolError("vacuous: no bounds event was recorded (hooks not compiled in?)")
    return chk.finish(level="exploration",
                      rule="cases = safe API calls (queries with extreme arguments, iterator call histories, vector histories, mapped views, loads of "
                           "truncated bytes) generated from the TLA+ specification, executed on optimized builds with and without BMI2 with bounds "
                           "hooks at every unchecked index / raw-slice site; a case is non-trivial when it performs at least one hooked access; "
                           "verdict = no index at or past its buffer's length, no carve past the mapping, no death by signal",
                      extra={"explanation": "TLA+ cannot observe memory: the specification supplies the call histories and arguments; the bounds monitor is the guarded hook"})
