#!/usr/bin/env python3
"""Runs the registered quick checks against every seeded change under /verif/seeded, each in its own
scratch worktree (never in /repo), and writes /verif/seeded/RESULTS.json.

usage: seeded_matrix.py [--only C01-1,C02-1] [--checks own|all]"""
import json
import os
import shutil
import subprocess
import sys

VERIF = os.path.dirname(os.path.dirname(os.path.abspath(__file__)))
BASE = "/tmp/vm"


def sh(cmd, cwd=None, env=None, timeout=3600):
    p = subprocess.run(cmd, shell=True, cwd=cwd, env=env, stdout=subprocess.PIPE, stderr=subprocess.STDOUT, text=True, timeout=timeout)
    return p.returncode, p.stdout


def main():
    only = None
    for i, a in enumerate(sys.argv):
        if a == "--only":
            only = set(sys.argv[i + 1].split(","))
    results = {}
    rpath = os.path.join(VERIF, "seeded", "RESULTS.json")
    if os.path.exists(rpath):
        results = json.load(open(rpath))
    names = sorted(d for d in os.listdir(os.path.join(VERIF, "seeded")) if os.path.isdir(os.path.join(VERIF, "seeded", d)))
    for name in names:
        if only and name not in only:
            continue
        pid = name.split("-")[0]
        meta = json.load(open(os.path.join(VERIF, "seeded", name, "meta.json")))
        extra = sorted({r["cmd"].split()[1] for r in meta.get("ran", [])} | {pid})
        wt = os.path.join(BASE, name)
        scratch = os.path.join(BASE, name + "-out")
        shutil.rmtree(scratch, ignore_errors=True)
        sh("git -C /repo worktree remove --force %s" % wt)
        rc, o = sh("git -C /repo worktree add --detach %s HEAD" % wt)
        rc, o = sh("git apply %s" % os.path.join(VERIF, "seeded", name, "patch.diff"), cwd=wt)
        if rc != 0:
            results[name] = {"error": "patch does not apply: " + o[-300:]}
            continue
        env = dict(os.environ)
        env["VERIF_REPO"] = wt
        env["VERIF_SCRATCH"] = scratch
        res = {}
        for c in extra:
            rc, o = sh("./check %s --tier quick" % c, cwd=VERIF, env=env)
            viol = [l for l in o.splitlines() if l.startswith("VIOLATION")]
            res[c] = {"exit": rc, "violation_lines": len(viol)}
            print(name, c, rc, len(viol), flush=True)
        results[name] = {"property": pid, "checks": res, "detected_by": sorted(c for c, r in res.items() if r["exit"] == 1)}
        sh("git -C /repo worktree remove --force %s" % wt)
        shutil.rmtree(scratch, ignore_errors=True)
        with open(rpath, "w") as f:
            json.dump(results, f, indent=1, sort_keys=True)
            f.write("\n")
    sh("git -C /repo worktree prune")
    return 0


if __name__ == "__main__":
    sys.exit(main())
