#!/usr/bin/env python3
"""Runs the registered quick checks against every seeded change under /verif/seeded, each in a scratch
worktree (never in /repo), and writes /verif/seeded/RESULTS.json.

usage: seeded_matrix.py [--only C01-1,C02-1] [--jobs N] [--rounds 5,6]

Every job owns one worktree (/tmp/vm/wt<j>), one build directory and one scratch output directory, reused
from one change to the next so that only the library and the harness are rebuilt."""
import json
import os
import shutil
import subprocess
import sys
import threading

VERIF = os.path.dirname(os.path.dirname(os.path.abspath(__file__)))
BASE = "/tmp/vm"
LOCK = threading.Lock()


def sh(cmd, cwd=None, env=None, timeout=3600):
    p = subprocess.run(cmd, shell=True, cwd=cwd, env=env, stdout=subprocess.PIPE, stderr=subprocess.STDOUT, text=True, timeout=timeout)
    return p.returncode, p.stdout


def run_one(job, name, results, rpath):
    pid = name.split("-")[0]
    meta = json.load(open(os.path.join(VERIF, "seeded", name, "meta.json")))
    extra = sorted({r["cmd"].split()[1] for r in meta.get("ran", [])} | {pid})
    wt = os.path.join(BASE, "wt%d" % job)
    scratch = os.path.join(BASE, "out%d" % job)
    shutil.rmtree(scratch, ignore_errors=True)
    sh("git checkout -- . && git clean -fdq", cwd=wt)
    rc, o = sh("git apply %s" % os.path.join(VERIF, "seeded", name, "patch.diff"), cwd=wt)
    if rc != 0:
        with LOCK:
            results[name] = {"error": "patch does not apply: " + o[-300:]}
        return
    env = dict(os.environ)
    env["VERIF_REPO"] = wt
    env["VERIF_SCRATCH"] = scratch
    env["VERIF_TARGET"] = os.path.join(BASE, "target%d" % job)
    res = {}
    for c in extra:
        rc, o = sh("./check %s --tier quick" % c, cwd=VERIF, env=env)
        viol = [l for l in o.splitlines() if l.startswith("VIOLATION")]
        res[c] = {"exit": rc, "violation_lines": len(viol)}
        print(name, c, rc, len(viol), flush=True)
    sh("git checkout -- . && git clean -fdq", cwd=wt)
    shutil.rmtree(scratch, ignore_errors=True)
    with LOCK:
        results[name] = {"property": pid, "checks": res, "detected_by": sorted(c for c, r in res.items() if r["exit"] == 1)}
        with open(rpath, "w") as f:
            json.dump(results, f, indent=1, sort_keys=True)
            f.write("\n")


def main():
    only, jobs, rounds = None, 1, None
    for i, a in enumerate(sys.argv):
        if a == "--only":
            only = set(sys.argv[i + 1].split(","))
        if a == "--jobs":
            jobs = int(sys.argv[i + 1])
        if a == "--rounds":
            rounds = set(sys.argv[i + 1].split(","))
    results = {}
    rpath = os.path.join(VERIF, "seeded", "RESULTS.json")
    if os.path.exists(rpath):
        results = json.load(open(rpath))
    names = sorted(d for d in os.listdir(os.path.join(VERIF, "seeded")) if os.path.isdir(os.path.join(VERIF, "seeded", d)))
    names = [n for n in names if (not only or n in only) and (not rounds or n.split("-")[1] in rounds)]
    # changes that a later repair of the library made harmless (their demonstration passes with the patch applied) are not part of the matrix
    names = [n for n in names if "neutralised_by" not in json.load(open(os.path.join(VERIF, "seeded", n, "meta.json")))]
    os.makedirs(BASE, exist_ok=True)
    for j in range(jobs):
        wt = os.path.join(BASE, "wt%d" % j)
        sh("git -C /repo worktree remove --force %s" % wt)
        sh("git -C /repo worktree add --detach %s HEAD" % wt)
    queue = list(names)

    def worker(j):
        while True:
            with LOCK:
                if not queue:
                    return
                name = queue.pop(0)
            try:
                run_one(j, name, results, rpath)
            except Exception as e:      # a failure of the machinery for one change must not stop the matrix
                with LOCK:
                    results[name] = {"error": str(e)[:300]}

    threads = [threading.Thread(target=worker, args=(j,)) for j in range(jobs)]
    for t in threads:
        t.start()
    for t in threads:
        t.join()
    for j in range(jobs):
        sh("git -C /repo worktree remove --force %s" % os.path.join(BASE, "wt%d" % j))
        shutil.rmtree(os.path.join(BASE, "target%d" % j), ignore_errors=True)
    sh("git -C /repo worktree prune")
    undetected = [n for n in names if not results.get(n, {}).get("detected_by")]
    print("changes: %d   undetected: %s" % (len(names), undetected))


if __name__ == "__main__":
    main()
