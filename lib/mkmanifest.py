#!/usr/bin/env python3
"""Regenerates /verif/MANIFEST.json from the table below (one entry per claimed property)."""
import json
import os
import subprocess

VERIF = os.path.dirname(os.path.dirname(os.path.abspath(__file__)))

TRUST = ("TLC 1.8 and the CommunityModules Json/IOUtils modules; the Rust harness's projection of real objects into the "
         "abstract JSON form (the same code in both conformance directions); bounded scopes as listed in the evidence; "
         "rustc/cargo; hooks compiled in with --cfg simple_sds_verif.")

CLAIMS = {
    "C01": dict(
        technique="TLA+ reference semantics (BVRef) cross-checked by TLC; TLC-generated cases replayed on the real BitVector by 6 construction routes; regime-directed real traces validated by TLC against the spec",
        text="Bounded model checking of the Layer A bitvector semantics (two independent definitions agree on every bit sequence up to N bits) plus two-way conformance of the real plain bitvector: every answer (get/rank/rank_zero/select/select_zero/select_iter/predecessor/successor, len/count) for every argument incl. huge ones on all contents <= 10 bits (11 thorough) and a word/block/superblock boundary family, by every public construction route; and traces of 2^17..2^21-bit vectors built to hit long and short select superblocks, partial last blocks and dense/sparse/clustered layouts, validated event by event by TLC. The run fails as vacuous if no validated select query landed inside a long superblock for ones and for zeros.",
        design_ref="DESIGN.md section 6, C01"),
    "C02": dict(
        technique="TLA+ reference semantics; TLC-generated cases replayed on the real SparseVector by 5 routes; real traces over a sweep of Elias-Fano low-part widths validated by TLC",
        text="Bounded model checking of the Layer A semantics plus two-way conformance of the real Elias-Fano vector: every answer for every argument (incl. huge) on all (n, positions) with n <= 10 (11 thorough) and the boundary family, built by builder/try_set/extend/conversions; and recorded traces for universes up to 2^31 chosen so that the parameter rule picks each low-part width 1..22 (observed widths are read back from the serialized object and the run is vacuous below a minimum count), with positions on bucket boundaries and at both ends of the universe, select_zero stress layouts with more than 16 runs, empty and full vectors; every event validated by TLC. Universes of 2^31 and above are covered by the U64 trace specification when listed in the evidence stages.",
        design_ref="DESIGN.md section 6, C02"),
    "C03": dict(
        technique="TLA+ reference semantics incl. maximal-run iterator; TLC-generated run lists from code-unit value classes replayed on the real RLVector by 6 builder decompositions; multi-block real traces validated by TLC",
        text="Bounded model checking of the Layer A semantics plus two-way conformance of the real run-length vector: all contents <= 10 bits, the boundary family (up to 65 blocks), and run lists whose gaps/lengths are drawn from the code-unit boundary classes {1,2,7,8,9,63,64,65,511,512} (<= 2-3 runs, with/without a run at 0 and trailing zeros), each built by per-run calls, bit at a time, split runs that must merge, set_len before every run, and conversions; every query for every argument and the run iterator with offset/rank/rank_zero after each item; recorded traces with 1..500 blocks (the sample index changes shape at 8), values needing up to 10 code units, early-closed blocks, lengths up to 2^31, validated by TLC.",
        design_ref="DESIGN.md section 6, C03"),
    "C04": dict(
        technique="TLA+ reference semantics of an indexed vector and of the reversed-bit stable sort (VecRef) self-checked by TLC; TLC-generated vectors replayed on WaveletMatrix/WMCore built from all five item types; real traces validated by TLC",
        text="Bounded model checking of the Layer A indexed-vector semantics (map_up inverts map_down, the reordering is the stable sort by reversed bits, select inverts rank, on all vectors over {0,1,2,3,5} up to length 4-5) plus two-way conformance of the real wavelet matrix and core: all vectors over {0..3} (length <= 5, 6 thorough), {0..7} (<= 3, 4), {0,1} (<= 7, 9) and sparse alphabets around 2^k for k in {1,4,7,8,15,16}, built from u8/u16/u32/u64/usize; len, width, get, iter, inverse_select, contains, rank, select, select_iter, value_iter, predecessor, successor, map_down, map_down_with, map_down_with_two_positions, map_up_with for every index/rank 0..len+1 and huge arguments and every value incl. 2^width and 2^width+1; recorded skewed/uniform/missing-value vectors of width 1..16 validated by TLC.",
        design_ref="DESIGN.md section 6, C04"),
    "C05": dict(
        technique="TLA+ state machine of raw/integer vectors (SDSVec.Step); TLC explores call histories exhaustively and by random walk and the harness replays them on the real vectors; random real histories validated by TLC; history independence checked against a canonically built real vector after every call",
        text="Model-based conformance over operation histories: TLC enumerates all call histories of depth 2 (3 thorough) over real widths {1,7,31,32,33,63,64} with boundary values (all ones, top bit of the field, wider than the item) and random walks of depth 30-40 through the Layer A machine; the harness executes each on the real IntVector/RawVector and after EVERY call compares the result, the projected content, and - against a second real vector built canonically from the specification's state - ==, byte-identical serialization and count_ones. In the other direction random histories at widths 1..64 with arbitrary 64-bit values are validated by TLC step by step (result, state, history independence).",
        design_ref="DESIGN.md section 6, C05"),
    "C09": dict(
        technique="Layer A operators defined on the extended argument domain (huge tokens); TLC-generated cases with extreme arguments replayed on debug AND optimized builds of all structures, iterators and constructors; real traces from the optimized build validated by TLC",
        text="The specification defines an answer for every argument class incl. 'huge' (greater than any length). TLC-generated cases (all contents <= 6-8 bits, boundary family up to 4097 bits, multi-word contents; all wavelet-matrix vectors over {0..3}; the transition cover of the iterator machine with nth/nth_back(huge); constructor cases over small values and usize::MAX - d) are replayed with every huge token instantiated as 2^32, 2^62+12345, 2^63, 2^63+1, MAX-1, MAX and 2len+7 on the three bitvector types, all iterator types, WaveletMatrix/WMCore (values up to u64::MAX) and the constructors, on a debug build (overflow checks) and an optimized build (wrapping arithmetic): both must return the defined value, a panic is a disagreement; the three bitvector types agree because each equals the specification. Traces recorded from the optimized build carry the same tokens in every query batch and are validated by TLC.",
        design_ref="DESIGN.md section 6, C09"),
    "C10": dict(
        technique="TLA+ window machine for iterators (SDSIter) with Partition invariant model-checked; its complete transition cover generated by TLC and replayed on every iterator type x content x start point; random call sequences on iterators of large real objects validated by TLC",
        text="Every iterator is specified as a window [lo,hi) over a reference sequence with next/next_back/nth/nth_back/len/clone as deque operations; TLC model-checks Partition (no index twice, none skipped) and prints, for every item count 0..10 and capability class, every transition of the window graph reached by a shortest history (the VIEW hides the history), followed by a drain. The harness replays all of them on iter/one_iter/zero_iter/run_iter/select_iter/select_zero_iter/predecessor/successor of plain, sparse and run-length vectors for all contents <= 9 bits (10 thorough) and for contents spread over three words (word-crossing scans), and on IntVector/WaveletMatrix iter/into_iter/value_iter/select_iter/predecessor/successor for all vectors over {0,1,2}; exact length after every call, fused after exhaustion. Random call sequences (incl. clone and nth(huge)) on iterators of 2^17..2^19-bit vectors positioned by select_iter/predecessor/successor are validated by TLC, which computes each expected item from the abstract content.",
        design_ref="DESIGN.md section 6, C10"),
    "C16": dict(
        technique="TLA+ state machines of SparseBuilder and RLBuilder (SDSBuilder.BStep) with invariant BuilderOK model-checked; complete transition cover (valid and invalid calls from every reachable state) replayed on the real builders; long random histories validated by TLC",
        text="Both builders are specified as state machines whose refused calls leave the state unchanged. TLC explores every reachable builder state for universes <= 5 (6), capacities <= 3 (4), multiset or not, and run-length builders up to length 9 (14), and prints every call from every state - try_set/set/extend with every index 0..universe+1 and a huge one, set_len/try_set with positions around the current length and zero-length runs - reached by a shortest history and followed by a completion and the conversion. The harness compares the result (ok / error / documented panic), every observable (len, capacity, universe, next_index, is_full, is_multiset, is_empty, count_ones, count_zeros) after every call, whether the conversion succeeds, and the converted vector's set bits and maximal runs. Overflow / out-of-order refusals near usize::MAX come from GenCtor. Random histories of 100-700 calls with 20% invalid calls on universes up to 2^30 are validated by TLC.",
        design_ref="DESIGN.md section 6, C16"),
    "C11": dict(
        technique="TLA+ object machine (SDSConv: type, content, supports) - all conversion chains generated by TLC and paired with every generated content; the real result is compared with the structure built directly by the target type's own builder (==, bytes); large random chains validated by TLC",
        text="TLC enumerates every conversion chain of length <= 3 over {plain, sparse, run-length} from every initial type (From and copy_bit_vec, same-type copies included); the harness pairs each chain with every content <= 7 bits (8 thorough) and a word/block boundary family, builds the initial object by rotating builder decompositions (raw / push / iterator; builder / try_set / extend; per run / bit at a time / split runs / set_len steps), and after every conversion compares length, count, set positions, equality with and byte-identical serialization to the directly built structure of the target type. Random chains on 2^17..2^19-bit contents are recorded and validated by TLC.",
        design_ref="DESIGN.md section 6, C11"),
    "C15": dict(
        technique="TLA+ multiset reference semantics (MSRef); all small multisets generated by TLC and replayed by set/try_set/extend/try_from_iter; two-ended iterator cover over duplicates; large real multisets validated by TLC",
        text="Every universe <= 5 (6) x every value sequence of <= 5 (6) values: non-decreasing ones (overfull included) are built by SparseBuilder::multiset + set, try_set, extend and try_from_iter (universe = last + 1) and every present-value answer (count_ones, saturating count_zeros, is_multiset, get, rank, select, select_iter, predecessor = last occurrence, successor = first occurrence) is compared for every argument incl. huge ones; one_iter and the bit iterator are compared forwards and backwards and under the complete transition cover of the iterator machine; sequences that are not non-decreasing must be refused. Recorded multisets with 50-5000 values, long duplicate runs at bucket boundaries, duplicates at 0 and universe-1, more values than the universe, validated by TLC.",
        design_ref="DESIGN.md section 6, C15"),
    "C06": dict(
        technique="TLA+ stream machine (SDSStream/MC_Stream: Tiling, loads succeed iff the record is present) model-checked; TLC-generated streams of typed values with format-determined sizes replayed on the real Serialize implementations; recorded streams of large values validated by TLC",
        text="TLC model-checks the abstract record stream (write / cut / load interleavings) and generates every stream of <= 2 values (<= 3 over the mappable pool in thorough) from a 73-value pool covering every Serialize type - integers, pairs, vectors of them, byte vectors of lengths 0..17, multi-byte UTF-8 strings, nested and absent options, raw/int vectors, plain bitvectors with all 8 support subsets, sparse, run-length, wavelet matrix and core, with the empty instance of each - together with the size the format determines. The harness writes each stream back to back (in memory and through files), and checks bytes written = 8*size_in_elements = size_in_bytes = the determined size, bytes consumed by each load, equality, identical answers of the loaded copy, nothing left; plus the size_by_params grid. Recorded streams of 2-6 large random values are validated by TLC.",
        design_ref="DESIGN.md section 6, C06"),
    "C07": dict(
        technique="Independent codec written in TLA+ from SERIALIZATION.md (tla/Format.tla): encoder/decoder round trip model-checked; direction 2: TLC-encoded files loaded by the library; direction 1: library-written bytes decoded and checked by TLC",
        text="tla/Format.tla is a second implementation of the format written from the document alone. MC_Format checks on every small-scope content and writer-side choice that the encoder's file is well-formed for the decoder, decodes to the same content and is consumed exactly. Direction 2: those files (raw, int, bitvector without supports, sparse with every low width 1..3 / 1,3,6,9, run-length incl. multi-block, early-closed blocks and wider sample widths, wavelet core and matrix without supports) are loaded by the library and must expose the content, equal the library-built structure and answer all queries. Direction 1: bytes the library writes for small-scope and random contents of every documented type are validated by TLC: little-endian elements, zero padding of byte vectors, zero unused bits, widths, exactly ceil(n/2^w) buckets with one set bit per integer and the item formula, whole runs per 64-unit block, padding only before a block boundary, a (set bits, bits) sample per block, minimal sample and `first` widths, absent values = len; skip_option positions.",
        design_ref="DESIGN.md section 6, C07"),
    "C12": dict(
        technique="TLA+ writer machine (SDSWriter) - all push histories per buffer size generated by TLC and replayed on the real writers, file compared with the in-memory vector's serialization; random long push sequences validated by TLC",
        text="The specification's writer state has no buffer: buffer size must be unobservable. TLC generates, for the raw writer, every history of 3 pushes over bit pushes and 0/1/31/33/63/64-bit integer pushes for buffer sizes {0,64,65,128} (thorough also 1,63,100) bits - a 64-bit buffer becomes exactly full, over-full by k bits and straddled by an item within 3 pushes - and for the integer writer every push count up to 70 (140) for widths {1,7,33,64} (all of 1,7,31,32,33,63,64) and buffer sizes {0,1,3,9,10,64} items incl. extend; each ended by close, close twice, or drop. The harness checks len() and is_open() after every call, the close results, and that the file is byte-identical to serializing the in-memory vector that received the same pushes. Random sequences of up to 5000 pushes at random widths and buffer sizes are validated by TLC.",
        design_ref="DESIGN.md section 6, C12"),
    "C13": dict(
        technique="TLA+ stream machine with view rules (SDSStream: ViewResult, offsets from format-determined sizes) model-checked; TLC-generated files of mappable structures; the harness creates every view at every record start, outside offsets and on every truncation",
        text="TLC generates every file of <= 2 (3) structures from the 38 mappable pool values (vectors of u64 and pairs, byte vectors, strings, options of each incl. absent ones, raw and integer vectors, empty structures at the end of the file) with the record offsets the format determines. For each file the harness maps it and creates the matching view (MappedSlice, MappedBytes, MappedStr, MappedOption, RawVectorMapper, IntVectorMapper) at every record start: content equal to the value, map_offset, map_len = the determined size, so offset + length = next offset; at offsets len, len+1, 2len+3, 2^63, MAX-1, MAX every view type must be refused; for every truncation of the file to whole elements a view is accepted iff its record lies entirely inside.",
        design_ref="DESIGN.md section 6, C13"),
    "C14": dict(
        category="fault_enumeration",
        technique="Fault rules of the TLA+ stream machine (LoadResult / SerializeResult / ViewResult, model-checked in MC_Stream); exhaustive enumeration of fault points on the real code; writer outcomes under a file-size limit validated by TLC (NoSilentLoss)",
        text="For each of the 73 pool values every byte prefix 0..size-1 of its serialization is given to load (and to skip_option for optionals) and every write budget 0..size-1 to serialize: each must return an error - neither a structure nor a panic. For every file of <= 2 mappable structures every truncation to whole elements is mapped and a view of a cut record must be refused. Buffered writers run under RLIMIT_FSIZE = every limit 0..final size in steps of 8 bytes (SIGXFSZ ignored): TLC validates for each run that the outcome is either a reported failure (constructor error, documented push panic, close error) or complete success with the complete file, and that no failure occurs when the limit is not reached.",
        design_ref="DESIGN.md section 6, C14"),
    "C18": dict(
        technique="TLA+ model of the mapped address space (SDSMap: NewResult, NoLeak); recorded map / drop cycles with /proc/self/maps readings validated by TLC",
        text="The harness creates memory maps of files of sizes 0, 8, 16, sub-page, exact pages, pages+8, 64 KiB, 1 MiB+8 (thorough: up to 4 MiB), sizes that are not multiples of 8, and a missing file, in both modes, with one or two live maps per cycle and 1-5 cycles, writing through mutable maps. Every event logs the outcome of MemoryMap::new, len(), whether the slice equals the file, and the bytes of the address space backed by that file as read from /proc/self/maps. TLC validates each event against the specification: the defined outcome (error for missing / non-multiple-of-8 / empty files), a valid slice equal to the file, mapped bytes = the page-rounded sizes of the live maps after every new and drop (nothing left after the last drop), and the written value present in the file afterwards.",
        design_ref="DESIGN.md section 6, C18"),
    "C19": dict(
        technique="TLA+ object machine (SDSConv) - all histories of enable_* / serialize+load calls generated by TLC and paired with every content; files without support structures from the document-derived encoder; skip_option positions validated by TLC",
        text="TLC enumerates every history of depth 4 over enable_rank / enable_select / enable_select_zero / enable_pred_succ / serialize+load from a plain bitvector without supports (every subset reached in every order); for every content <= 6 bits (7) and a boundary family the harness checks after each call the reported subset, the bits, every enabled answer at every argument, equality and byte-identity with the directly built vector with the same subset, and finally that enabling the rest equals the fully enabled original. Sparse vectors, wavelet cores and wavelet matrices are loaded from files produced by tla/Format.tla in which the embedded bitvectors carry no support structures and must answer every query; skip_option over each optional support structure must land on the positions the document-derived decoder computes; absent_option writes one zero element.",
        design_ref="DESIGN.md section 6, C19"),
    "C08": dict(
        category="exploration",
        technique="Call histories and arguments generated from the TLA+ specification (GenBV, GenIter transition cover, GenWM, GenVec, GenStream) executed on optimized builds with guarded bounds hooks at every unchecked index / raw-slice site; the invariant 'index < length' is evaluated on every hooked access; death by signal is a violation",
        text="TLA+ does not observe memory, so this check is an exploration whose inputs come from the specification and whose monitor is the hook: every get_unchecked / from_raw_parts site named by the property (mask tables, portable select tables, RawVector / RawVectorMapper::word_unchecked, RankSupport::rank_unchecked, Vec<V>::load, MappedSlice/Bytes/Str::new) reports (site, index, length) before the access and, when the index is out of range, panics with a marker instead of performing it. The generated cases - every query with extreme arguments on all contents <= 7 bits, the boundary and multi-word families on all three bitvector types, the complete iterator transition cover incl. nth(huge), wavelet-matrix queries with values up to u64::MAX, vector histories, mapped views at and outside record starts and on truncated files, loads of every truncation of library-written bytes - run on release builds (overflow checks off) with and without BMI2; recorders on 2^17..2^19-bit vectors run on the release build and a signal death is a violation. About 1.9e8 hooked accesses per quick run; the run is vacuous (exit 2) if none was recorded.",
        design_ref="DESIGN.md section 6, C08",
        note="Only hooked sites are observed; undefined behaviour that is not an out-of-range index (aliasing, alignment) is invisible. Hooks compiled in with --cfg simple_sds_verif; rustc/cargo; the TLA+ generators."),
    "C17": dict(
        technique="TLA+ word algebra (mech/Words): implementation-shaped write_int/read_int (both branches, exact masks) and byte-wise select proved to refine the mathematical definitions by exhaustive TLC at W=4/W=8; at W=64 TLC-generated cases replayed on four build variants; random calls validated by TLC",
        text="mech/Words.tla transcribes the case analysis of write_int / read_int (split_offset, one-word branch, two-word branch, the exact mask expressions) and of the portable select (cumulative byte popcounts, first byte exceeding the rank, in-byte select) over words of W bits; TLC checks exhaustively at W=4 (2- or 3-word arrays: every background, offset, width, value) and W=8 (every word and rank) that they refine the reference definitions, that a write followed by a read returns the value truncated to the width and that no other bit changes. At W=64 the reference definitions generate: offsets x widths 1..64 x 5 values x 3 backgrounds (19 offsets quick, all 192 thorough), every byte value in every lane alone and above full lower bytes plus single-bit / dense words for select with every rank, masks for n=0..64 (checked and unchecked), bit_len around every power of two, reverse_low for every width, the rounding helpers; replayed on debug and release builds with target-cpu=native (BMI2 PDEP path) and generic (portable select and its lookup tables). Random read/write/select calls are validated by TLC.",
        design_ref="DESIGN.md section 6, C17"),
    "C20": dict(
        technique="TLA+ model of the counter protocol (mech/TempName) instantiated with the primitive program extracted from the real code through the traced counter; all interleavings model-checked; counterexample schedules replayed on the real code through gates; stress traces validated by TLC in linearization order",
        text="The traced AtomicUsize (hook) logs which primitives one temp_file_name call performs; that program (currently <<fetch_add>>) is the constant of mech/TempName.tla, and TLC explores every interleaving of 3 threads x 2 calls and 2 x 3 (thorough also 4 x 2 and 3 x 3) checking Unique. If the program admits a duplicating schedule (e.g. <<load, store>>), TLC's schedule is replayed on the real code by gating each primitive, and the violation is reported only if two real calls return the same path. Stress runs of 8 x 500 (16 x 2000) calls on debug and release builds log every primitive under the lock that performs it; TLC validates that each is the next step of its thread's program on the model counter, that every returned path carries the value its call obtained, the caller's name part (parts containing '_' and digits) and the pid, and Unique in every state.",
        design_ref="DESIGN.md section 6, C20"),
}

NOT_YET = {}

def main():
    props = [json.loads(l) for l in open(os.path.join(VERIF, "properties.jsonl"))]
    commits = subprocess.run(["git", "-C", "/repo", "log", "--format=%H %s"], stdout=subprocess.PIPE, text=True).stdout.splitlines()
    hook_commits = [c.split()[0] for c in commits if " verif hooks:" in c]
    checks = []
    na = []
    for p in props:
        pid = p["id"]
        if pid in CLAIMS:
            c = CLAIMS[pid]
            checks.append({
                "property_id": pid,
                "quick_cmd": "./check %s --tier quick" % pid,
                "thorough_cmd": "./check %s --tier thorough" % pid,
                "evidence_file": "/verif/evidence/%s.json" % pid,
                "replay_cmd_template": "./check %s --replay {path}" % pid,
                "engine": "tla-conformance",
                "level_claimed": {"category": c.get("category", "model_checking"), "text": c["text"], "design_ref": c["design_ref"]},
                "level_note": c.get("note", TRUST),
                "technique": c["technique"],
            })
        else:
            na.append({"property_id": pid, "reason": NOT_YET.get(pid, "check not built yet in this revision (planned: see DESIGN.md section 6); nothing is claimed for it")})
    manifest = {
        "version": 1,
        "setup_cmd": "./setup.sh",
        "hooks": {
            "guard": "simple_sds_verif",
            "enable": "RUSTFLAGS='--cfg simple_sds_verif --check-cfg cfg(simple_sds_verif)' set by lib/vlib.py when it builds /verif/harness (path dependency on /repo)",
            "baseline_off_cmd": "cd /repo && cargo test --workspace --no-fail-fast --offline",
            "source_commits": hook_commits,
            "add_only": True,
        },
        "engines": [{
            "name": "tla-conformance",
            "path": "/verif/check",
            "serves_properties": sorted(CLAIMS.keys()),
            "kind_free_text": "TLA+ specification (tla/*.tla) checked by TLC; TLC-generated behaviours replayed on the real code by harness/ (Rust); traces recorded from the real code validated by TLC trace specifications",
        }],
        "checks": checks,
        "notes": "See DESIGN.md. Exit 2 from a check means the machinery failed (build, TLC error, timeout, vacuous regime coverage) and is never a verdict.",
        "not_applicable": na,
    }
    with open(os.path.join(VERIF, "MANIFEST.json"), "w") as f:
        json.dump(manifest, f, indent=1)
        f.write("\n")

if __name__ == "__main__":
    main()
