"""Shared machinery for the checks: building the harness, running TLC, generating behaviours,
validating traces, verdicts and evidence.  Python 3 standard library only."""

import json
import os
import re
import shutil
import subprocess
import sys
import time

VERIF = os.path.dirname(os.path.dirname(os.path.abspath(__file__)))
# The checks verify /repo.  For the development of the checks only (running them against a seeded change in a
# scratch worktree without touching /repo), VERIF_REPO names another checkout and VERIF_SCRATCH a directory
# that receives the work files, evidence and replays of that run.
REPO = os.environ.get("VERIF_REPO", "/repo")
OUT_BASE = os.environ.get("VERIF_SCRATCH", VERIF)
TARGET_BASE = os.environ.get("VERIF_TARGET")      # optional: a build directory shared by successive scratch runs
TLA_DIR = os.path.join(VERIF, "tla")
HARNESS = os.path.join(VERIF, "harness")
JAR = "/opt/veriftools/tla/tla2tools.jar:/opt/veriftools/tla/CommunityModules-deps.jar"
GUARD_FLAGS = "--cfg simple_sds_verif --check-cfg cfg(simple_sds_verif)"

VARIANTS = {
    "dbg-native": (False, GUARD_FLAGS + " -C target-cpu=native"),
    "rel-native": (True, GUARD_FLAGS + " -C target-cpu=native"),
    "dbg-generic": (False, GUARD_FLAGS),
    "rel-generic": (True, GUARD_FLAGS),
}


class ToolError(Exception):
    """The machinery failed (build, TLC error, timeout, vacuity): exit 2, never a VIOLATION."""


class HarnessCrash(Exception):
    """The harness process (running the code under test) died by a signal."""
    def __init__(self, signal, args, progress):
        Exception.__init__(self, "harness died by signal %d" % signal)
        self.signal = signal
        self.cmd = args
        self.progress = progress


def log(msg):
    print(msg, flush=True)


# ---------------------------------------------------------------------------
# Build

def build_harness(variants):
    """Builds the harness (and /repo's current working tree with hooks on) for each variant.
    Returns {variant: path of binary}."""
    procs = {}
    for v in variants:
        release, flags = VARIANTS[v]
        env = dict(os.environ)
        env["RUSTFLAGS"] = flags
        env["CARGO_NET_OFFLINE"] = "true"
        tdir = os.path.join(TARGET_BASE, v) if TARGET_BASE else os.path.join(HARNESS, "target", v) if REPO == "/repo" else os.path.join(OUT_BASE, "target", v)
        cmd = ["cargo", "build", "--offline", "--quiet", "--target-dir", tdir]
        if REPO != "/repo":
            cmd += ["--config", 'paths=["%s"]' % REPO]
        if release:
            cmd.append("--release")
        procs[v] = subprocess.Popen(cmd, cwd=HARNESS, env=env, stdout=subprocess.PIPE, stderr=subprocess.STDOUT, text=True)
    out = {}
    for v, p in procs.items():
        text, _ = p.communicate()
        if p.returncode != 0:
            raise ToolError("harness build failed for %s:\n%s" % (v, text[-4000:]))
        release, _ = VARIANTS[v]
        tdir = os.path.join(TARGET_BASE, v) if TARGET_BASE else os.path.join(HARNESS, "target", v) if REPO == "/repo" else os.path.join(OUT_BASE, "target", v)
        out[v] = os.path.join(tdir, "release" if release else "debug", "sds-verif-harness")
    return out


# ---------------------------------------------------------------------------
# TLC

class TlcResult:
    def __init__(self):
        self.exit = None
        self.out = ""
        self.generated = 0
        self.distinct = 0
        self.depth = 0
        self.violation = False
        self.error = None
        self.replay_lines = []
        self.wall = 0.0
        self.coverage = {}


def _write_model(workdir, name, extends, cfg, defs=""):
    os.makedirs(workdir, exist_ok=True)
    with open(os.path.join(workdir, name + ".tla"), "w") as f:
        f.write("---- MODULE %s ----\nEXTENDS %s\n%s\n====\n" % (name, extends, defs))
    with open(os.path.join(workdir, name + ".cfg"), "w") as f:
        f.write(cfg)


def run_tlc(workdir, name, extends, cfg, defs="", workers=8, timeout=600, env_extra=None, deque=False,
            heap="6g", simulate=None, coverage=False, collect_replay=False, seed=None):
    """Runs TLC on a generated wrapper module `name` that EXTENDS `extends` (a module in /verif/tla)."""
    _write_model(workdir, name, extends, cfg, defs)
    meta = os.path.join(workdir, "states_" + name)
    shutil.rmtree(meta, ignore_errors=True)
    java = ["java", "-XX:+UseParallelGC", "-Xss1g", "-Xmx" + heap,
            "-DTLA-Library=%s:%s" % (TLA_DIR, os.path.join(TLA_DIR, "mech"))]
    if deque:
        java.append("-Dtlc2.tool.queue.IStateQueue=StateDeque")
    cmd = java + ["-cp", JAR, "tlc2.TLC", "-workers", str(workers), "-metadir", meta, "-cleanup",
                  "-noGenerateSpecTE", "-nowarning"]
    if coverage:
        cmd += ["-coverage", "1"]
    if simulate:
        cmd += ["-simulate", simulate, "-depth", "1000", "-seed", str(seed if seed is not None else 1)]
    cmd += ["-config", name + ".cfg", name + ".tla"]
    env = dict(os.environ)
    env.pop("JAVA_TOOL_OPTIONS", None)
    if env_extra:
        env.update(env_extra)
    res = TlcResult()
    t0 = time.time()
    try:
        p = subprocess.run(cmd, cwd=workdir, env=env, stdout=subprocess.PIPE, stderr=subprocess.STDOUT, text=True, timeout=timeout)
    except subprocess.TimeoutExpired as e:
        shutil.rmtree(meta, ignore_errors=True)
        raise ToolError("TLC timed out after %ss on %s" % (timeout, name))
    res.wall = time.time() - t0
    shutil.rmtree(meta, ignore_errors=True)
    res.exit = p.returncode
    res.out = p.stdout
    keep = []
    for line in p.stdout.splitlines():
        if line.startswith('<<"REPLAY", "') and line.endswith('">>'):
            if collect_replay:
                inner = line[len('<<"REPLAY", "'):-len('">>')]
                res.replay_lines.append(json.loads('"' + inner + '"'))
            continue
        keep.append(line)
        m = re.match(r"^(\d+) states generated, (\d+) distinct states found", line)
        if m:
            res.generated = int(m.group(1))
            res.distinct = int(m.group(2))
        m = re.match(r"^The number of states generated: (\d+)", line)
        if m:
            res.generated = int(m.group(1))
            res.distinct = max(res.distinct, len(res.replay_lines))
        m = re.match(r"^The depth of the complete state graph search is (\d+)", line)
        if m:
            res.depth = int(m.group(1))
        m = re.match(r"^<(\w+) line .* of module (\w+)[^>]*>: (\d+):(\d+)", line)
        if m:
            res.coverage[m.group(1)] = (int(m.group(3)), int(m.group(4)))
    res.out = "\n".join(l for l in keep if not re.match(r"^(Parsing|Semantic|Linting) ", l))
    if re.search(r"Error: Invariant .* is violated|Error: Action property .* is violated|is violated by the initial state|Temporal properties were violated", res.out):
        res.violation = True
    elif p.returncode != 0 or "Error:" in res.out:
        res.error = res.out[-3000:]
    return res


def tlc_must_pass(res, what):
    """A model-checking run of the specification itself must succeed; anything else is a tool error
    (a design-level counterexample is converted into a replay by the caller when it can be)."""
    if res.violation:
        raise ToolError("%s: TLC reports a violation in the model:\n%s" % (what, res.out[-3000:]))
    if res.error:
        raise ToolError("%s: TLC error:\n%s" % (what, res.error))


def generate_cases(workdir, name, extends, cfg, defs="", timeout=600, workers=1, simulate=None, heap="6g", seed=None):
    """Runs a generator model and writes the printed behaviours to <workdir>/<name>.cases.ndjson."""
    res = run_tlc(workdir, name, extends, cfg, defs=defs, workers=workers, timeout=timeout, collect_replay=True,
                  simulate=simulate, heap=heap, seed=seed)
    tlc_must_pass(res, "generator " + name)
    path = os.path.join(workdir, name + ".cases.ndjson")
    with open(path, "w") as f:
        for line in res.replay_lines:
            f.write(line + "\n")
    if not res.replay_lines:
        raise ToolError("generator %s produced no behaviours:\n%s" % (name, res.out[-2000:]))
    return path, res


def validate_trace(workdir, name, extends, trace_path, invariants=(), timeout=900, defs="", heap="4g", consts=None, cfg_extra=""):
    """Validates a recorded trace against a trace specification.  Returns (accepted, info, TlcResult)."""
    cfg = "SPECIFICATION TraceSpec\nPOSTCONDITION TraceAccepted\nCHECK_DEADLOCK FALSE\n"
    if consts:
        cfg += "CONSTANTS\n" + "".join(" %s = %s\n" % (k, v) for k, v in consts.items())
    if cfg_extra:
        cfg += ("" if consts else "CONSTANTS\n") + cfg_extra
    for inv in invariants:
        cfg += "INVARIANT %s\n" % inv
    res = run_tlc(workdir, name, extends, cfg, defs=defs, workers=1, timeout=timeout, deque=True, heap=heap,
                  env_extra={"TRACE": trace_path})
    info = {"states": res.distinct, "transitions": res.generated, "wall_s": round(res.wall, 2)}
    if res.violation and "Invariant" in res.out:
        info["invariant_violated"] = True
        m = re.search(r"Error: Invariant (\w+) is violated", res.out)
        if m:
            info["invariant"] = m.group(1)
        m = re.findall(r"/\\ l = (\d+)", res.out)
        if m:
            info["unmatched_line"] = max(1, int(m[-1]) - 1)
        return False, info, res
    m = re.search(r'"UNMATCHED",\s*(\d+)', res.out)
    if m:
        info["unmatched_line"] = int(m.group(1))
        return False, info, res
    if res.error:
        raise ToolError("trace validation %s: TLC error:\n%s" % (name, res.error))
    return True, info, res


# ---------------------------------------------------------------------------
# Harness

def harness(binary, args, timeout=900, env_extra=None, cwd=None):
    env = dict(os.environ)
    if env_extra:
        env.update(env_extra)
    try:
        p = subprocess.run([binary] + args, stdout=subprocess.PIPE, stderr=subprocess.PIPE, text=True, timeout=timeout, env=env, cwd=cwd)
    except subprocess.TimeoutExpired:
        raise ToolError("harness timed out: %s" % " ".join(args))
    if p.returncode < 0 and -p.returncode in (9, 15, 2, 1, 13):
        # SIGKILL / SIGTERM / SIGINT / SIGHUP / SIGPIPE come from outside the process (out-of-memory killer, an operator):
        # the run says nothing about the property
        raise ToolError("harness was killed from outside (signal %d; out of memory?): %s" % (-p.returncode, " ".join(args)))
    if p.returncode < 0:
        progress = None
        if "--progress" in args:
            try:
                progress = open(args[args.index("--progress") + 1]).read().strip()
            except Exception:
                pass
        raise HarnessCrash(-p.returncode, args, progress)
    if p.returncode != 0:
        raise ToolError("harness failed (%d): %s\n%s" % (p.returncode, " ".join(args), (p.stderr or p.stdout)[-3000:]))
    last = p.stdout.strip().splitlines()[-1] if p.stdout.strip() else "{}"
    try:
        return json.loads(last)
    except Exception:
        raise ToolError("harness output is not JSON: %s" % last[:500])


# ---------------------------------------------------------------------------
# Verdicts and evidence

class Check:
    def __init__(self, pid, tier, seed):
        self.pid = pid
        self.tier = tier
        self.seed = seed
        self.t0 = time.time()
        self.work = os.path.join(OUT_BASE, ".work", pid)
        shutil.rmtree(self.work, ignore_errors=True)
        os.makedirs(self.work, exist_ok=True)
        self.cov = {"states": 0, "transitions": 0, "traces_validated_against_impl": 0, "evaluations": 0,
                    "distinct_nontrivial": 0, "samples": [], "stages": [], "exhaustive": False}
        self.violations = []   # (description dict)
        self.known = []
        self.assumptions = []
        self.findings = load_known_findings()

    @property
    def thorough(self):
        return self.tier == "thorough"

    def add_tlc(self, res, stage, extra=None):
        self.cov["states"] += res.distinct
        self.cov["transitions"] += res.generated
        st = {"stage": stage, "tlc_states": res.distinct, "tlc_transitions": res.generated, "wall_s": round(res.wall, 2)}
        if extra:
            st.update(extra)
        self.cov["stages"].append(st)

    def add_replay(self, result, stage, behaviours=None):
        self.cov["evaluations"] += result.get("evaluations", 0)
        self.cov["distinct_nontrivial"] += result.get("distinct_nontrivial", 0)
        n = behaviours if behaviours is not None else result.get("cases", 0)
        bad = len(result.get("mismatches", []))
        if bad == 0:
            self.cov["traces_validated_against_impl"] += n
        for s in result.get("samples", [])[:2]:
            if len(self.cov["samples"]) < 8:
                self.cov["samples"].append({"stage": stage, "case": s})
        self.cov["stages"].append({"stage": stage, "behaviours_replayed": n, "comparisons": result.get("evaluations", 0),
                                   "mismatches": bad, "notes": result.get("notes", [])[:5]})
        for m in result.get("mismatches", []):
            self.violation(stage, m)

    def scratch_tmpdir(self):
        """Directory for the temporary files the library itself creates (temp_file_name uses TMPDIR):
        a memory-backed directory when there is one, else the work directory.  Removed by finish()."""
        d = None
        if os.path.isdir("/dev/shm") and os.access("/dev/shm", os.W_OK):
            d = "/dev/shm/verif-%s-%d" % (self.pid, os.getpid())
        else:
            d = os.path.join(self.work, "tmp")
        os.makedirs(d, exist_ok=True)
        os.environ["TMPDIR"] = d
        self._tmpdir = d
        return d

    def run_harness(self, binary, args, stage, timeout=900):
        """Runs the harness; a death by signal (abort, segfault) of the code under test is a violation."""
        prog = os.path.join(self.work, "progress.txt")
        a = list(args)
        if args and args[0] == "replay" and "--progress" not in a:
            a += ["--progress", prog]
        try:
            return harness(binary, a, timeout=timeout)
        except HarnessCrash as e:
            self.violation(stage, {"kind": "crash", "signal": e.signal, "cmd": " ".join(e.cmd), "case_index_about": e.progress,
                                   "what": "the process running the library died by a signal during this stage"})
            return None

    def violation(self, stage, detail):
        """Registers a disagreement; known findings are matched by their `match` sub-dictionary."""
        for kf in self.findings.get("findings", []):
            if kf.get("property") == self.pid and all(detail.get(k) == v for k, v in kf.get("match", {}).items()):
                self.known.append(kf)
                return
        self.violations.append({"stage": stage, "detail": detail})

    def finish(self, level="model_checking", rule=None, extra=None):
        wall = time.time() - self.t0
        if getattr(self, "_tmpdir", None):
            shutil.rmtree(self._tmpdir, ignore_errors=True)
        for kf in {json.dumps(k, sort_keys=True) for k in self.known}:
            k = json.loads(kf)
            log("KNOWN-FINDING: property=%s %s" % (self.pid, k.get("what", "")))
        if rule:
            self.cov["rule"] = rule
        if extra:
            self.cov.update(extra)
        if not self.cov["samples"]:
            self.cov["samples"] = [{"note": "no sample collected"}]
        ev = {"property_id": self.pid, "tier": self.tier, "seed": self.seed, "level": level,
              "coverage": self.cov, "assumptions": self.assumptions, "wall_s": round(wall, 2),
              "violations": len(self.violations)}
        os.makedirs(os.path.join(OUT_BASE, "evidence"), exist_ok=True)
        with open(os.path.join(OUT_BASE, "evidence", self.pid + ".json"), "w") as f:
            json.dump(ev, f, indent=1, sort_keys=True)
            f.write("\n")
        if self.violations:
            rdir = os.path.join(OUT_BASE, "replays", self.pid)
            os.makedirs(rdir, exist_ok=True)
            for i, v in enumerate(self.violations[:5]):
                path = os.path.join(rdir, "violation_%s_%d.json" % (self.tier, i))
                with open(path, "w") as f:
                    json.dump(v, f, indent=1, sort_keys=True)
                    f.write("\n")
                log("VIOLATION property=%s replay=%s" % (self.pid, path))
                log("  " + json.dumps(v)[:600])
            return 1
        log("OK property=%s tier=%s wall=%.1fs states=%d transitions=%d conformance=%d comparisons=%d" % (
            self.pid, self.tier, wall, self.cov["states"], self.cov["transitions"],
            self.cov["traces_validated_against_impl"], self.cov["evaluations"]))
        return 0


def load_known_findings():
    path = os.path.join(VERIF, "known_findings.json")
    if os.path.exists(path):
        with open(path) as f:
            return json.load(f)
    return {"findings": [], "fixed": []}


def trace_line(path, n):
    """Returns line n (1-based) of an ndjson trace, parsed."""
    with open(path) as f:
        for i, line in enumerate(f, 1):
            if i == n:
                try:
                    return json.loads(line)
                except Exception:
                    return {"raw": line[:300]}
    return None
