#!/usr/bin/env python3
"""Prints the cost table of DESIGN.md section 10.5 from the evidence files of the last runs."""
import json
import os

VERIF = os.path.dirname(os.path.dirname(os.path.abspath(__file__)))


def short(n):
    if n >= 10 ** 6:
        return "%.1f M" % (n / 1e6)
    if n >= 10 ** 4:
        return "%d k" % (n // 1000)
    if n >= 1000:
        return "%.1f k" % (n / 1000.0)
    return str(n)


print("| id | tier | wall | TLC states | conformance items | comparisons | stages |")
print("|---|---|---|---|---|---|---|")
for i in range(1, 21):
    pid = "C%02d" % i
    p = os.path.join(VERIF, "evidence", pid + ".json")
    if not os.path.exists(p):
        continue
    e = json.load(open(p))
    c = e["coverage"]
    print("| %s | %s | %d s | %s | %s | %s | %d |" % (pid, e["tier"], round(e["wall_s"]), short(c.get("states", 0)), short(c.get("traces_validated_against_impl", 0)),
                                                 short(c.get("evaluations", 0)), len(c.get("stages", []))))
