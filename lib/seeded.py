#!/usr/bin/env python3
"""Confirms a seeded change produced by a sub-agent and runs the registered checks against it.

usage: seeded.py <property id> <worktree> <k> [--checks C01,C05] [--tier quick]

1. In the scratch worktree: the demo passes on the clean tree; with the patch the full existing suite
   still passes and the demo fails.
2. The patch is applied to /repo, the listed checks are run, and /repo is restored.
3. Everything is stored under /verif/seeded/<id>-<k>/ (patch.diff, demo.rs, notes.md, meta.json)."""
import json
import os
import shutil
import subprocess
import sys

VERIF = os.path.dirname(os.path.dirname(os.path.abspath(__file__)))


def sh(cmd, cwd=None, timeout=3000):
    p = subprocess.run(cmd, shell=True, cwd=cwd, stdout=subprocess.PIPE, stderr=subprocess.STDOUT, text=True, timeout=timeout)
    return p.returncode, p.stdout


def main():
    pid, wt, k = sys.argv[1], sys.argv[2], sys.argv[3]
    checks = [pid]
    tier = "quick"
    label = k
    demo_env = ""
    for i, a in enumerate(sys.argv):
        if a == "--checks":
            checks = sys.argv[i + 1].split(",")
        if a == "--tier":
            tier = sys.argv[i + 1]
        if a == "--as":
            label = sys.argv[i + 1]
        if a == "--demo-rustflags":      # the demonstration needs a particular build (e.g. no BMI2); the suite runs with the default flags
            demo_env = "RUSTFLAGS='%s' " % sys.argv[i + 1]
    out = os.path.join(wt, "OUT")
    patch = os.path.join(out, "mutant%s.diff" % k)
    demo = os.path.join(out, "demo%s.rs" % k)
    notes = os.path.join(out, "notes%s.md" % k)
    meta = {"property": pid, "mutant": label, "ran": []}
    if demo_env:
        meta["demo_env"] = demo_env.strip()
    sh("git checkout -- . && git clean -fdq -e OUT", cwd=wt)
    os.makedirs(os.path.join(wt, "tests"), exist_ok=True)
    shutil.copy(demo, os.path.join(wt, "tests", "demo.rs"))
    rc, o = sh("bash -c \"" + demo_env + "cargo test --offline --test demo 2>&1 | tail -15; echo EXIT=\\${PIPESTATUS[0]}\"", cwd=wt)  # a pipe, not a file: demos may lower RLIMIT_FSIZE
    clean_pass = "EXIT=0" in o
    meta["demo_passes_on_clean_tree"] = clean_pass
    os.remove(os.path.join(wt, "tests", "demo.rs"))
    rc, o = sh("git apply %s" % patch, cwd=wt)
    meta["patch_applies"] = rc == 0
    rc, o = sh("cargo test --offline 2>&1 | grep -E '^test result|FAILED|panicked|error' | head", cwd=wt)
    suite_ok = ("FAILED" not in o and "error" not in o and o.count("test result: ok") >= 2)
    meta["suite_passes_with_patch"] = suite_ok
    meta["suite_summary"] = o.strip().splitlines()[:4]
    shutil.copy(demo, os.path.join(wt, "tests", "demo.rs"))
    rc, o = sh("bash -c \"" + demo_env + "cargo test --offline --test demo 2>&1 | tail -25; echo EXIT=\\${PIPESTATUS[0]}\"", cwd=wt)
    meta["demo_fails_with_patch"] = "EXIT=0" not in o
    meta["demo_output_tail"] = o.strip().splitlines()[-8:]
    sh("git checkout -- . && git clean -fdq -e OUT", cwd=wt)
    ok = clean_pass and meta["patch_applies"] and suite_ok and meta["demo_fails_with_patch"]
    meta["confirmed"] = ok
    scratch_mode = "--scratch" in sys.argv
    if scratch_mode:
        # run the checks against the scratch worktree itself (VERIF_REPO), never touching /repo: safe alongside other runs
        sh("git apply %s" % patch, cwd=wt)
        env = "VERIF_REPO=%s VERIF_SCRATCH=%s VERIF_TARGET=%s " % (wt, wt + "-out", wt + "-target")
        try:
            for c in checks:
                rc, o = sh(env + "./check %s --tier %s" % (c, tier), cwd=VERIF)
                viol = [l for l in o.splitlines() if l.startswith("VIOLATION")]
                meta["ran"].append({"cmd": "./check %s --tier %s" % (c, tier), "exit": rc, "violation_lines": len(viol),
                                    "first": (o.splitlines()[-1][:600] if o.strip() else "")})
                print("%s-%s: check %s -> exit %d (%d VIOLATION lines)" % (pid, label, c, rc, len(viol)))
        finally:
            sh("git checkout -- . && git clean -fdq -e OUT", cwd=wt)
            shutil.rmtree(wt + "-out", ignore_errors=True)
    else:
        # run the checks against /repo with the patch applied
        rc, o = sh("git -C /repo status --porcelain")
        if o.strip():
            print("refusing: /repo is not clean")
            return 2
        rc, o = sh("git -C /repo apply %s" % patch)
        try:
            for c in checks:
                # evidence, replays and work files of runs against a seeded change go to a scratch directory
                rc, o = sh("VERIF_SCRATCH=/tmp/seeded-scratch ./check %s --tier %s" % (c, tier), cwd=VERIF)
                viol = [l for l in o.splitlines() if l.startswith("VIOLATION")]
                meta["ran"].append({"cmd": "./check %s --tier %s" % (c, tier), "exit": rc, "violation_lines": len(viol),
                                    "first": (o.splitlines()[-1][:600] if o.strip() else "")})
                print("%s-%s: check %s -> exit %d (%d VIOLATION lines)" % (pid, label, c, rc, len(viol)))
        finally:
            sh("git -C /repo checkout -- .")
            shutil.rmtree("/tmp/seeded-scratch", ignore_errors=True)
    meta["detected_by"] = [r["cmd"] for r in meta["ran"] if r["exit"] == 1]
    dest = os.path.join(VERIF, "seeded", "%s-%s" % (pid, label))
    os.makedirs(dest, exist_ok=True)
    shutil.copy(patch, os.path.join(dest, "patch.diff"))
    shutil.copy(demo, os.path.join(dest, "demo.rs"))
    if os.path.exists(notes):
        shutil.copy(notes, os.path.join(dest, "notes.md"))
        meta["needs_to_manifest"] = open(notes).read()[:1500]
    with open(os.path.join(dest, "meta.json"), "w") as f:
        json.dump(meta, f, indent=1)
        f.write("\n")
    print(json.dumps({k2: meta[k2] for k2 in ("confirmed", "demo_passes_on_clean_tree", "suite_passes_with_patch", "demo_fails_with_patch", "detected_by")}))
    return 0


if __name__ == "__main__":
    sys.exit(main())
