#!/bin/sh
# Builds the framework offline from files on disk: the harness in its build variants and a syntax check of every TLA+ module.
set -e
cd "$(dirname "$0")"
export CARGO_NET_OFFLINE=true
python3 - <<'PY'
import sys, os
sys.path.insert(0, "lib")
import vlib
bins = vlib.build_harness(list(vlib.VARIANTS.keys()))
for k, v in bins.items():
    print("built", k, v)
PY
for f in tla/*.tla tla/mech/*.tla; do
  [ -f "$f" ] || continue
  d=$(dirname "$f")
  (cd "$d" && java -cp /opt/veriftools/tla/tla2tools.jar:/opt/veriftools/tla/CommunityModules-deps.jar -DTLA-Library=/verif/tla:/verif/tla/mech:/opt/veriftools/tlapm/lib/tlapm/stdlib tla2sany.SANY "$(basename "$f")" > /tmp/sany.$$ 2>&1) || { cat /tmp/sany.$$; rm -f /tmp/sany.$$; echo "SANY failed on $f"; exit 1; }
  if grep -q -E "^\*\*\* Errors|Fatal errors|Could not find module" /tmp/sany.$$; then cat /tmp/sany.$$; rm -f /tmp/sany.$$; echo "SANY failed on $f"; exit 1; fi
  rm -f /tmp/sany.$$
done
echo "setup ok"
