------------------------------- MODULE SDSMap -------------------------------
(***************************************************************************)
(* Layer A: memory maps.  Creating a map of a file either fails with an    *)
(* error - missing file, size not a multiple of 8, or the OS refuses the   *)
(* mapping, which it may for length 0 - or yields a map whose element      *)
(* slice is valid, has size/8 elements and equals the file's content.      *)
(* While a map is alive its pages are mapped; after it is dropped NOTHING  *)
(* of that mapping remains mapped (NoLeak).  Changes made through a        *)
(* mutable map are in the file afterwards.                                 *)
(*                                                                         *)
(* vm is the part of the process address space backed by the file: the     *)
(* set of live map ids with the number of bytes each occupies (mappings    *)
(* are made of whole pages).                                               *)
(***************************************************************************)
EXTENDS Naturals, Integers, Sequences, FiniteSets, FiniteSetsExt
CONSTANT PageSize

PageRound(n) == ((n + PageSize - 1) \div PageSize) * PageSize

\* defined outcomes of MemoryMap::new.  The property lets the operating system refuse a mapping; it refuses one of length 0, so an
\* EMPTY file may be refused - or mapped as an empty slice, which is equally "valid and equal to the file's content".
NewResults(exists, size) == IF ~exists \/ size % 8 # 0 THEN {"err"} ELSE IF size = 0 THEN {"err", "ok"} ELSE {"ok"}

MappedBytes(vm) == LET S == {r[2] : r \in vm} IN FoldSet(LAMBDA r, acc : acc + r[2], 0, vm)
=============================================================================
