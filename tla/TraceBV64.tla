------------------------------ MODULE TraceBV64 ------------------------------
(* Trace specification for sparse and run-length bitvectors whose universe does not fit a TLC integer
   (up to 2^64 - 1): same events as TraceBV, every number a U64 limb triple, validated against BVRef64.
   The verdict of an event depends only on the event and the latest `def` event before it, so all
   verdicts are computed at constant level (see TraceFormat). *)
EXTENDS BVRef64, TraceCommon
VARIABLES l
vars == <<l>>
ObjOf(e) == [len |-> e.len, runs |-> e.runs]
\* index of the latest def event at or before j
DefIdx == [j \in 1..Len(Rec) |-> LET S == {k \in 1..j : Rec[k].e = "def"} IN IF S = {} THEN 0 ELSE CHOOSE k \in S : \A m \in S : m <= k]
Answer(B, op, a) ==
    CASE op = "get"   -> IF Get64(B, a) THEN One64 ELSE Zero64
      [] op = "rank"  -> Rank64(B, a)
      [] op = "rank0" -> RankZero64(B, a)
      [] op = "sel"   -> Select64(B, a)
      [] op = "sel0"  -> SelectZero64(B, a)
      [] op = "seli"  -> LET s == Select64(B, a) IN IF IsNone64(s) THEN NoPair64 ELSE <<a, s>>
      [] op = "sel0i" -> LET s == SelectZero64(B, a) IN IF IsNone64(s) THEN NoPair64 ELSE <<a, s>>
      [] op = "pred"  -> Pred64(B, a)
      [] op = "succ"  -> Succ64(B, a)
InDomain(B, op, a) == CASE op = "get" -> Lt64(a, B.len) [] op = "rank0" -> Le64(a, B.len) [] OTHER -> TRUE
DefOK(e) == LET B == ObjOf(e) IN WellFormed64(B) /\ e.built = "ok" /\ e.obs = <<B.len, Ones64(B), Zeros64(B)>>
QueryOK(j) == LET e == Rec[j] B == ObjOf(Rec[DefIdx[j]]) IN
              DefIdx[j] > 0 /\ \A i \in 1..Len(e.a) : InDomain(B, e.op, e.a[i]) /\ e.r[i] = Answer(B, e.op, e.a[i])
RunsOK(j) == LET B == ObjOf(Rec[DefIdx[j]]) IN DefIdx[j] > 0 /\ Rec[j].items = RunItems64(B)
Verdict == [j \in 1..Len(Rec) |-> CASE Rec[j].e = "def" -> DefOK(Rec[j]) [] Rec[j].e = "q" -> QueryOK(j) [] Rec[j].e = "runs" -> RunsOK(j) [] OTHER -> FALSE]
TraceInit == l = 1
Event == l <= Len(Rec) /\ Verdict[l] /\ l' = l + 1
TraceNext == Event
TraceSpec == TraceInit /\ [][TraceNext]_vars
=============================================================================
