------------------------------ MODULE TraceWM ------------------------------
(***************************************************************************)
(* Trace specification for wavelet matrix objects: recorded construction   *)
(* and query events of the real WaveletMatrix / WMCore must be steps of    *)
(* the Layer A indexed-vector machine (VecRef semantics).                  *)
(***************************************************************************)
EXTENDS VecRef, TraceCommon

VARIABLES l, cur
vars == <<l, cur>>

\* o = Occ(V, v); bf = Before(V, v); ol = Occ(V, Low(v, Width(V))) - computed once per event
Answer(V, op, a, v, o, bf, ol) ==
    CASE op = "rank"      -> RankO(V, o, a)
      [] op = "sel"       -> SelectO(o, a)
      [] op = "seli"      -> LET s == SelectO(o, a) IN IF s = None THEN NoPair ELSE <<a, s>>
      [] op = "inv"       -> VInvSelect(V, a)
      [] op = "pred"      -> PredO(V, o, a)
      [] op = "succ"      -> SuccO(V, o, a)
      [] op = "contains"  -> IF Len(o) > 0 THEN 1 ELSE 0
      [] op = "down"      -> MapDown(V, a)
      [] op = "down_with" -> MapDownWithO(V, bf, ol, a)
      [] op = "up_with"   -> MapUpWithO(bf, ol, a)

\* Every event after a `def` names that def's line (`d`); verdicts are computed at constant level.
Refers(j) == LET d == Rec[j].d IN d >= 1 /\ d < j /\ Rec[d].e = "def" /\ \A k \in (d + 1)..(j - 1) : Rec[k].e # "def"
DefOK(j) == LET e == Rec[j] IN e.built = "ok" /\ e.obs = <<Len(e.vals), Width(e.vals), Len(e.vals), Width(e.vals)>>
QueryOK(j) == LET e == Rec[j]
                  V == Rec[e.d].vals
                  o == Occ(V, e.v)
                  bf == Before(V, e.v)
                  ol == Occ(V, Low(e.v, Width(V)))
              IN Refers(j) /\ \A i \in 1..Len(e.a) : e.r[i] = Answer(V, e.op, e.a[i], e.v, o, bf, ol)
IterOK(j) == Refers(j) /\ Rec[j].items = VIterFrom(Rec[Rec[j].d].vals, 0, Rec[j].v)
ItemsOK(j) == Refers(j) /\ Rec[j].items = Rec[Rec[j].d].vals
Verdict == [j \in 1..Len(Rec) |-> CASE Rec[j].e = "def" -> DefOK(j) [] Rec[j].e = "q" -> QueryOK(j) [] Rec[j].e = "iter" -> IterOK(j)
                                    [] Rec[j].e = "items" -> ItemsOK(j) [] OTHER -> FALSE]
TraceInit == l = 1 /\ cur = 0
Event == /\ l <= Len(Rec) /\ Verdict[l] /\ cur' = (IF Rec[l].e = "def" THEN l ELSE cur) /\ l' = l + 1
TraceNext == Event
TraceSpec == TraceInit /\ [][TraceNext]_vars
=============================================================================
