------------------------------ MODULE TraceWM ------------------------------
(***************************************************************************)
(* Trace specification for wavelet matrix objects: recorded construction   *)
(* and query events of the real WaveletMatrix / WMCore must be steps of    *)
(* the Layer A indexed-vector machine (VecRef semantics).                  *)
(***************************************************************************)
EXTENDS VecRef, TraceCommon

VARIABLES l, cur
vars == <<l, cur>>

\* o = Occ(V, v); bf = Before(V, v); ol = Occ(V, Low(v, Width(V))) - computed once per event
Answer(V, op, a, v, o, bf, ol) ==
    CASE op = "rank"      -> RankO(V, o, a)
      [] op = "sel"       -> SelectO(o, a)
      [] op = "seli"      -> LET s == SelectO(o, a) IN IF s = None THEN NoPair ELSE <<a, s>>
      [] op = "inv"       -> VInvSelect(V, a)
      [] op = "pred"      -> PredO(V, o, a)
      [] op = "succ"      -> SuccO(V, o, a)
      [] op = "contains"  -> IF Len(o) > 0 THEN 1 ELSE 0
      [] op = "down"      -> MapDown(V, a)
      [] op = "down_with" -> MapDownWithO(V, bf, ol, a)
      [] op = "up_with"   -> MapUpWithO(bf, ol, a)

TraceInit == l = 1 /\ cur = << >>

Build ==
    /\ l <= Len(Rec) /\ Rec[l].e = "def"
    /\ LET e == Rec[l] IN
         /\ e.built = "ok"
         /\ e.obs = <<Len(e.vals), Width(e.vals), Len(e.vals), Width(e.vals)>>
         /\ cur' = e.vals
    /\ l' = l + 1

Query ==
    /\ l <= Len(Rec) /\ Rec[l].e = "q"
    /\ LET e == Rec[l]
           o == Occ(cur, e.v)
           bf == Before(cur, e.v)
           ol == Occ(cur, Low(e.v, Width(cur)))
       IN \A j \in 1..Len(e.a) : e.r[j] = Answer(cur, e.op, e.a[j], e.v, o, bf, ol)
    /\ UNCHANGED cur /\ l' = l + 1

ValueIter ==
    /\ l <= Len(Rec) /\ Rec[l].e = "iter"
    /\ Rec[l].items = VIterFrom(cur, 0, Rec[l].v)
    /\ UNCHANGED cur /\ l' = l + 1

Items ==
    /\ l <= Len(Rec) /\ Rec[l].e = "items"
    /\ Rec[l].items = cur
    /\ UNCHANGED cur /\ l' = l + 1

TraceNext == Build \/ Query \/ ValueIter \/ Items
TraceSpec == TraceInit /\ [][TraceNext]_vars
=============================================================================
