------------------------------ MODULE TraceMS ------------------------------
(* Trace specification for multiset sparse vectors: recorded construction, queries and iterator
   listings of the real SparseVector must match the Layer A multiset semantics (MSRef). *)
EXTENDS MSRef, TraceCommon
VARIABLES l, cur
vars == <<l, cur>>

Answer(M, op, a) ==
    CASE op = "get"  -> IF Get(M, a) THEN 1 ELSE 0
      [] op = "rank" -> Rank(M, a)
      [] op = "sel"  -> Select(M, a)
      [] op = "seli" -> LET s == Select(M, a) IN IF s = None THEN NoPair ELSE <<a, s>>
      [] op = "pred" -> Pred(M, a)
      [] op = "succ" -> Succ(M, a)

\* every event after a def names that def's line; verdicts are computed at constant level
Refers(j) == LET d == Rec[j].d IN d >= 1 /\ d < j /\ Rec[d].e = "def" /\ \A k \in (d + 1)..(j - 1) : Rec[k].e # "def"
ObjAt(j) == [universe |-> Rec[j].universe, vals |-> Rec[j].vals]
DefOK(j) == LET e == Rec[j] M == ObjAt(j) IN
            WellFormed(M) /\ e.built = "ok" /\ e.obs = <<Len_(M), CountOnes(M), CountZeros(M), IsMultiset(M)>>
QueryOK(j) == LET e == Rec[j] M == ObjAt(e.d) IN Refers(j) /\ \A i \in 1..Len(e.a) : e.r[i] = Answer(M, e.op, e.a[i])
PairsOK(j) == LET M == ObjAt(Rec[j].d) IN Refers(j) /\ Rec[j].fwd = OnePairs(M) /\ Rec[j].back = OnePairs(M)
BitsOK(j) == LET M == ObjAt(Rec[j].d) e == Rec[j] IN
             Refers(j) /\ e.n = M.universe /\ ToSet(e.fwd) = ToSet(M.vals) /\ Len(e.fwd) = Cardinality(ToSet(M.vals)) /\ e.back = e.fwd
Verdict == [j \in 1..Len(Rec) |-> CASE Rec[j].e = "def" -> DefOK(j) [] Rec[j].e = "q" -> QueryOK(j) [] Rec[j].e = "pairs" -> PairsOK(j)
                                    [] Rec[j].e = "bits" -> BitsOK(j) [] OTHER -> FALSE]
TraceInit == l = 1 /\ cur = 0
Event == /\ l <= Len(Rec) /\ Verdict[l] /\ cur' = (IF Rec[l].e = "def" THEN l ELSE cur) /\ l' = l + 1
TraceNext == Event
TraceSpec == TraceInit /\ [][TraceNext]_vars
=============================================================================
