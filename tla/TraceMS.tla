------------------------------ MODULE TraceMS ------------------------------
(* Trace specification for multiset sparse vectors: recorded construction, queries and iterator
   listings of the real SparseVector must match the Layer A multiset semantics (MSRef). *)
EXTENDS MSRef, TraceCommon
VARIABLES l, cur
vars == <<l, cur>>

Answer(M, op, a) ==
    CASE op = "get"  -> IF Get(M, a) THEN 1 ELSE 0
      [] op = "rank" -> Rank(M, a)
      [] op = "sel"  -> Select(M, a)
      [] op = "seli" -> LET s == Select(M, a) IN IF s = None THEN NoPair ELSE <<a, s>>
      [] op = "pred" -> Pred(M, a)
      [] op = "succ" -> Succ(M, a)

TraceInit == l = 1 /\ cur = [universe |-> 0, vals |-> << >>]
Build == /\ l <= Len(Rec) /\ Rec[l].e = "def"
         /\ LET e == Rec[l] M == [universe |-> e.universe, vals |-> e.vals] IN
              /\ WellFormed(M) /\ e.built = "ok"
              /\ e.obs = <<Len_(M), CountOnes(M), CountZeros(M), IsMultiset(M)>>
              /\ cur' = M
         /\ l' = l + 1
Query == /\ l <= Len(Rec) /\ Rec[l].e = "q"
         /\ LET e == Rec[l] IN \A j \in 1..Len(e.a) : e.r[j] = Answer(cur, e.op, e.a[j])
         /\ UNCHANGED cur /\ l' = l + 1
Pairs == /\ l <= Len(Rec) /\ Rec[l].e = "pairs"
         /\ Rec[l].fwd = OnePairs(cur) /\ Rec[l].back = OnePairs(cur)
         /\ UNCHANGED cur /\ l' = l + 1
\* the bit iterator (both directions) lists exactly the distinct positions and has universe items
BitsEv == /\ l <= Len(Rec) /\ Rec[l].e = "bits"
          /\ Rec[l].n = cur.universe
          /\ ToSet(Rec[l].fwd) = ToSet(cur.vals) /\ Len(Rec[l].fwd) = Cardinality(ToSet(cur.vals))
          /\ Rec[l].back = Rec[l].fwd
          /\ UNCHANGED cur /\ l' = l + 1
TraceNext == Build \/ Query \/ Pairs \/ BitsEv
TraceSpec == TraceInit /\ [][TraceNext]_vars
=============================================================================
