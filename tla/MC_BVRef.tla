---------------------------- MODULE MC_BVRef ----------------------------
(* Cross-check of the two reference definitions in BVRef on every bit sequence of length 0..N. *)
EXTENDS BVRef, TLC
CONSTANT N
VARIABLE bits
Init == \E k \in 0..N : bits \in [1..k -> BOOLEAN]
Next == UNCHANGED bits
Spec == Init /\ [][Next]_bits
Inv == Agree(bits)
=============================================================================
