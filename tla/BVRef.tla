------------------------------ MODULE BVRef ------------------------------
(***************************************************************************)
(* Layer A reference semantics of a bitvector (ops::BitVec, Rank, Select,  *)
(* SelectZero, PredSucc).                                                  *)
(*                                                                         *)
(* A bitvector value is a record [len |-> n, runs |-> <<r1, ..., rk>>]     *)
(* whose runs are the MAXIMAL runs of set bits, each <<start, length>>,    *)
(* in increasing order.  A second, independent definition works on a       *)
(* plain sequence of BOOLEANs; `Agree` states that the two coincide and is *)
(* checked by TLC for every small bit sequence (MC_BVRef).                 *)
(*                                                                         *)
(* Arguments are naturals, or a negative integer standing for a "huge"     *)
(* argument (usize::MAX, usize::MAX-1, 2^63, ...): larger than any length  *)
(* that occurs in the model.  None is -1; a missing (rank, pos) pair is    *)
(* <<-1, -1>>.                                                             *)
(*                                                                         *)
(* All operators are folds / comprehensions (no RECURSIVE) - see DESIGN    *)
(* section 3.4.                                                            *)
(***************************************************************************)
EXTENDS Naturals, Integers, Sequences, FiniteSets, SequencesExt, FiniteSetsExt

None == -1
NoPair == <<-1, -1>>
Huge(a) == a < 0

----------------------------------------------------------------------------
(* Run-list representation *)

RStart(r) == r[1]
RLen(r) == r[2]
REnd(r) == r[1] + r[2]

\* Well-formedness: sorted, non-empty, separated by at least one zero, inside the vector.
WellFormed(B) ==
    /\ B.len \in Nat
    /\ \A k \in 1..Len(B.runs) : RLen(B.runs[k]) >= 1 /\ RStart(B.runs[k]) >= 0 /\ REnd(B.runs[k]) <= B.len
    /\ \A k \in 1..(Len(B.runs) - 1) : REnd(B.runs[k]) < RStart(B.runs[k + 1])

Ones(B) == FoldLeft(LAMBDA acc, r : acc + RLen(r), 0, B.runs)
Zeros(B) == B.len - Ones(B)

Get(B, i) == \E k \in 1..Len(B.runs) : RStart(B.runs[k]) <= i /\ i < REnd(B.runs[k])

\* ones of run r strictly before position i
OnesBefore(r, i) == IF i <= RStart(r) THEN 0 ELSE IF i >= REnd(r) THEN RLen(r) ELSE i - RStart(r)

Rank(B, i) == IF Huge(i) \/ i >= B.len THEN Ones(B)
              ELSE FoldLeft(LAMBDA acc, r : acc + OnesBefore(r, i), 0, B.runs)

\* defined for i <= len
RankZero(B, i) == i - Rank(B, i)

\* acc = <<remaining, answer>>
Select(B, r) == IF Huge(r) THEN None
                ELSE FoldLeft(LAMBDA acc, run :
                         IF acc[2] >= 0 \/ acc[1] < 0 THEN acc
                         ELSE IF acc[1] < RLen(run) THEN <<0, RStart(run) + acc[1]>>
                         ELSE <<acc[1] - RLen(run), -1>>,
                       <<r, -1>>, B.runs)[2]

\* acc = <<remaining zeros to skip, answer, end of previous run>>
SelectZero(B, r) ==
    IF Huge(r) THEN None
    ELSE LET a == FoldLeft(LAMBDA acc, run :
                      IF acc[2] >= 0 THEN acc
                      ELSE LET gap == RStart(run) - acc[3] IN
                           IF acc[1] < gap THEN <<0, acc[3] + acc[1], 0>>
                           ELSE <<acc[1] - gap, -1, REnd(run)>>,
                    <<r, -1, 0>>, B.runs)
         IN IF a[2] >= 0 THEN a[2]
            ELSE IF a[1] < B.len - a[3] THEN a[3] + a[1] ELSE None

\* predecessor(v): the last set bit at or before v, with its rank; v >= len behaves as len - 1
Pred(B, v) == IF B.len = 0 THEN NoPair
              ELSE LET w == IF Huge(v) \/ v >= B.len THEN B.len - 1 ELSE v
                       r == Rank(B, w + 1)
                   IN IF r = 0 THEN NoPair ELSE <<r - 1, Select(B, r - 1)>>

\* successor(v): the first set bit at or after v, with its rank
Succ(B, v) == IF Huge(v) \/ v >= B.len THEN NoPair
              ELSE LET r == Rank(B, v) IN IF r >= Ones(B) THEN NoPair ELSE <<r, Select(B, r)>>

\* the set-bit sequence from rank r on: <<rank, pos>> pairs (used for iterators)
OnePairs(B) == LET f == FoldLeft(LAMBDA acc, run :
                              <<acc[1] \o [j \in 1..RLen(run) |-> <<acc[2] + j - 1, RStart(run) + j - 1>>], acc[2] + RLen(run)>>,
                            <<<< >>, 0>>, B.runs)
               IN f[1]

\* what the run iterator yields: <<start, len, offset after, rank after, rank_zero after>> per maximal run
RunItems(B) == FoldLeft(LAMBDA acc, run :
                   LET cum == (IF Len(acc) = 0 THEN 0 ELSE acc[Len(acc)][4]) + RLen(run) IN
                   Append(acc, <<RStart(run), RLen(run), REnd(run), cum, REnd(run) - cum>>),
                 << >>, B.runs)

----------------------------------------------------------------------------
(* Logarithmic-time versions for long run lists (trace validation of large objects).
   B carries a field cum with cum[k] = number of set bits before run k.  The recorder logs cum; CumOK
   validates it with one pass; the binary searches have logarithmic recursion depth.  MC_BVRef checks
   that these operators agree with the fold-based ones above on every small bit sequence. *)

CumOf(B) == [k \in 1..Len(B.runs) |-> FoldLeft(LAMBDA acc, j : acc + RLen(B.runs[j]), 0, [j \in 1..(k - 1) |-> j])]
WithCum(B) == [len |-> B.len, runs |-> B.runs, cum |-> CumOf(B)]
CumOK(B) == /\ Len(B.cum) = Len(B.runs)
            /\ \A k \in 1..Len(B.runs) : B.cum[k] = IF k = 1 THEN 0 ELSE B.cum[k - 1] + RLen(B.runs[k - 1])

\* largest k in lo..hi with start(k) <= x, or lo - 1
RECURSIVE FindStart(_, _, _, _)
FindStart(B, x, lo, hi) == IF lo > hi THEN lo - 1
                           ELSE LET mid == (lo + hi) \div 2 IN
                                IF RStart(B.runs[mid]) <= x THEN FindStart(B, x, mid + 1, hi) ELSE FindStart(B, x, lo, mid - 1)
\* largest k with cum[k] <= r
RECURSIVE FindCum(_, _, _, _)
FindCum(B, r, lo, hi) == IF lo > hi THEN lo - 1
                         ELSE LET mid == (lo + hi) \div 2 IN
                              IF B.cum[mid] <= r THEN FindCum(B, r, mid + 1, hi) ELSE FindCum(B, r, lo, mid - 1)
\* largest k with (zeros before run k) <= r
RECURSIVE FindZeros(_, _, _, _)
FindZeros(B, r, lo, hi) == IF lo > hi THEN lo - 1
                           ELSE LET mid == (lo + hi) \div 2 IN
                                IF RStart(B.runs[mid]) - B.cum[mid] <= r THEN FindZeros(B, r, mid + 1, hi) ELSE FindZeros(B, r, lo, mid - 1)

NR(B) == Len(B.runs)
OnesF(B) == IF NR(B) = 0 THEN 0 ELSE B.cum[NR(B)] + RLen(B.runs[NR(B)])
ZerosF(B) == B.len - OnesF(B)
GetF(B, i) == LET k == FindStart(B, i, 1, NR(B)) IN k >= 1 /\ i < REnd(B.runs[k])
RankF(B, i) == IF Huge(i) \/ i >= B.len THEN OnesF(B)
               ELSE LET k == FindStart(B, i, 1, NR(B)) IN
                    IF k = 0 THEN 0 ELSE B.cum[k] + (IF i - RStart(B.runs[k]) < RLen(B.runs[k]) THEN i - RStart(B.runs[k]) ELSE RLen(B.runs[k]))
RankZeroF(B, i) == i - RankF(B, i)
SelectF(B, r) == IF Huge(r) \/ r >= OnesF(B) THEN None
                 ELSE LET k == FindCum(B, r, 1, NR(B)) IN RStart(B.runs[k]) + (r - B.cum[k])
SelectZeroF(B, r) == IF Huge(r) \/ r >= ZerosF(B) THEN None
                     ELSE LET k == FindZeros(B, r, 1, NR(B)) IN IF k = 0 THEN r ELSE r + B.cum[k] + RLen(B.runs[k])
PredF(B, v) == IF B.len = 0 THEN NoPair
               ELSE LET w == IF Huge(v) \/ v >= B.len THEN B.len - 1 ELSE v
                        r == RankF(B, w + 1)
                    IN IF r = 0 THEN NoPair ELSE <<r - 1, SelectF(B, r - 1)>>
SuccF(B, v) == IF Huge(v) \/ v >= B.len THEN NoPair
               ELSE LET r == RankF(B, v) IN IF r >= OnesF(B) THEN NoPair ELSE <<r, SelectF(B, r)>>
\* items of the run iterator from the logged cum
RunItemF(B, k) == <<RStart(B.runs[k]), RLen(B.runs[k]), REnd(B.runs[k]), B.cum[k] + RLen(B.runs[k]), REnd(B.runs[k]) - B.cum[k] - RLen(B.runs[k])>>

----------------------------------------------------------------------------
(* Bit-sequence representation (independent definitions) *)

BLen(bits) == Len(bits)
BOnesSet(bits) == {i \in 0..(Len(bits) - 1) : bits[i + 1]}
BZerosSet(bits) == {i \in 0..(Len(bits) - 1) : ~bits[i + 1]}
BOnes(bits) == Cardinality(BOnesSet(bits))
BGet(bits, i) == bits[i + 1]
BRank(bits, i) == Cardinality({p \in BOnesSet(bits) : Huge(i) \/ p < i})
BSelectIn(S, r) == IF Huge(r) \/ r >= Cardinality(S) THEN None
                   ELSE CHOOSE p \in S : Cardinality({q \in S : q < p}) = r
BSelect(bits, r) == BSelectIn(BOnesSet(bits), r)
BSelectZero(bits, r) == BSelectIn(BZerosSet(bits), r)
BPred(bits, v) == LET S == {p \in BOnesSet(bits) : Huge(v) \/ p <= v} IN
                  IF S = {} THEN NoPair ELSE <<Cardinality(S) - 1, Max(S)>>
BSucc(bits, v) == LET S == {p \in BOnesSet(bits) : ~Huge(v) /\ p >= v} IN
                  IF S = {} THEN NoPair ELSE <<BOnes(bits) - Cardinality(S), Min(S)>>

\* maximal runs of a bit sequence; acc = <<runs, current start or -1>>
RunsOfBits(bits) ==
    LET n == Len(bits)
        f == FoldLeft(LAMBDA acc, i :
                 IF bits[i] THEN (IF acc[2] < 0 THEN <<acc[1], i - 1>> ELSE acc)
                 ELSE (IF acc[2] < 0 THEN acc ELSE <<Append(acc[1], <<acc[2], (i - 1) - acc[2]>>), -1>>),
               <<<< >>, -1>>, [i \in 1..n |-> i])
    IN IF f[2] < 0 THEN f[1] ELSE Append(f[1], <<f[2], n - f[2]>>)

FromBits(bits) == [len |-> Len(bits), runs |-> RunsOfBits(bits)]

\* maximal runs of a finite set of positions
FromSet(n, S) == FromBits([i \in 1..n |-> (i - 1) \in S])

\* The two definitions agree on every argument 0..len+1 and on a huge argument.
Args(n) == 0..(n + 1) \cup {-1}
Agree(bits) ==
    LET B == FromBits(bits) n == Len(bits) IN
    /\ WellFormed(B)
    /\ Ones(B) = BOnes(bits)
    /\ \A i \in 0..(n - 1) : Get(B, i) = BGet(bits, i)
    /\ \A a \in Args(n) :
          /\ Rank(B, a) = BRank(bits, a)
          /\ Select(B, a) = BSelect(bits, a)
          /\ SelectZero(B, a) = BSelectZero(bits, a)
          /\ Pred(B, a) = BPred(bits, a)
          /\ Succ(B, a) = BSucc(bits, a)
    /\ LET P == OnePairs(B) IN
         /\ Len(P) = Ones(B)
         /\ \A k \in 1..Len(P) : P[k] = <<k - 1, Select(B, k - 1)>>
    /\ LET C == WithCum(B) IN
         /\ CumOK(C)
         /\ OnesF(C) = Ones(B)
         /\ \A i \in 0..(n - 1) : GetF(C, i) = Get(B, i)
         /\ \A a \in Args(n) :
               /\ RankF(C, a) = Rank(B, a)
               /\ SelectF(C, a) = Select(B, a)
               /\ SelectZeroF(C, a) = SelectZero(B, a)
               /\ PredF(C, a) = Pred(B, a)
               /\ SuccF(C, a) = Succ(B, a)
         /\ \A k \in 1..Len(B.runs) : RunItemF(C, k) = RunItems(B)[k]
=============================================================================
