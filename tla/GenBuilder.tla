------------------------------ MODULE GenBuilder ------------------------------
(***************************************************************************)
(* Transition cover of the builder machines (spec -> impl).  The history   *)
(* is hidden by the VIEW: every reachable builder state is expanded once,  *)
(* reached by a shortest history, and EVERY call from it - valid or        *)
(* invalid - is printed as one behaviour: history, the call, then a        *)
(* completion (valid calls that fill a sparse builder) and the conversion  *)
(* into a vector, each with the defined result, the defined observables    *)
(* after the call, and the defined final content.  A refused call that     *)
(* leaves residue shows up in the observables or in the final content.     *)
(* The abstract builder state hides what the implementation remembers      *)
(* between calls (a pending run, a flushed run), so with Memory = 1 the     *)
(* VIEW also keeps the CLASS of the last call (operation, result, position *)
(* of its argument relative to the end): every reachable (state, class of  *)
(* the previous call) is expanded with every call - a cover of all pairs   *)
(* of consecutive calls, including calls that leave the abstract state     *)
(* unchanged (set_len to the current length, empty runs, refused calls).   *)
(***************************************************************************)
EXTENDS SDSBuilder, TLC, Json
CONSTANTS Kind, MaxU, MaxCap, MaxLen, Memory

VARIABLES b, hist, init, last
vars == <<b, hist, init, last>>
View == <<b, init, IF Memory = 1 THEN last ELSE 0>>
Sign(x) == IF x < 0 THEN -1 ELSE IF x = 0 THEN 0 ELSE 1
\* class of a call made in state s
CallClass(s, c, res) ==
    IF s.kind = "sparse"
    THEN <<c.op, res, IF c.op = "extend" THEN Len(c.is) ELSE IF c.i < 0 THEN 9 ELSE Sign(c.i - s.next)>>
    ELSE IF c.op = "try_set" THEN <<c.op, res, IF c.i < 0 THEN 9 ELSE Sign(c.i - s.len), Sign(c.n)>>
    ELSE <<c.op, res, Sign(c.n - s.len), 0>>

SparseCalls(s) ==
    {[op |-> "try_set", i |-> i] : i \in 0..(s.universe + 1) \cup {-1}}
    \cup {[op |-> "set", i |-> i] : i \in 0..(s.universe + 1) \cup {-1}}
    \cup {[op |-> "extend", is |-> is] : is \in {<<s.next, s.next + 2>>, <<s.next + 1, s.next>>, <<s.next, s.next>>, << >>}}

RLCalls(s) ==
    {[op |-> "try_set", i |-> i, n |-> n] : i \in {0, s.len - 1, s.len, s.len + 1, s.len + 3} \cap Nat, n \in {0, 1, 2, 9}}
    \* runs that would end beyond usize::MAX (length or start usize::MAX: token -1): refused, and nothing may be left behind
    \cup {[op |-> "try_set", i |-> i, n |-> -1] : i \in {s.len, s.len + 1, s.len + 3} \ {0}}
    \cup {[op |-> "try_set", i |-> -1, n |-> n] : n \in {1, 2}}
    \cup {[op |-> "set_len", n |-> n] : n \in {0, s.len - 1, s.len, s.len + 1, s.len + 4} \cap Nat}

Calls(s) == IF s.kind = "sparse" THEN SparseCalls(s) ELSE RLCalls(s)

Init == /\ hist = << >> /\ last = << >>
        /\ IF Kind = "sparse"
           THEN \E u \in 0..MaxU : \E m \in 0..MaxCap : \E multi \in BOOLEAN :
                  /\ (multi \/ NewSparseOK(u, m))
                  /\ b = NewSparse(u, m, multi)
                  /\ init = [op |-> IF multi THEN "multiset" ELSE "new", u |-> u, m |-> m, obs |-> Obs(b)]
           ELSE b = NewRL /\ init = [op |-> "rl", obs |-> Obs(b)]

Entry(c, r) == [c |-> c, res |-> r.res, obs |-> Obs(r.b)]

\* valid calls that fill a sparse builder as far as the universe allows
RECURSIVE Fill(_)
Fill(s) == IF s.kind # "sparse" \/ ~SAccepts(s, s.next) THEN << >>
           ELSE LET c == [op |-> "try_set", i |-> s.next] r == BStep(s, c) IN <<Entry(c, r)>> \o Fill(r.b)
RECURSIVE AfterFill(_)
AfterFill(s) == IF s.kind # "sparse" \/ ~SAccepts(s, s.next) THEN s ELSE AfterFill(BStep(s, [op |-> "try_set", i |-> s.next]).b)

Behaviour(h, s) ==
    LET f == AfterFill(s) IN
    [k |-> "builder", init |-> init, steps |-> h \o Fill(s),
     finish |-> [ok |-> FinishOK(f), len |-> FinalLen(f), ones |-> FinalOnes(f)]]

Next == /\ (b.kind = "rl" => b.len <= MaxLen)
        /\ \E c \in Calls(b) :
             LET r == BStep(b, c)
                 h == Append(hist, Entry(c, r))
             IN /\ b' = r.b
                /\ hist' = h
                /\ last' = CallClass(b, c, r.res)
                /\ UNCHANGED init
                /\ PrintT(<<"REPLAY", ToJson(Behaviour(h, r.b))>>)

Spec == Init /\ [][Next]_vars
Inv == BuilderOK(b)
=============================================================================
