------------------------------ MODULE SDSConv ------------------------------
(***************************************************************************)
(* Layer A: a bitvector OBJECT is (type, content, supports).  Conversions  *)
(* (From / copy_bit_vec) change the type and keep the content; enabling a  *)
(* support structure adds it (idempotent) and changes neither the content  *)
(* nor any answer; serialize + load preserves the type, the content and    *)
(* exactly the subset of supports.  The content is not part of this        *)
(* module's state (it never changes): the harness pairs every behaviour    *)
(* with every generated content and checks after each step that the real   *)
(* object still holds that content, reports the defined support flags, is  *)
(* == to and serializes identically to the object built directly by the    *)
(* target type's own builder with the same supports (canonical form).      *)
(***************************************************************************)
EXTENDS Naturals, Sequences, FiniteSets

Types == {"plain", "sparse", "rl"}
Supports == {"rank", "select", "select_zero"}

NewObj(t) == [type |-> t, sup |-> {}]

CStep(o, c) ==
    CASE c.op = "convert" -> [type |-> c.to, sup |-> {}]          \* a fresh object of the target type
      [] c.op = "enable"  -> IF o.type = "plain"
                             THEN [o EXCEPT !.sup = o.sup \cup (IF c.s = "pred_succ" THEN {"rank", "select"} ELSE {c.s})]
                             ELSE o                                 \* sparse / run-length: always supported, no-op
      [] c.op = "reload"  -> o

\* what supports_* report
Flags(o) == IF o.type = "plain"
            THEN [rank |-> "rank" \in o.sup, select |-> "select" \in o.sup, select_zero |-> "select_zero" \in o.sup,
                  pred_succ |-> ("rank" \in o.sup /\ "select" \in o.sup)]
            ELSE [rank |-> TRUE, select |-> TRUE, select_zero |-> TRUE, pred_succ |-> TRUE]

Calls == {[op |-> "convert", to |-> t] : t \in Types}
         \cup {[op |-> "enable", s |-> s] : s \in Supports \cup {"pred_succ"}}
         \cup {[op |-> "reload"]}
=============================================================================
