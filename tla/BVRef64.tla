------------------------------- MODULE BVRef64 -------------------------------
(***************************************************************************)
(* The Layer A bitvector semantics of BVRef for universes up to 2^64 - 1:  *)
(* the same definitions with U64 arithmetic.  B = [len, runs] with runs =  *)
(* maximal runs <<start, length>>, all numbers U64 limb triples.  None is  *)
(* None64; a missing pair is <<None64, None64>>.                           *)
(* MC_BVRef64 checks agreement with BVRef on every small bit sequence.     *)
(***************************************************************************)
EXTENDS U64, SequencesExt, FiniteSets
NoPair64 == <<None64, None64>>
REnd64(r) == Add64(r[1], r[2])
WellFormed64(B) ==
    /\ IsU64(B.len)
    /\ \A k \in 1..Len(B.runs) : IsU64(B.runs[k][1]) /\ IsU64(B.runs[k][2]) /\ Lt64(Zero64, B.runs[k][2])
                                 /\ ~Overflows64(REnd64(B.runs[k])) /\ Le64(REnd64(B.runs[k]), B.len)
    /\ \A k \in 1..(Len(B.runs) - 1) : Lt64(REnd64(B.runs[k]), B.runs[k + 1][1])
Ones64(B) == FoldLeft(LAMBDA acc, r : Add64(acc, r[2]), Zero64, B.runs)
Zeros64(B) == Sub64(B.len, Ones64(B))
Get64(B, i) == \E k \in 1..Len(B.runs) : Le64(B.runs[k][1], i) /\ Lt64(i, REnd64(B.runs[k]))
OnesBefore64(r, i) == IF Le64(i, r[1]) THEN Zero64 ELSE IF Le64(REnd64(r), i) THEN r[2] ELSE Sub64(i, r[1])
Rank64(B, i) == IF Le64(B.len, i) THEN Ones64(B) ELSE FoldLeft(LAMBDA acc, r : Add64(acc, OnesBefore64(r, i)), Zero64, B.runs)
RankZero64(B, i) == Sub64(i, Rank64(B, i))                  \* i <= len
\* acc = <<remaining, answer>>
Select64(B, r) == FoldLeft(LAMBDA acc, run :
                     IF ~IsNone64(acc[2]) THEN acc
                     ELSE IF Lt64(acc[1], run[2]) THEN <<Zero64, Add64(run[1], acc[1])>>
                     ELSE <<Sub64(acc[1], run[2]), None64>>, <<r, None64>>, B.runs)[2]
\* acc = <<remaining zeros, answer, end of previous run>>
SelectZero64(B, r) ==
    LET a == FoldLeft(LAMBDA acc, run :
                 IF ~IsNone64(acc[2]) THEN acc
                 ELSE LET gap == Sub64(run[1], acc[3]) IN
                      IF Lt64(acc[1], gap) THEN <<Zero64, Add64(acc[3], acc[1]), Zero64>>
                      ELSE <<Sub64(acc[1], gap), None64, REnd64(run)>>, <<r, None64, Zero64>>, B.runs)
    IN IF ~IsNone64(a[2]) THEN a[2]
       ELSE IF Lt64(a[1], Sub64(B.len, a[3])) THEN Add64(a[3], a[1]) ELSE None64
Pred64(B, v) == IF B.len = Zero64 THEN NoPair64
                ELSE LET w == IF Le64(B.len, v) THEN Sub64(B.len, One64) ELSE v
                         r == Rank64(B, Add64(w, One64))
                     IN IF r = Zero64 THEN NoPair64 ELSE <<Sub64(r, One64), Select64(B, Sub64(r, One64))>>
Succ64(B, v) == IF Le64(B.len, v) THEN NoPair64
                ELSE LET r == Rank64(B, v) IN IF Le64(Ones64(B), r) THEN NoPair64 ELSE <<r, Select64(B, r)>>
RunItems64(B) == FoldLeft(LAMBDA acc, run :
                     LET cum == Add64(IF Len(acc) = 0 THEN Zero64 ELSE acc[Len(acc)][4], run[2]) IN
                     Append(acc, <<run[1], run[2], REnd64(run), cum, Sub64(REnd64(run), cum)>>), << >>, B.runs)
=============================================================================
