--------------------------------- MODULE U64 ---------------------------------
(***************************************************************************)
(* Unsigned 64-bit quantities for TLC (whose integers are 32-bit): a       *)
(* number is <<l0, l1, l2>> = l0 + l1 * 2^24 + l2 * 2^48 with l0, l1 <     *)
(* 2^24 and, for a value that fits 64 bits, l2 < 2^16.  Only +, -, and     *)
(* comparisons are needed by the reference semantics.  MC_U64 checks the   *)
(* operators against ordinary arithmetic on all small cases (scaled base). *)
(***************************************************************************)
EXTENDS Naturals, Integers, Sequences
Base == 16777216
Top == 65536
Zero64 == <<0, 0, 0>>
One64 == <<1, 0, 0>>
Max64 == <<Base - 1, Base - 1, Top - 1>>
None64 == <<-1, -1, -1>>
IsNone64(a) == a[1] < 0
FromNat(n) == <<n % Base, n \div Base, 0>>                 \* n < 2^31
Lt64(a, b) == \/ a[3] < b[3]
              \/ a[3] = b[3] /\ a[2] < b[2]
              \/ a[3] = b[3] /\ a[2] = b[2] /\ a[1] < b[1]
Le64(a, b) == a = b \/ Lt64(a, b)
Add64(a, b) == LET s1 == a[1] + b[1] c1 == s1 \div Base
                   s2 == a[2] + b[2] + c1 c2 == s2 \div Base
               IN <<s1 % Base, s2 % Base, a[3] + b[3] + c2>>
Overflows64(a) == a[3] >= Top                               \* the sum does not fit 64 bits
\* a - b for a >= b
Sub64(a, b) == LET d1 == a[1] - b[1] b1 == IF d1 < 0 THEN 1 ELSE 0
                   d2 == a[2] - b[2] - b1 b2 == IF d2 < 0 THEN 1 ELSE 0
               IN <<d1 + b1 * Base, d2 + b2 * Base, a[3] - b[3] - b2>>
Min64(a, b) == IF Le64(a, b) THEN a ELSE b
IsU64(a) == a[1] \in 0..(Base - 1) /\ a[2] \in 0..(Base - 1) /\ a[3] \in 0..(Top - 1)
=============================================================================
