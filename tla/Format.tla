------------------------------- MODULE Format -------------------------------
(***************************************************************************)
(* The serialization format, written from SERIALIZATION.md ALONE (not from *)
(* the Rust code): an independent codec used in both directions.           *)
(*                                                                         *)
(*   * Decoder + well-formedness (library -> document): WF_T(f, p) says    *)
(*     that the elements of file f from position p on are a structure of   *)
(*     type T that satisfies every requirement of the document; the        *)
(*     Content operators extract its logical content by the document's     *)
(*     rules.                                                              *)
(*   * Encoder (document -> library): Enc_T builds a file from logical     *)
(*     content and the writer-side choices the document leaves open        *)
(*     (support structures absent, any admissible low-part width, any      *)
(*     sufficient sample width).                                           *)
(*                                                                         *)
(* A file is a sequence of ELEMENTS; an element (unsigned 64-bit           *)
(* little-endian integer) is the SET of its set bit positions 0..63.       *)
(* Positions p are 1-based indexes into the file.                          *)
(***************************************************************************)
EXTENDS Naturals, Integers, Sequences, FiniteSets, SequencesExt, FiniteSetsExt

CeilDiv(a, b) == (a + b - 1) \div b
Nat2E(n) == {b \in 0..30 : (n \div (2^b)) % 2 = 1}
Small(e) == \A b \in e : b <= 30
E2Nat(e) == FoldSet(LAMBDA b, acc : acc + 2^b, 0, e)
BitLenNat(n) == IF n = 0 THEN 1 ELSE CHOOSE k \in 1..31 : 2^(k - 1) <= n /\ n < 2^k
N(f, p) == E2Nat(f[p])
InFile(f, p) == p >= 1 /\ p <= Len(f)

----------------------------------------------------------------------------
(* Vectors of elements:  length, items *)
VecWF(f, p) == InFile(f, p) /\ Small(f[p]) /\ p + N(f, p) <= Len(f)
VecLen(f, p) == N(f, p)
VecItem(f, p, i) == f[p + 1 + i]
VecNext(f, p) == p + 1 + N(f, p)

(* Vectors of bytes: length, bytes, 0..7 bytes of zero padding.  Byte j of an element is bits 8j..8j+7. *)
ByteOf(e, j) == E2Nat({b - 8 * j : b \in {c \in e : c >= 8 * j /\ c < 8 * j + 8}})
BytesWF(f, p) == /\ InFile(f, p) /\ Small(f[p]) /\ p + CeilDiv(N(f, p), 8) <= Len(f)
                 /\ LET n == N(f, p) IN n % 8 # 0 => \A b \in f[p + CeilDiv(n, 8)] : b < 8 * (n % 8)     \* padding bytes are 0
BytesContent(f, p) == [i \in 1..N(f, p) |-> ByteOf(f[p + 1 + ((i - 1) \div 8)], (i - 1) % 8)]
BytesNext(f, p) == p + 1 + CeilDiv(N(f, p), 8)

(* Optional structures: length in elements (0 = absent), then the structure *)
OptWF(f, p) == InFile(f, p) /\ Small(f[p]) /\ p + N(f, p) <= Len(f)
OptPresent(f, p) == N(f, p) > 0
OptNext(f, p) == p + 1 + N(f, p)

----------------------------------------------------------------------------
(* Raw bitvector: length in bits, vector of ceil(len / 64) elements, unused bits of the last element 0 *)
RawLen(f, p) == N(f, p)
RawWF(f, p) == /\ InFile(f, p) /\ InFile(f, p + 1) /\ Small(f[p]) /\ VecWF(f, p + 1)
               /\ VecLen(f, p + 1) = CeilDiv(RawLen(f, p), 64)
               /\ (RawLen(f, p) % 64 # 0 => \A b \in f[p + 1 + VecLen(f, p + 1)] : b < RawLen(f, p) % 64)
RawBit(f, p, i) == (i % 64) \in f[p + 2 + (i \div 64)]
RawOnes(f, p) == {i \in 0..(RawLen(f, p) - 1) : RawBit(f, p, i)}
RawNext(f, p) == VecNext(f, p + 1)

(* Integer vector: length, width 1..64, raw bitvector of length * width bits *)
IntLen(f, p) == N(f, p)
IntWidth(f, p) == N(f, p + 1)
IntWF(f, p) == /\ InFile(f, p) /\ InFile(f, p + 1) /\ Small(f[p]) /\ Small(f[p + 1])
               /\ IntWidth(f, p) \in 1..64
               /\ RawWF(f, p + 2) /\ RawLen(f, p + 2) = IntLen(f, p) * IntWidth(f, p)
IntItemSet(f, p, i) == {b \in 0..(IntWidth(f, p) - 1) : RawBit(f, p + 2, i * IntWidth(f, p) + b)}
IntItem(f, p, i) == E2Nat(IntItemSet(f, p, i))          \* for items below 2^31
IntItems(f, p) == [i \in 1..IntLen(f, p) |-> IntItem(f, p, i - 1)]
IntNext(f, p) == RawNext(f, p + 2)

(* Bitvector: number of set bits, raw bitvector, three optional support structures *)
BVRawPos(p) == p + 1
BVLen(f, p) == RawLen(f, p + 1)
BVOnes(f, p) == RawOnes(f, p + 1)
BVOpt1(f, p) == RawNext(f, p + 1)
BVOpt2(f, p) == OptNext(f, BVOpt1(f, p))
BVOpt3(f, p) == OptNext(f, BVOpt2(f, p))
BVNext(f, p) == OptNext(f, BVOpt3(f, p))
BVWF(f, p) == /\ InFile(f, p) /\ Small(f[p]) /\ RawWF(f, p + 1)
              /\ N(f, p) = Cardinality(BVOnes(f, p))
              /\ OptWF(f, BVOpt1(f, p)) /\ OptWF(f, BVOpt2(f, p)) /\ OptWF(f, BVOpt3(f, p))
BVSupports(f, p) == <<OptPresent(f, BVOpt1(f, p)), OptPresent(f, BVOpt2(f, p)), OptPresent(f, BVOpt3(f, p))>>

----------------------------------------------------------------------------
(* Sparse bitvector: length n, bitvector `high` (unary bucket counts), integer vector `low` of width w >= 1 *)
Buckets(n, w) == IF w >= 31 THEN (IF n > 0 THEN 1 ELSE 0) ELSE CeilDiv(n, 2^w)
SparseHigh(p) == p + 1
SparseLow(f, p) == BVNext(f, p + 1)
SparseNext(f, p) == IntNext(f, SparseLow(f, p))
SparseN(f, p) == N(f, p)
\* item i (0-based) = low[i] + ((high.select(i) - i) << w)
SparseItems(f, p) ==
    LET lo == SparseLow(f, p)
        w == IntWidth(f, lo)
        sel == SetToSortSeq(BVOnes(f, p + 1), <)
    IN [i \in 1..IntLen(f, lo) |-> IntItem(f, lo, i - 1) + (IF w >= 31 THEN 0 ELSE (sel[i] - (i - 1)) * 2^w)]
SparseWF(f, p) ==
    /\ InFile(f, p) /\ Small(f[p]) /\ BVWF(f, p + 1) /\ IntWF(f, SparseLow(f, p))
    /\ LET lo == SparseLow(f, p) m == IntLen(f, lo) w == IntWidth(f, lo) n == SparseN(f, p) IN
         /\ w >= 1
         /\ Cardinality(BVOnes(f, p + 1)) = m                         \* one set bit per integer
         /\ BVLen(f, p + 1) = m + Buckets(n, w)                       \* a bucket for each slice of 0..n, no more
         /\ (w >= 31 => \A i \in 1..m : SetToSortSeq(BVOnes(f, p + 1), <)[i] = i - 1)
         /\ LET it == SparseItems(f, p) IN
              /\ \A i \in 1..m : it[i] < n
              /\ \A i \in 1..(m - 1) : it[i] < it[i + 1]              \* a set of positions

----------------------------------------------------------------------------
(* Run-length encoded bitvector: length n, number of set bits, samples (minimal width), 4-bit code units *)
RLSamples(p) == p + 2
RLData(f, p) == IntNext(f, p + 2)
RLNext(f, p) == IntNext(f, RLData(f, p))
\* Decoding the code units with one pass.  State: runs decoded so far, position after the last run, number of
\* set bits, phase (0 = reading the gap, 1 = reading the length), value and shift of the integer being read,
\* unit index where the current run started, pad (inside zero padding), ok.
RLDecode(f, p) ==
    LET d == RLData(f, p)
        units == IntItems(f, d)
        \* consume unit u at index idx as part of the integer being read
        Proc(s, u, idx) ==
            LET val == s.val + (u % 8) * 2^(s.shift)
                st0 == IF s.shift = 0 /\ s.phase = 0 THEN idx ELSE s.start
            IN IF u >= 8 THEN [s EXCEPT !.val = val, !.shift = s.shift + 3, !.start = st0]
               ELSE IF s.phase = 0 THEN [s EXCEPT !.gap = val, !.val = 0, !.shift = 0, !.phase = 1, !.start = st0]
               ELSE \* a complete run (gap, length - 1): its code units must lie inside one block
                    [s EXCEPT !.runs = Append(s.runs, <<s.pos + s.gap, val + 1>>),
                              !.pos = s.pos + s.gap + val + 1, !.ones = s.ones + val + 1,
                              !.blockOf = Append(s.blockOf, st0 \div 64),
                              !.ok = (st0 \div 64 = idx \div 64),
                              !.val = 0, !.shift = 0, !.phase = 0]
        step(s, j) ==
            LET u == units[j] idx == j - 1 IN
            IF ~s.ok THEN s
            ELSE IF s.pad THEN (IF idx % 64 = 0 THEN Proc([s EXCEPT !.pad = FALSE], u, idx) ELSE [s EXCEPT !.ok = (u = 0)])
            ELSE IF s.phase = 0 /\ s.shift = 0 /\ idx > 0 /\ u = 0 /\ idx % 64 # 0
                 \* a zero unit at a run boundary inside a block can only be padding (a gap of 0 exists only at position 0)
                 THEN [s EXCEPT !.pad = TRUE]
            ELSE Proc(s, u, idx)
        init == [runs |-> << >>, pos |-> 0, ones |-> 0, phase |-> 0, val |-> 0, shift |-> 0, gap |-> 0,
                 start |-> 0, pad |-> FALSE, ok |-> TRUE, blockOf |-> << >>]
    IN FoldLeft(step, init, [j \in 1..Len(units) |-> j])
RLRuns(f, p) == RLDecode(f, p).runs
RLWFCore(f, p) ==
    /\ InFile(f, p) /\ InFile(f, p + 1) /\ Small(f[p]) /\ Small(f[p + 1])
    /\ IntWF(f, p + 2) /\ IntWF(f, RLData(f, p)) /\ IntWidth(f, RLData(f, p)) = 4
    /\ LET s == RLDecode(f, p)
           n == N(f, p)
           units == IntLen(f, RLData(f, p))
           blocks == CeilDiv(units, 64)
           smp == IntItems(f, p + 2)
       IN /\ s.ok /\ s.phase = 0 /\ s.shift = 0                        \* ends at a run boundary
          /\ (s.pad => units % 64 = 0)                                 \* a final block that is not full contains no padding
          /\ s.ones = N(f, p + 1) /\ s.pos <= n
          /\ \A k \in 1..(Len(s.runs) - 1) : s.runs[k][1] + s.runs[k][2] < s.runs[k + 1][1]     \* maximal runs
          /\ Len(smp) = 2 * blocks                                     \* a sample per block
          \* sample of block b = (set bits, bits) encoded in all preceding blocks
          /\ \A b \in 0..(blocks - 1) :
                LET before == {k \in 1..Len(s.runs) : s.blockOf[k] < b}
                    last == IF before = {} THEN 0 ELSE Max(before)
                IN /\ smp[2 * b + 1] = FoldLeft(LAMBDA acc, k : acc + s.runs[k][2], 0, [k \in 1..last |-> k])
                   /\ smp[2 * b + 2] = (IF last = 0 THEN 0 ELSE s.runs[last][1] + s.runs[last][2])
\* "Samples as an integer vector with the minimal width necessary"
RLSampleWidthMinimal(f, p) == LET smp == IntItems(f, p + 2) IN IntWidth(f, p + 2) = BitLenNat(IF Len(smp) = 0 THEN 0 ELSE Max(ToSet(smp)))
RLWF(f, p) == RLWFCore(f, p) /\ RLSampleWidthMinimal(f, p)

----------------------------------------------------------------------------
(* Wavelet matrix core: width, a bitvector per level *)
CoreWidth(f, p) == N(f, p)
CoreLevelPos(f, p) == LET lp[k \in 1..(CoreWidth(f, p) + 1)] == IF k = 1 THEN p + 1 ELSE BVNext(f, lp[k - 1]) IN lp
CoreNext(f, p) == CoreLevelPos(f, p)[CoreWidth(f, p) + 1]
CoreLen(f, p) == BVLen(f, p + 1)
CoreWF(f, p) == /\ InFile(f, p) /\ Small(f[p]) /\ CoreWidth(f, p) \in 1..64
                /\ LET lp == CoreLevelPos(f, p) IN
                     \A k \in 1..CoreWidth(f, p) : BVWF(f, lp[k]) /\ BVLen(f, lp[k]) = BVLen(f, lp[1])
\* the value at offset i: walk down the levels, summing the bit values 1 << (width - 1 - level)
CoreRank(f, bp, i) == Cardinality({j \in BVOnes(f, bp) : j < i})
CoreItem(f, p, i) ==
    LET w == CoreWidth(f, p) lp == CoreLevelPos(f, p)
        down == FoldLeft(LAMBDA acc, k :
                    LET bp == lp[k] idx == acc[1] IN
                    IF RawBit(f, bp + 1, idx)
                    THEN <<(BVLen(f, bp) - Cardinality(BVOnes(f, bp))) + CoreRank(f, bp, idx), acc[2] + 2^(w - k)>>
                    ELSE <<idx - CoreRank(f, bp, idx), acc[2]>>,
                  <<i, 0>>, [k \in 1..w |-> k])
    IN down     \* <<position in the reordered vector, value>>
CoreItems(f, p) == [i \in 1..CoreLen(f, p) |-> CoreItem(f, p, i - 1)[2]]
\* the same walk with the value as the SET of its set bit positions (items that do not fit a TLC integer: up to 64 levels)
CoreItemSet(f, p, i) ==
    LET w == CoreWidth(f, p) lp == CoreLevelPos(f, p)
        down == FoldLeft(LAMBDA acc, k :
                    LET bp == lp[k] idx == acc[1] IN
                    IF RawBit(f, bp + 1, idx)
                    THEN <<(BVLen(f, bp) - Cardinality(BVOnes(f, bp))) + CoreRank(f, bp, idx), acc[2] \cup {w - k}>>
                    ELSE <<idx - CoreRank(f, bp, idx), acc[2]>>,
                  <<i, {}>>, [k \in 1..w |-> k])
    IN down[2]
CoreItemSets(f, p) == [i \in 1..CoreLen(f, p) |-> CoreItemSet(f, p, i - 1)]

(* Plain wavelet matrix: length, core, `first` packed to minimal width *)
WMCorePos(p) == p + 1
WMFirst(f, p) == CoreNext(f, p + 1)
WMNext(f, p) == IntNext(f, WMFirst(f, p))
WMWF(f, p) ==
    /\ InFile(f, p) /\ Small(f[p]) /\ CoreWF(f, p + 1) /\ CoreLen(f, p + 1) = N(f, p)
    /\ IntWF(f, WMFirst(f, p))
    /\ LET len == N(f, p)
           items == CoreItems(f, p + 1)
           first == IntItems(f, WMFirst(f, p))
       IN len > 0 =>
            /\ Len(first) = Max(ToSet(items)) + 1                     \* defined over the alphabet 0..=max
            /\ \A v \in 0..(Len(first) - 1) :
                  LET occ == {i \in 1..len : items[i] = v} IN
                  IF occ = {} THEN first[v + 1] = len               \* absent values: len
                  ELSE first[v + 1] = Min({CoreItem(f, p + 1, i - 1)[1] : i \in occ})
            /\ IntWidth(f, WMFirst(f, p)) = BitLenNat(Max(ToSet(first)))   \* bit-packed to minimal width

----------------------------------------------------------------------------
(* ENCODER: files written from the document's rules alone *)

EncVec(elems) == <<Nat2E(Len(elems))>> \o elems
\* bits: sequence of BOOLEAN
EncRawBits(bits) == LET n == Len(bits) IN
    <<Nat2E(n)>> \o EncVec([k \in 1..CeilDiv(n, 64) |-> {j \in 0..63 : 64 * (k - 1) + j < n /\ bits[64 * (k - 1) + j + 1]}])
\* items: naturals below 2^w (and below 2^31: bits 31 .. w - 1 of an item are 0, for any width up to 64)
NatBit(v, j) == IF j >= 31 THEN FALSE ELSE (v \div 2^j) % 2 = 1
EncInt(w, items) == <<Nat2E(Len(items)), Nat2E(w)>> \o
    EncRawBits([k \in 1..(Len(items) * w) |-> NatBit(items[((k - 1) \div w) + 1], (k - 1) % w)])
Absent == <<{}>>
\* bits: sequence of BOOLEAN, support structures absent
EncBV(bits) == <<Nat2E(Cardinality({i \in 1..Len(bits) : bits[i]}))>> \o EncRawBits(bits) \o Absent \o Absent \o Absent
\* n: universe (below 2^31), ps: increasing sequence of positions, w: low width - ANY width 1..64 the document admits
\* (for w >= 31 every position is its own low part and there is a single bucket)
EncSparse(n, ps, w) ==
    LET m == Len(ps)
        nb == Buckets(n, w)
        \* high: for each bucket its integers as 1s, then a 0
        highOnes == {(IF w >= 31 THEN 0 ELSE ps[i] \div 2^w) + (i - 1) : i \in 1..m}
        high == [k \in 1..(m + nb) |-> (k - 1) \in highOnes]
    IN <<Nat2E(n)>> \o EncBV(high) \o EncInt(w, [i \in 1..m |-> IF w >= 31 THEN ps[i] ELSE ps[i] % 2^w])
\* code units of a natural, little-endian 3-bit payload with continuation flag
RECURSIVE Units(_)
Units(v) == IF v < 8 THEN <<v>> ELSE <<(v % 8) + 8>> \o Units(v \div 8)
\* n: length, runs: maximal runs <<start, len>>, extra: additional sample width
EncRL(n, runs, extra) ==
    LET place == FoldLeft(LAMBDA acc, k :
                     LET prevEnd == IF k = 1 THEN 0 ELSE runs[k - 1][1] + runs[k - 1][2]
                         code == Units(runs[k][1] - prevEnd) \o Units(runs[k][2] - 1)
                         used == Len(acc.data)
                         room == IF used % 64 = 0 /\ used > 0 THEN 0 ELSE 64 - (used % 64)
                         newBlock == used = 0 \/ Len(code) > room
                         padded == IF newBlock /\ used > 0 THEN acc.data \o [j \in 1..(IF used % 64 = 0 THEN 0 ELSE 64 - (used % 64)) |-> 0] ELSE acc.data
                     IN [data |-> padded \o code,
                         samples |-> IF newBlock THEN acc.samples \o <<acc.ones, prevEnd>> ELSE acc.samples,
                         ones |-> acc.ones + runs[k][2]],
                   [data |-> << >>, samples |-> << >>, ones |-> 0], [k \in 1..Len(runs) |-> k])
        sw == BitLenNat(IF Len(place.samples) = 0 THEN 0 ELSE Max(ToSet(place.samples))) + extra
    IN <<Nat2E(n), Nat2E(place.ones)>> \o EncInt(sw, place.samples) \o EncInt(4, place.data)
\* vals: sequence of naturals; levels without support structures
EncCore(vals) ==
    LET w == BitLenNat(IF Len(vals) = 0 THEN 0 ELSE Max(ToSet(vals)))
        lv == FoldLeft(LAMBDA acc, k :
                  LET cur == acc.cur
                      bit(i) == (cur[i] \div 2^(w - k)) % 2 = 1
                      zeros == SelectSeq(cur, LAMBDA x : (x \div 2^(w - k)) % 2 = 0)
                      ones == SelectSeq(cur, LAMBDA x : (x \div 2^(w - k)) % 2 = 1)
                  IN [cur |-> zeros \o ones, out |-> acc.out \o EncBV([i \in 1..Len(cur) |-> bit(i)])],
                [cur |-> vals, out |-> << >>], [k \in 1..w |-> k])
    IN [file |-> <<Nat2E(w)>> \o lv.out, sorted |-> lv.cur]
\* vals: sequence of sets of bit positions, w levels (w = 1 + the highest position; at least 1)
EncCoreSets(vals, w) ==
    LET lv == FoldLeft(LAMBDA acc, k :
                  LET cur == acc.cur
                      zeros == SelectSeq(cur, LAMBDA x : (w - k) \notin x)
                      ones == SelectSeq(cur, LAMBDA x : (w - k) \in x)
                  IN [cur |-> zeros \o ones, out |-> acc.out \o EncBV([i \in 1..Len(cur) |-> (w - k) \in cur[i]])],
                [cur |-> vals, out |-> << >>], [k \in 1..w |-> k])
    IN <<Nat2E(w)>> \o lv.out
EncWM(vals) ==
    LET c == EncCore(vals)
        len == Len(vals)
        mx == IF len = 0 THEN 0 ELSE Max(ToSet(vals))
        first == [v \in 1..(mx + 1) |-> LET occ == {i \in 1..len : c.sorted[i] = v - 1} IN IF occ = {} THEN len ELSE Min(occ) - 1]
    IN <<Nat2E(len)>> \o c.file \o EncInt(BitLenNat(Max(ToSet(first) \cup {0})), first)
=============================================================================
