----------------------------- MODULE MC_MSRef64 -----------------------------
(* The U64 multiset semantics agrees with MSRef on every multiset over a universe <= MaxU with <= MaxVals
   values and every argument (small numbers), and a huge argument behaves as any argument beyond the end. *)
EXTENDS MSRef64, TLC
MR == INSTANCE MSRef
CONSTANTS MaxU, MaxVals
VARIABLES u, vals
vars == <<u, vals>>
NonDec(s) == \A k \in 1..(Len(s) - 1) : s[k] <= s[k + 1]
Init == /\ u \in 0..MaxU
        /\ \E n \in 0..MaxVals : vals \in {s \in [1..n -> 0..(MaxU - 1)] : NonDec(s) /\ \A k \in 1..n : s[k] < u}
Next == UNCHANGED vars
Distinct == SetToSortSeq(ToSet(vals), <)
M64 == [universe |-> FromNat(u), items |-> [k \in 1..Len(Distinct) |-> <<FromNat(Distinct[k]), Cardinality({j \in 1..Len(vals) : vals[j] = Distinct[k]})>>]]
M == [universe |-> u, vals |-> vals]
Lift(x) == IF x < 0 THEN None64 ELSE FromNat(x)
LiftPair(p) == <<Lift(p[1]), Lift(p[2])>>
Agree ==
    /\ WellFormedM64(M64)
    /\ Count64(M64) = MR!CountOnes(M)
    /\ CountZeros64(M64) = FromNat(MR!CountZeros(M))
    /\ IsMultiset64(M64) = MR!IsMultiset(M)
    /\ \A a \in 0..(MaxU + 1) :
          /\ RankM64(M64, FromNat(a)) = FromNat(MR!Rank(M, a))
          /\ PredM64(M64, FromNat(a)) = LiftPair(MR!Pred(M, a))
          /\ SuccM64(M64, FromNat(a)) = LiftPair(MR!Succ(M, a))
          /\ (a < u => GetM64(M64, FromNat(a)) = MR!Get(M, a))
    /\ \A r \in 0..(MaxVals + 1) : SelectM64(M64, FromNat(r)) = Lift(MR!Select(M, r))
    /\ RankM64(M64, Max64) = FromNat(MR!Rank(M, -1)) /\ SelectM64(M64, Max64) = None64
    /\ PredM64(M64, Max64) = LiftPair(MR!Pred(M, -1)) /\ SuccM64(M64, Max64) = NoPair64
=============================================================================
