----------------------------- MODULE MC_Format -----------------------------
(***************************************************************************)
(* Consistency of the document-derived codec: for every small-scope        *)
(* content and every admissible writer-side choice, the encoder's output   *)
(* is well-formed for the decoder, decodes to the same content, and the    *)
(* decoder consumes exactly the file.  (Encoder and decoder are written    *)
(* independently from SERIALIZATION.md; this is the cross-check that makes *)
(* each usable as the oracle for one conformance direction.)               *)
(* The same module is the behaviour generator for direction 2              *)
(* (document -> library): Emit prints the file and its content.            *)
(***************************************************************************)
EXTENDS Format, TLC, Json
CONSTANTS Kind, MaxBits, MaxN

VARIABLE c
Bits(k) == [1..k -> BOOLEAN]
SeqToSet(s) == {s[i] : i \in 1..Len(s)}
RunLists == LET cls == {1, 2, 8, 9, 64, 70} IN
    {<< >>} \cup {<<<<g, n>>>> : g \in cls \cup {0}, n \in cls}
    \cup {<<<<g, n>>, <<g + n + g2, n2>>>> : g \in {0, 1, 9}, n \in {1, 8, 70}, g2 \in {1, 64}, n2 \in {2, 9}}
ManyRuns(k, gap, n) == [i \in 1..k |-> <<(i - 1) * (gap + n) + gap, n>>]
RLCases == {[runs |-> r, tail |-> t, extra |-> e] : r \in RunLists, t \in {0, 3}, e \in {0, 2}}
           \cup {[runs |-> ManyRuns(k, g, n), tail |-> t, extra |-> 0] : k \in {31, 32, 33, 70}, g \in {1, 9}, n \in {1, 8}, t \in {0, 5}}
Vecs(A, k) == UNION {[1..j -> A] : j \in 0..k}

Init == \/ Kind = "raw" /\ \E k \in 0..MaxBits : \E b \in Bits(k) : c = [t |-> "raw", bits |-> b]
        \/ Kind = "raw" /\ \E k \in {63, 64, 65, 128, 129} : \E ones \in {{}, {0}, {k - 1}, {0, 63, k - 1}} : c = [t |-> "raw", bits |-> [i \in 1..k |-> (i - 1) \in ones]]
        \/ Kind = "int" /\ \E w \in {1, 3, 7, 13} : \E items \in Vecs({0, 1, 2^w - 1}, 3) : c = [t |-> "int", w |-> w, items |-> items]
        \/ Kind = "bv" /\ \E k \in 0..MaxBits : \E b \in Bits(k) : c = [t |-> "bv", bits |-> b]
        \/ Kind = "sparse" /\ \E n \in 0..MaxN : \E S \in SUBSET (0..(n - 1)) : \E w \in 1..3 : c = [t |-> "sparse", n |-> n, ps |-> SetToSortSeq(S, <), w |-> w]
        \/ Kind = "sparse" /\ \E n \in {100, 1000} : \E S \in {{}, {0}, {n - 1}, {0, 7, 8, 63, 64, n - 1}} : \E w \in {1, 3, 6, 9} : c = [t |-> "sparse", n |-> n, ps |-> SetToSortSeq(S, <), w |-> w]
        \* every low-part width the document admits is a writer-side choice: wide ones (a single bucket), up to the 64 bits of an integer vector
        \/ Kind = "sparse" /\ \E n \in {1, 100} : \E S \in {{}, {0}, {n - 1}, {3, 50} \cap (0..(n - 1))} : \E w \in {7, 20, 31, 32, 33, 62, 63, 64} : c = [t |-> "sparse", n |-> n, ps |-> SetToSortSeq(S, <), w |-> w]
        \/ Kind = "rl" /\ \E r \in RLCases : c = [t |-> "rl", runs |-> r.runs, extra |-> r.extra,
                                                   n |-> (IF Len(r.runs) = 0 THEN 0 ELSE r.runs[Len(r.runs)][1] + r.runs[Len(r.runs)][2]) + r.tail]
        \/ Kind = "wm" /\ \E v \in Vecs({0, 1, 2, 3}, 4) \cup Vecs({0, 5}, 3) \cup Vecs({7}, 2) : \E core \in BOOLEAN : c = [t |-> IF core THEN "wmcore" ELSE "wm", vals |-> v]
        \* cores with up to 64 levels: items given as sets of bit positions
        \/ Kind = "wm" /\ \E v \in Vecs({{}, {63}, {0, 63}, {5, 62}}, 3) \cup Vecs({{40}, {0}}, 2) : c = [t |-> "wmcore64", vals |-> v]
Next == UNCHANGED c
WidthOfSets(v) == IF UNION SeqToSet(v) = {} THEN 1 ELSE 1 + (CHOOSE b \in UNION SeqToSet(v) : \A x \in UNION SeqToSet(v) : x <= b)

File == CASE c.t = "raw" -> EncRawBits(c.bits)
          [] c.t = "int" -> EncInt(c.w, c.items)
          [] c.t = "bv" -> EncBV(c.bits)
          [] c.t = "sparse" -> EncSparse(c.n, c.ps, c.w)
          [] c.t = "rl" -> EncRL(c.n, c.runs, c.extra)
          [] c.t = "wmcore" -> EncCore(c.vals).file
          [] c.t = "wm" -> EncWM(c.vals)
          [] c.t = "wmcore64" -> EncCoreSets(c.vals, WidthOfSets(c.vals))

OnesOfBits(b) == {i - 1 : i \in {j \in 1..Len(b) : b[j]}}
RoundTrip ==
    LET f == File IN
    CASE c.t = "raw" -> RawWF(f, 1) /\ RawLen(f, 1) = Len(c.bits) /\ RawOnes(f, 1) = OnesOfBits(c.bits) /\ RawNext(f, 1) = Len(f) + 1
      [] c.t = "int" -> IntWF(f, 1) /\ IntWidth(f, 1) = c.w /\ IntItems(f, 1) = c.items /\ IntNext(f, 1) = Len(f) + 1
      [] c.t = "bv" -> BVWF(f, 1) /\ BVLen(f, 1) = Len(c.bits) /\ BVOnes(f, 1) = OnesOfBits(c.bits) /\ BVNext(f, 1) = Len(f) + 1
                       /\ BVSupports(f, 1) = <<FALSE, FALSE, FALSE>>
      [] c.t = "sparse" -> SparseWF(f, 1) /\ SparseN(f, 1) = c.n /\ SparseItems(f, 1) = c.ps /\ SparseNext(f, 1) = Len(f) + 1
      [] c.t = "rl" -> RLWFCore(f, 1) /\ (c.extra = 0 => RLSampleWidthMinimal(f, 1)) /\ N(f, 1) = c.n /\ RLRuns(f, 1) = c.runs /\ RLNext(f, 1) = Len(f) + 1
      [] c.t = "wmcore" -> CoreWF(f, 1) /\ CoreItems(f, 1) = c.vals /\ CoreNext(f, 1) = Len(f) + 1
      [] c.t = "wm" -> WMWF(f, 1) /\ CoreItems(f, 2) = c.vals /\ WMNext(f, 1) = Len(f) + 1
      [] c.t = "wmcore64" -> CoreWF(f, 1) /\ CoreWidth(f, 1) = WidthOfSets(c.vals) /\ CoreItemSets(f, 1) = c.vals /\ CoreNext(f, 1) = Len(f) + 1

\* elements as sorted position lists for the harness
ElemsOut(f) == [k \in 1..Len(f) |-> SetToSortSeq(f[k], <)]
Content == CASE c.t \in {"raw", "bv"} -> [len |-> Len(c.bits), ones |-> SetToSortSeq(OnesOfBits(c.bits), <)]
             [] c.t = "int" -> [w |-> c.w, items |-> c.items]
             [] c.t = "sparse" -> [len |-> c.n, ones |-> c.ps, w |-> c.w]
             [] c.t = "rl" -> [len |-> c.n, runs |-> c.runs]
             [] c.t = "wmcore64" -> [vals |-> [i \in 1..Len(c.vals) |-> SetToSortSeq(c.vals[i], <)]]
             [] OTHER -> [vals |-> c.vals]
Emit == RoundTrip /\ PrintT(<<"REPLAY", ToJson([k |-> "format", t |-> c.t, elems |-> ElemsOut(File), content |-> Content])>>)
=============================================================================
