---------------------------- MODULE MC_VecRef ----------------------------
(* Self-consistency of the Layer A vector semantics on all small vectors: mapping up inverts mapping
   down, the reordering is the stable sort by reversed bits, the closed form of map_up equals its
   definition, select inverts rank. *)
EXTENDS VecRef, TLC
CONSTANTS Alpha, MaxLen
VARIABLE V
Init == \E k \in 0..MaxLen : V \in [1..k -> Alpha]
Next == UNCHANGED V
Inv == /\ UpInvertsDown(V)
       /\ SortedByKey(V)
       /\ UpMatchesDef(V)
       /\ \A i \in 0..(Len(V) - 1) : LET p == VInvSelect(V, i) IN VSelect(V, p[1], p[2]) = i
=============================================================================
