----------------------------- MODULE TraceFaults -----------------------------
(* Trace specification for writers whose file cannot grow beyond `limit` bytes.  Layer A
   (NoSilentLoss): a writer that cannot write all its data reports the failure - the constructor
   returns an error, a push panics as documented, or close returns an error - and never reports
   success for an incomplete file; and when the limit is not reached nothing fails. *)
EXTENDS Naturals, TraceCommon
VARIABLES l
vars == <<l>>
TraceInit == l = 1
Success(e) == e.ctor = "ok" /\ ~e.push_panicked /\ e.close = "ok"
Reported(e) == e.ctor = "err" \/ e.push_panicked \/ e.close = "err"
Run == /\ l <= Len(Rec) /\ Rec[l].e = "wl"
       /\ LET e == Rec[l] IN
            /\ Success(e) \/ Reported(e)                       \* nothing else (e.g. a panic in close or the constructor)
            /\ (Success(e) => e.file_complete)                 \* NoSilentLoss
            \* ... also later: closing again after a failed close, or after a caught push panic, while the limit
            \* still holds, reports the failure again (never "ok" for the incomplete file, never a panic in close)
            /\ (e.close_again = "ok" => e.file_complete)
            /\ e.close_again \in {"not reached", "ok", "err"}
            /\ (e.limit >= e.final_size => Success(e))         \* no spurious failure
            /\ (e.limit < e.final_size => ~e.file_complete)    \* sanity: the limit really bites
       /\ l' = l + 1
\* serialize::serialize_to on a file that cannot grow beyond `limit` bytes (or on /dev/full): an error is returned -
\* never a panic, never Ok for an incomplete file - and nothing fails when the file can take the structure
To == /\ l <= Len(Rec) /\ Rec[l].e = "st"
      /\ LET e == Rec[l] IN
           /\ e.result \in {"ok", "err"}
           /\ (e.result = "ok" => e.file_complete)
           /\ (e.limit >= e.size => e.result = "ok")
      /\ l' = l + 1
TraceNext == Run \/ To
TraceSpec == TraceInit /\ [][TraceNext]_vars
=============================================================================
