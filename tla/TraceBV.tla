------------------------------ MODULE TraceBV ------------------------------
(***************************************************************************)
(* Trace specification for bitvector objects (plain, sparse, run-length):  *)
(* the recorded construction and query events of the real library must be  *)
(* steps of the Layer A bitvector machine (BVRef semantics).               *)
(*                                                                         *)
(* Events:                                                                 *)
(*   def : an object was built from content (len, maximal runs) by some    *)
(*         public route; `built` says whether construction returned, `obs` *)
(*         = <<len(), count_ones(), count_zeros()>> of the real object.    *)
(*   q   : a batch of calls of one query on the current object: arguments  *)
(*         `a` (naturals or huge tokens) and the real results `r`.         *)
(* A -8 result is a panic of the real code: never a defined answer.        *)
(***************************************************************************)
EXTENDS BVRef, TraceCommon

VARIABLES l, cur
vars == <<l, cur>>

Answer(B, op, a) ==
    CASE op = "get"   -> IF GetF(B, a) THEN 1 ELSE 0
      [] op = "rank"  -> RankF(B, a)
      [] op = "rank0" -> RankZeroF(B, a)
      [] op = "sel"   -> SelectF(B, a)
      [] op = "sel0"  -> SelectZeroF(B, a)
      [] op = "seli"  -> LET s == SelectF(B, a) IN IF s = None THEN NoPair ELSE <<a, s>>
      [] op = "sel0i" -> LET s == SelectZeroF(B, a) IN IF s = None THEN NoPair ELSE <<a, s>>
      [] op = "pred"  -> PredF(B, a)
      [] op = "succ"  -> SuccF(B, a)

\* The domain in which the property defines an answer.
InDomain(B, op, a) ==
    CASE op = "get"   -> a >= 0 /\ a < B.len
      [] op = "rank0" -> a >= 0 /\ a <= B.len
      [] OTHER        -> TRUE

TraceInit == l = 1 /\ cur = [len |-> 0, runs |-> << >>, cum |-> << >>]

Build ==
    /\ l <= Len(Rec) /\ Rec[l].e = "def"
    /\ LET e == Rec[l]
           B == [len |-> e.len, runs |-> e.runs, cum |-> e.cum]
       IN /\ WellFormed(B)
          /\ CumOK(B)
          /\ e.built = "ok"
          /\ e.obs = <<B.len, OnesF(B), ZerosF(B)>>
          /\ cur' = B
    /\ l' = l + 1

Query ==
    /\ l <= Len(Rec) /\ Rec[l].e = "q"
    /\ LET e == Rec[l] IN
         \A j \in 1..Len(e.a) : InDomain(cur, e.op, e.a[j]) /\ e.r[j] = Answer(cur, e.op, e.a[j])
    /\ UNCHANGED cur
    /\ l' = l + 1

\* The run iterator of the run-length vector yields exactly the maximal runs with running counters.
RunIter ==
    /\ l <= Len(Rec) /\ Rec[l].e = "runs"
    /\ Len(Rec[l].items) = Len(cur.runs)
    /\ \A k \in 1..Len(cur.runs) : Rec[l].items[k] = RunItemF(cur, k)
    /\ UNCHANGED cur
    /\ l' = l + 1

TraceNext == Build \/ Query \/ RunIter
TraceSpec == TraceInit /\ [][TraceNext]_vars

\* Layer A invariant evaluated in every state of the validated trace.
ObjWellFormed == WellFormed(cur) /\ CumOK(cur)
=============================================================================
