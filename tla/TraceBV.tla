------------------------------ MODULE TraceBV ------------------------------
(***************************************************************************)
(* Trace specification for bitvector objects (plain, sparse, run-length):  *)
(* the recorded construction and query events of the real library must be  *)
(* steps of the Layer A bitvector machine (BVRef semantics).               *)
(*                                                                         *)
(* Events:                                                                 *)
(*   def : an object was built from content (len, maximal runs) by some    *)
(*         public route; `built` says whether construction returned, `obs` *)
(*         = <<len(), count_ones(), count_zeros()>> of the real object.    *)
(*   q   : a batch of calls of one query on the current object: arguments  *)
(*         `a` (naturals or huge tokens) and the real results `r`.         *)
(* A -8 result is a panic of the real code: never a defined answer.        *)
(***************************************************************************)
EXTENDS BVRef, TraceCommon

VARIABLES l, cur
vars == <<l, cur>>

\* the j-th item after the pair p of an iterator over the set (unset) bits
FollowOne(B, p, j) == IF p = NoPair THEN NoPair ELSE LET s == SelectF(B, p[1] + j) IN IF s = None THEN NoPair ELSE <<p[1] + j, s>>
FollowZero(B, p, j) == IF p = NoPair THEN NoPair ELSE LET s == SelectZeroF(B, p[1] + j) IN IF s = None THEN NoPair ELSE <<p[1] + j, s>>
Answer(B, op, a) ==
    CASE op = "get"   -> IF GetF(B, a) THEN 1 ELSE 0
      [] op = "rank"  -> RankF(B, a)
      [] op = "rank0" -> RankZeroF(B, a)
      [] op = "sel"   -> SelectF(B, a)
      [] op = "sel0"  -> SelectZeroF(B, a)
      [] op = "seli"  -> LET s == SelectF(B, a) IN IF s = None THEN NoPair ELSE <<a, s>>
      [] op = "sel0i" -> LET s == SelectZeroF(B, a) IN IF s = None THEN NoPair ELSE <<a, s>>
      [] op = "pred"  -> PredF(B, a)
      [] op = "succ"  -> SuccF(B, a)
      \* the iterators returned by the queries keep going in rank order
      [] op = "seli2"  -> FollowOne(B, LET s == SelectF(B, a) IN IF s = None THEN NoPair ELSE <<a, s>>, 1)
      [] op = "sel0i2" -> FollowZero(B, LET s == SelectZeroF(B, a) IN IF s = None THEN NoPair ELSE <<a, s>>, 1)
      [] op = "pred2" -> FollowOne(B, PredF(B, a), 1)
      [] op = "succ2" -> FollowOne(B, SuccF(B, a), 1)
      [] op = "pred3" -> FollowOne(B, PredF(B, a), 2)
      [] op = "succ3" -> FollowOne(B, SuccF(B, a), 2)

\* The domain in which the property defines an answer.
InDomain(B, op, a) ==
    CASE op = "get"   -> a >= 0 /\ a < B.len
      [] op = "rank0" -> a >= 0 /\ a <= B.len
      [] OTHER        -> TRUE

\* Every query event names the line of the `def` event of its object (`d`); no other def lies in between.
\* All verdicts depend only on the event and that def event, so they are computed at constant level
\* (TLC evaluates heavy operators about 1000 times faster there than inside an action).
ObjAt(j) == [len |-> Rec[j].len, runs |-> Rec[j].runs, cum |-> Rec[j].cum]
DefOK(j) == LET e == Rec[j] B == ObjAt(j) IN
            /\ WellFormed(B) /\ CumOK(B)
            /\ e.built = "ok"
            /\ e.obs = <<B.len, OnesF(B), ZerosF(B)>>
Refers(j) == LET d == Rec[j].d IN d >= 1 /\ d < j /\ Rec[d].e = "def" /\ \A k \in (d + 1)..(j - 1) : Rec[k].e # "def"
QueryOK(j) == LET e == Rec[j] B == ObjAt(e.d) IN
              Refers(j) /\ \A i \in 1..Len(e.a) : InDomain(B, e.op, e.a[i]) /\ e.r[i] = Answer(B, e.op, e.a[i])
RunsOK(j) == LET B == ObjAt(Rec[j].d) IN
             Refers(j) /\ Len(Rec[j].items) = Len(B.runs) /\ \A k \in 1..Len(B.runs) : Rec[j].items[k] = RunItemF(B, k)
Verdict == [j \in 1..Len(Rec) |-> CASE Rec[j].e = "def" -> DefOK(j) [] Rec[j].e = "q" -> QueryOK(j) [] Rec[j].e = "runs" -> RunsOK(j) [] OTHER -> FALSE]

TraceInit == l = 1 /\ cur = 0
\* cur = line of the current object's def event (0 = none)
Event == /\ l <= Len(Rec) /\ Verdict[l]
         /\ cur' = IF Rec[l].e = "def" THEN l ELSE cur
         /\ l' = l + 1
TraceNext == Event
TraceSpec == TraceInit /\ [][TraceNext]_vars

\* Layer A invariant evaluated in every state of the validated trace: queries refer to the current object.
ObjWellFormed == l > 1 /\ Rec[l - 1].e # "def" => Rec[l - 1].d = cur
=============================================================================
