---------------------------- MODULE TraceBuilder ----------------------------
(***************************************************************************)
(* Trace specification for builder histories: every recorded call on a     *)
(* real SparseBuilder / RLBuilder must be a step of SDSBuilder!BStep with  *)
(* the defined result and observables (in particular UNCHANGED after a     *)
(* refusal), and the converted vector must hold exactly the accepted       *)
(* positions (for the run-length vector: reported as maximal runs).        *)
(***************************************************************************)
EXTENDS SDSBuilder, TraceCommon

VARIABLES l, b
vars == <<l, b>>

TraceInit == l = 1 /\ b = NewRL

Construct(i) == CASE i.op = "new" -> NewSparse(i.u, i.m, FALSE)
                  [] i.op = "multiset" -> NewSparse(i.u, i.m, TRUE)
                  [] i.op = "rl" -> NewRL

New == /\ l <= Len(Rec) /\ Rec[l].e = "b_new"
       /\ LET s == Construct(Rec[l].init) IN
            /\ (Rec[l].init.op = "new" => NewSparseOK(Rec[l].init.u, Rec[l].init.m))
            /\ Rec[l].obs = Obs(s)
            /\ b' = s
       /\ l' = l + 1

Call == /\ l <= Len(Rec) /\ Rec[l].e = "b_call"
        /\ LET r == BStep(b, Rec[l].c) IN
             /\ Rec[l].res = r.res
             /\ Rec[l].obs = Obs(r.b)
             /\ b' = r.b
        /\ l' = l + 1

\* maximal runs of a sorted sequence of distinct positions
RunsOfSorted(ps) == FoldLeft(LAMBDA acc, p : IF Len(acc) > 0 /\ acc[Len(acc)][1] + acc[Len(acc)][2] = p
                                             THEN [acc EXCEPT ![Len(acc)] = <<acc[Len(acc)][1], acc[Len(acc)][2] + 1>>]
                                             ELSE Append(acc, <<p, 1>>), << >>, ps)

Finish == /\ l <= Len(Rec) /\ Rec[l].e = "b_finish"
          /\ LET f == Rec[l].fin IN
               IF FinishOK(b)
               THEN /\ f.ok = TRUE /\ f.len = FinalLen(b) /\ f.ones = FinalOnes(b)
                    /\ (b.kind = "rl" => f.runs = RunsOfSorted(FinalOnes(b)))
               ELSE f.ok = FALSE
          /\ UNCHANGED b /\ l' = l + 1

TraceNext == New \/ Call \/ Finish
TraceSpec == TraceInit /\ [][TraceNext]_vars
Inv == BuilderOK(b)
=============================================================================
