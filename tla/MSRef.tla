------------------------------- MODULE MSRef -------------------------------
(***************************************************************************)
(* Layer A reference semantics of a sparse vector built as a MULTISET      *)
(* (SparseBuilder::multiset, SparseVector::try_from_iter): a record        *)
(* [universe |-> u, vals |-> non-decreasing sequence of values below u].   *)
(* Only the present-value queries are defined (no rank_zero / select_zero  *)
(* / zero iterators).  Arguments: naturals or a negative huge token.       *)
(***************************************************************************)
EXTENDS Naturals, Integers, Sequences, FiniteSets, SequencesExt

None == -1
NoPair == <<-1, -1>>
Huge(a) == a < 0

WellFormed(M) == /\ \A k \in 1..Len(M.vals) : M.vals[k] >= 0 /\ M.vals[k] < M.universe
                 /\ \A k \in 1..(Len(M.vals) - 1) : M.vals[k] <= M.vals[k + 1]

Len_(M) == M.universe
CountOnes(M) == Len(M.vals)
CountZeros(M) == IF Len(M.vals) >= M.universe THEN 0 ELSE M.universe - Len(M.vals)      \* saturates
IsMultiset(M) == \E k \in 1..(Len(M.vals) - 1) : M.vals[k] = M.vals[k + 1]

Get(M, i) == \E k \in 1..Len(M.vals) : M.vals[k] = i
Rank(M, i) == IF Huge(i) \/ i >= M.universe THEN Len(M.vals) ELSE Cardinality({k \in 1..Len(M.vals) : M.vals[k] < i})
Select(M, r) == IF Huge(r) \/ r >= Len(M.vals) THEN None ELSE M.vals[r + 1]
\* first occurrence of the least value >= v
Succ(M, v) == IF Huge(v) \/ v >= M.universe THEN NoPair
              ELSE LET r == Rank(M, v) IN IF r >= Len(M.vals) THEN NoPair ELSE <<r, M.vals[r + 1]>>
\* last occurrence of the greatest value <= min(v, universe - 1)
Pred(M, v) == IF M.universe = 0 THEN NoPair
              ELSE LET w == IF Huge(v) \/ v >= M.universe THEN M.universe - 1 ELSE v
                       c == Cardinality({k \in 1..Len(M.vals) : M.vals[k] <= w})
                   IN IF c = 0 THEN NoPair ELSE <<c - 1, M.vals[c]>>
OnePairs(M) == [k \in 1..Len(M.vals) |-> <<k - 1, M.vals[k]>>]
\* the bit iterator lists the distinct positions
Bits(M) == [i \in 1..M.universe |-> Get(M, i - 1)]

\* try_from_iter accepts exactly the non-decreasing sequences and sizes the universe to last + 1
NonDecreasing(s) == \A k \in 1..(Len(s) - 1) : s[k] <= s[k + 1]
FromIter(s) == [universe |-> IF Len(s) = 0 THEN 0 ELSE s[Len(s)] + 1, vals |-> s]
=============================================================================
