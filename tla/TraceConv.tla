------------------------------ MODULE TraceConv ------------------------------
(* Trace specification for conversion / support-structure histories on large real objects: every
   recorded step must be a step of SDSConv!CStep; the object keeps the defined content, reports the
   defined support flags, and is equal to and byte-identical with the directly built structure. *)
EXTENDS SDSConv, TraceCommon
VARIABLES l, content, o
vars == <<l, content, o>>
TraceInit == l = 1 /\ content = [len |-> 0, runs |-> << >>] /\ o = NewObj("plain")
Def == /\ l <= Len(Rec) /\ Rec[l].e = "def"
       /\ content' = [len |-> Rec[l].len, runs |-> Rec[l].runs] /\ UNCHANGED o /\ l' = l + 1
New == /\ l <= Len(Rec) /\ Rec[l].e = "o_new"
       /\ o' = NewObj(Rec[l].type) /\ UNCHANGED content /\ l' = l + 1
Call == /\ l <= Len(Rec) /\ Rec[l].e = "o_call"
        /\ LET e == Rec[l] n == CStep(o, e.c) IN
             /\ e.type = n.type
             /\ e.flags = Flags(n)
             /\ e.len = content.len /\ e.runs = content.runs
             /\ e.eq = TRUE /\ e.bytes_eq = TRUE
             /\ o' = n
        /\ UNCHANGED content /\ l' = l + 1
TraceNext == Def \/ New \/ Call
TraceSpec == TraceInit /\ [][TraceNext]_vars
=============================================================================
