------------------------------ MODULE TraceConv ------------------------------
(* Trace specification for conversion / support-structure histories on large real objects: every
   recorded step must be a step of SDSConv!CStep; the object keeps the defined content, reports the
   defined support flags, answers sampled queries through every reported support as BVRef defines, and is
   equal to and byte-identical with the directly built structure. *)
EXTENDS SDSConv, BVRef, TraceCommon
AnswerOf(B, op, a) ==
    CASE op = "rank"  -> RankF(B, a)
      [] op = "sel"   -> SelectF(B, a)
      [] op = "sel0"  -> SelectZeroF(B, a)
      [] op = "pred"  -> PredF(B, a)
      [] op = "succ"  -> SuccF(B, a)
VARIABLES l, content, o
vars == <<l, content, o>>
TraceInit == l = 1 /\ content = [len |-> 0, runs |-> << >>, cum |-> << >>] /\ o = NewObj("plain")
Def == /\ l <= Len(Rec) /\ Rec[l].e = "def"
       /\ content' = [len |-> Rec[l].len, runs |-> Rec[l].runs, cum |-> Rec[l].cum] /\ CumOK(content') /\ UNCHANGED o /\ l' = l + 1
New == /\ l <= Len(Rec) /\ Rec[l].e = "o_new"
       /\ o' = NewObj(Rec[l].type) /\ UNCHANGED content /\ l' = l + 1
Call == /\ l <= Len(Rec) /\ Rec[l].e = "o_call"
        /\ LET e == Rec[l] n == CStep(o, e.c) IN
             /\ e.type = n.type
             /\ e.flags = Flags(n)
             /\ e.len = content.len /\ e.runs = content.runs
             /\ e.eq = TRUE /\ e.bytes_eq = TRUE
             \* the answers through every reported support are the defined ones (whatever the history)
             /\ \A i \in 1..Len(e.ans) : e.ans[i].r = AnswerOf(content, e.ans[i].op, e.ans[i].a)
             /\ o' = n
        /\ UNCHANGED content /\ l' = l + 1
TraceNext == Def \/ New \/ Call
TraceSpec == TraceInit /\ [][TraceNext]_vars
=============================================================================
