----------------------------- MODULE TraceGiant -----------------------------
(***************************************************************************)
(* Raw vectors and plain bitvectors beyond 2^32 bits: the COUNTS.  A vector *)
(* this large cannot be projected bit by bit into a trace, but its length   *)
(* and its number of set bits follow a machine over two 64-bit numbers      *)
(* (3 x 24-bit limbs, module U64): with_len(n, b) gives (n, n or 0);        *)
(* set_bit(i, b) on a bit whose previous value was logged changes ones by   *)
(* at most one; push_bit(b) adds a bit; pop_bit removes the logged bit;     *)
(* resize(n, b) with n >= len adds n - len bits of value b; conversions     *)
(* (BitVector::from, RawVector::from, clone, complement) keep or complement *)
(* the counts.  Every event carries the len() and count_ones() the real     *)
(* object reported after the call; they must be the machine's.              *)
(***************************************************************************)
EXTENDS U64, TraceCommon
VARIABLES l, len, ones
vars == <<l, len, ones>>
TraceInit == l = 1 /\ len = Zero64 /\ ones = Zero64

B(v) == IF v = 1 THEN One64 ELSE Zero64
After(e, n, o) ==
    CASE e.op = "with_len" -> <<e.n, IF e.b = 1 THEN e.n ELSE Zero64>>
      [] e.op = "set_bit"  -> <<n, Add64(Sub64(o, B(e.old)), B(e.b))>>
      [] e.op = "push_bit" -> <<Add64(n, One64), Add64(o, B(e.b))>>
      [] e.op = "pop_bit"  -> <<Sub64(n, One64), Sub64(o, B(e.old))>>
      [] e.op = "grow"     -> <<e.n, IF e.b = 1 THEN Add64(o, Sub64(e.n, n)) ELSE o>>     \* resize to n >= len
      [] e.op = "complement" -> <<n, Sub64(n, o)>>
      [] OTHER             -> <<n, o>>                                                   \* to_plain, to_raw, clone, reload
Step == /\ l <= Len(Rec)
        /\ LET e == Rec[l] a == After(e, len, ones) IN
             /\ e.len = a[1] /\ e.ones = a[2]
             /\ (e.op \in {"to_plain", "clone_plain"} => e.zeros = Sub64(a[1], a[2]))
             /\ len' = a[1] /\ ones' = a[2]
        /\ l' = l + 1
TraceNext == Step
TraceSpec == TraceInit /\ [][TraceNext]_vars
CountsOK == IsU64(len) /\ IsU64(ones) /\ Le64(ones, len)
=============================================================================
