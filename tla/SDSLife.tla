------------------------------ MODULE SDSLife ------------------------------
(***************************************************************************)
(* Layer A: the LIFECYCLE of one bit sequence across the whole library.    *)
(*                                                                         *)
(* The per-area machines (SDSVec, SDSConv, SDSStream, SDSWriter, SDSMap)   *)
(* each describe one structure.  The library's structures are however      *)
(* made from each other: a raw vector is grown and shrunk, becomes a plain  *)
(* bitvector, gets support structures, is turned back into a raw vector    *)
(* and mutated again, converted to the sparse or run-length encoding,      *)
(* written to a file by a buffered writer, viewed through a memory map,    *)
(* loaded, cloned ...  This module is the object machine over ALL those    *)
(* routes: an object is (kind, bits, supports) and every public route is   *)
(* one call.  The two statements the listed properties share are           *)
(*                                                                         *)
(*   Content   - only the mutators change the bits, and they change them   *)
(*               as a plain sequence would (C01, C05, C11);                *)
(*   Canonical - the observable object (answers, equality, serialized      *)
(*               bytes) is a FUNCTION of (kind, bits, supports): it never  *)
(*               depends on the route by which the state was reached       *)
(*               (C05 history independence, C11 canonical conversions,     *)
(*               C19 supports, C06 / C12 / C13 the file routes).           *)
(*                                                                         *)
(* Content is stated by LStep.  Canonical is what the harness checks after *)
(* every call: the real object must be == to and serialize to the same     *)
(* bytes as the object built directly from (kind, bits, supports).         *)
(*                                                                         *)
(* The bit sequences are small here; the harness replays every behaviour   *)
(* at several SCALES k: each abstract bit stands for k equal real bits     *)
(* (push = k pushes, set(i) = bits i*k .. i*k+k-1, resize(n) = resize(n*k);*)
(* for an integer vector: k copies of each item)                            *)
(* so that the same behaviours run inside one word (k = 1, 3), exactly on  *)
(* word boundaries (64), across them (65), across rank blocks (130) and    *)
(* select superblocks (1100).                                              *)
(***************************************************************************)
EXTENDS Naturals, Sequences, FiniteSets

AllKinds == {"raw", "int", "plain", "sparse", "rl"}
BitKinds == {"plain", "sparse", "rl"}
VecKinds == {"raw", "int"}            \* int: an integer vector of width w; `bits` then holds its ITEMS (naturals below 2^w)
Supports == {"rank", "select", "select_zero"}

\* w: the item width of an integer vector, 0 for every other kind
Obj(k, bits, sup) == [kind |-> k, bits |-> bits, sup |-> sup, w |-> 0]
NewObj(k) == Obj(k, << >>, {})
NewInt(w) == [kind |-> "int", bits |-> << >>, sup |-> {}, w |-> w]

\* the bits of an integer vector: its items, least significant bit first (this is what RawVector::from(IntVector) holds)
Flatten(items, w) == [k \in 1..(Len(items) * w) |-> (items[((k - 1) \div w) + 1] \div (2^((k - 1) % w))) % 2]
RECURSIVE BitLenOf(_)
BitLenOf(v) == IF v <= 1 THEN 1 ELSE 1 + BitLenOf(v \div 2)
\* pack(): the width of the largest item (1 for an empty or all-zero vector)
PackedWidth(items) == IF Len(items) = 0 THEN 1 ELSE BitLenOf(CHOOSE m \in {items[i] : i \in 1..Len(items)} : \A i \in 1..Len(items) : items[i] <= m)
\* a written value is truncated to the item width
Item(o, v) == IF o.kind = "int" THEN v % (2^o.w) ELSE v

Resized(bits, n, b) == [i \in 1..n |-> IF i <= Len(bits) THEN bits[i] ELSE b]
Complemented(bits) == [i \in 1..Len(bits) |-> 1 - bits[i]]

\* which conversions exist in the public API
CanConvert(from, to) ==
    \/ from = "raw" /\ to \in {"plain", "raw"}                  \* BitVector::from(raw); clone
    \/ from = "int" /\ to = "raw"                               \* RawVector::from(int vector)
    \/ from = "plain" /\ to \in {"raw", "plain", "sparse", "rl"}  \* RawVector::from(bv); copy_bit_vec / From
    \/ from \in {"sparse", "rl"} /\ to \in BitKinds

OpClass(c) == IF c.op \in {"push", "pop", "set", "resize", "clear", "compl", "pack"} THEN "mut" ELSE c.op

\* is the call defined in this state (the generator issues no other call)
Enabled(o, c) ==
    CASE c.op = "push"   -> o.kind \in VecKinds
      [] c.op = "pop"    -> o.kind \in VecKinds /\ Len(o.bits) > 0
      [] c.op = "set"    -> o.kind \in VecKinds /\ c.i < Len(o.bits)
      [] c.op = "resize" -> o.kind \in VecKinds
      [] c.op = "clear"  -> o.kind \in VecKinds
      [] c.op = "compl"  -> o.kind = "raw"
      [] c.op = "pack"   -> o.kind = "int"
      [] c.op = "to"     -> CanConvert(o.kind, c.k)
      [] c.op = "enable" -> o.kind \in BitKinds
      [] c.op = "writer" -> o.kind \in VecKinds
      [] c.op = "mapper" -> o.kind \in VecKinds
      [] OTHER           -> TRUE                                \* reload, file, clone

LStep(o, c) ==
    CASE c.op = "push"   -> [o EXCEPT !.bits = Append(o.bits, Item(o, c.b))]
      [] c.op = "pop"    -> [o EXCEPT !.bits = SubSeq(o.bits, 1, Len(o.bits) - 1)]
      [] c.op = "set"    -> [o EXCEPT !.bits[c.i + 1] = Item(o, c.b)]
      [] c.op = "resize" -> [o EXCEPT !.bits = Resized(o.bits, c.n, Item(o, c.b))]
      [] c.op = "clear"  -> [o EXCEPT !.bits = << >>]
      [] c.op = "compl"  -> [o EXCEPT !.bits = Complemented(o.bits)]
      [] c.op = "pack"   -> [o EXCEPT !.w = PackedWidth(o.bits)]  \* the items stay, the width becomes that of the largest
      [] c.op = "to"     -> Obj(c.k, IF o.kind = "int" THEN Flatten(o.bits, o.w) ELSE o.bits, {})   \* a fresh object: no supports
      [] c.op = "enable" -> IF o.kind = "plain"
                            THEN [o EXCEPT !.sup = o.sup \cup (IF c.s = "pred_succ" THEN {"rank", "select"} ELSE {c.s})]
                            ELSE o
      [] OTHER           -> o                                   \* reload, file, writer, mapper, clone: identity

Flags(o) == [rank |-> "rank" \in o.sup, select |-> "select" \in o.sup, select_zero |-> "select_zero" \in o.sup]

LifeOK(o) == /\ o.kind \in AllKinds
             /\ o.sup \subseteq Supports
             /\ (o.sup # {} => o.kind = "plain")
             /\ IF o.kind = "int" THEN o.w \in 1..64 /\ \A i \in 1..Len(o.bits) : o.bits[i] < 2^o.w
                ELSE o.w = 0 /\ \A i \in 1..Len(o.bits) : o.bits[i] \in {0, 1}

\* Content: the bits change under the mutators only (pack keeps the items; int -> raw yields the items' bits)
ContentOf(o) == IF o.kind = "int" THEN Flatten(o.bits, o.w) ELSE o.bits
ContentStable(o, c) == IF c.op = "pack" THEN LStep(o, c).bits = o.bits
                       ELSE OpClass(c) # "mut" => ContentOf(LStep(o, c)) = ContentOf(o)
=============================================================================
