-------------------------------- MODULE Writer --------------------------------
(***************************************************************************)
(* Layer B: the buffered writer as implemented (raw_vector.rs:             *)
(* RawVectorWriter::with_buf_len / push_bit / push_int / flush(Safe|Final) *)
(* / close / drop), over W-bit words.  The buffer holds bits; when it      *)
(* reaches buf_len = max(round_up(requested, W), W) the Safe flush writes  *)
(* buf_len bits as whole words and carries the overflow (< W bits, because *)
(* a push adds at most W bits) back into the emptied buffer; the Final     *)
(* flush writes the whole buffer, the last word padded with zeros; close   *)
(* rewrites the header with the final length; close is idempotent; drop    *)
(* closes.  Invariants over every history of bounded depth and every       *)
(* requested buffer size:                                                  *)
(*   Conservation - file body ++ buffer = everything pushed, while open;   *)
(*   WholeWords   - only whole words are written before the final flush;   *)
(*   SmallCarry   - the carried overflow is shorter than a word;           *)
(*   ClosedFile   - after close / drop the file holds (len, words) of      *)
(*                  exactly the pushed bits, zero padded: the Layer A      *)
(*                  content of SDSWriter, whatever the buffer size.        *)
(***************************************************************************)
EXTENDS Naturals, Sequences, FiniteSets, TLC
CONSTANTS W, Requested, Depth

VARIABLES buf, body, pushed, open, bufLen, header, depth
vars == <<buf, body, pushed, open, bufLen, header, depth>>

RoundUp(x) == ((x + W - 1) \div W) * W
Max2(a, b) == IF a > b THEN a ELSE b
Field(v, k) == [b \in 1..k |-> (b - 1) \in v]
PadWords(bits) == bits \o [j \in 1..(RoundUp(Len(bits)) - Len(bits)) |-> FALSE]

Init == /\ \E r \in Requested : bufLen = Max2(RoundUp(r), W)
        /\ buf = << >> /\ body = << >> /\ pushed = << >> /\ open = TRUE /\ header = 0 /\ depth = 0

\* flush(Safe): only when the buffer has reached its length
SafeFlush(b) == IF Len(b) >= bufLen THEN [body |-> body \o SubSeq(b, 1, bufLen), buf |-> SubSeq(b, bufLen + 1, Len(b))]
                ELSE [body |-> body, buf |-> b]
Push(bits) == /\ open /\ depth < Depth
              /\ LET f == SafeFlush(buf \o bits) IN buf' = f.buf /\ body' = f.body
              /\ pushed' = pushed \o bits /\ depth' = depth + 1 /\ UNCHANGED <<open, bufLen, header>>
\* close (or drop): final flush + header; idempotent
Close == /\ IF open THEN body' = body \o PadWords(buf) /\ buf' = << >> /\ header' = Len(pushed) /\ open' = FALSE
                    ELSE UNCHANGED <<body, buf, header, open>>
         /\ UNCHANGED <<pushed, bufLen, depth>>
Next == \/ \E k \in 0..W : \E v \in {{}, 0..(W - 1), {0}} : Push(Field(v, k))
        \/ Close

Conservation == open => body \o buf = pushed
WholeWords == open => Len(body) % W = 0
SmallCarry == Len(buf) < bufLen
ClosedFile == ~open => header = Len(pushed) /\ body = PadWords(pushed)
Inv == Conservation /\ WholeWords /\ SmallCarry /\ ClosedFile
=============================================================================
