---------------------------- MODULE SampleIndex ----------------------------
(***************************************************************************)
(* Layer B: the sample index of the run-length vector                      *)
(* (rl_vector/index.rs) and the narrowed binary search that uses it        *)
(* (RLVector::block_for).                                                  *)
(*                                                                         *)
(* `vals` is the non-decreasing sequence of per-block values (bits, ones   *)
(* or zeros before each block; the first is 0; consecutive values may be   *)
(* EQUAL when a block holds no zero / one), `universe` the total.  The     *)
(* model follows the code: parameters() (with the sampling ratio as a      *)
(* constant), the construction loop with its assertions as explicit        *)
(* failures, range() with get_or and the +1 on the limit, and block_for()  *)
(* as the loop `while high - low > 1`.  Refines: for every query value     *)
(* below the universe the search returns the LAST block whose value is at  *)
(* most the query - what the Layer A queries of the run-length vector      *)
(* need - and construction never fails on admissible input.                *)
(***************************************************************************)
EXTENDS Naturals, Integers, Sequences, FiniteSets
CONSTANTS Ratio, MaxVals, MaxUniverse

DivUp(a, b) == (a + b - 1) \div b
\* (num_samples, divisor)
Params(values, universe) == LET ns == DivUp(values, Ratio) d == DivUp(universe, ns) IN <<DivUp(universe, d), d>>

\* samples[i] (0-based sample i at index i+1) = last index k (0-based) with vals[k] <= i * divisor; sample 0 is 0
Samples(vals, universe) ==
    LET p == Params(Len(vals), universe) IN
    [i \in 1..p[1] |-> IF i = 1 THEN 0
                       ELSE LET S == {k \in 0..(Len(vals) - 1) : vals[k + 1] <= (i - 1) * p[2]} IN
                            CHOOSE k \in S : \A m \in S : m <= k]
\* the assertions of SampleIndex::new, as relaxed by the repair of F10
NewOK(vals, universe) == /\ vals[1] = 0
                         /\ \A k \in 1..(Len(vals) - 1) : vals[k] <= vals[k + 1]
                         /\ vals[Len(vals)] < universe

GetOr(s, i, dflt) == IF i + 1 <= Len(s) THEN s[i + 1] ELSE dflt
\* range(value) = start..limit (half open)
RangeOf(vals, universe, value) ==
    LET p == Params(Len(vals), universe)
        s == Samples(vals, universe)
        off == value \div p[2]
        start == GetOr(s, off, Len(vals))
        lim0 == GetOr(s, off + 1, Len(vals))
    IN <<start, IF lim0 < Len(vals) THEN lim0 + 1 ELSE lim0>>

RECURSIVE BlockFor(_, _, _, _)
BlockFor(vals, low, high, value) ==
    IF high - low <= 1 THEN low
    ELSE LET mid == low + (high - low) \div 2 IN
         IF vals[mid + 1] <= value THEN BlockFor(vals, mid, high, value) ELSE BlockFor(vals, low, mid, value)

LastLE(vals, value) == LET S == {k \in 0..(Len(vals) - 1) : vals[k + 1] <= value} IN CHOOSE k \in S : \A m \in S : m <= k

VARIABLES vals, universe
Init == /\ universe \in 1..MaxUniverse
        /\ \E n \in 1..MaxVals : vals \in [1..n -> 0..(universe - 1)]
        /\ NewOK(vals, universe)
Next == UNCHANGED <<vals, universe>>
Refines == \A v \in 0..(universe - 1) :
              LET r == RangeOf(vals, universe, v) IN
              /\ r[1] < r[2] /\ r[2] <= Len(vals)
              /\ BlockFor(vals, r[1], r[2], v) = LastLE(vals, v)
=============================================================================
