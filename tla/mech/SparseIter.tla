----------------------------- MODULE SparseIter -----------------------------
(***************************************************************************)
(* Layer B: the bit iterator of the sparse vector (sparse_vector.rs:       *)
(* Iter with next / next_back), as implemented: the positions `next` and   *)
(* `limit`, the candidates `next_set` / `last_set`, and the underlying     *)
(* set-bit iterator `parent` (a window [pl, ph) over the sorted values)    *)
(* from which duplicates are skipped at both ends.  Every interleaving of  *)
(* next and next_back on every multiset (universe <= MaxU, <= MaxVals      *)
(* values, duplicates and overfull included) is explored.  Agree: each     *)
(* call returns what the deque over the DISTINCT-position bit sequence     *)
(* (Layer A, MSRef!Bits) returns, and the exact remaining length.          *)
(* KeepFallback = FALSE drops the `else { next_set }` fallback of          *)
(* `last_set` in iter() (the slip of seeded changes C10-4 / C15-4).        *)
(***************************************************************************)
EXTENDS Naturals, Integers, Sequences, FiniteSets, TLC
CONSTANTS MaxU, MaxVals, KeepFallback
MS == INSTANCE MSRef
NoneV == -1

VARIABLES u, vals, nx, lim, nset, lset, pl, ph, out, lo, hi
vars == <<u, vals, nx, lim, nset, lset, pl, ph, out, lo, hi>>
m == Len(vals)
RefBits == MS!Bits([universe |-> u, vals |-> vals])

Init == /\ u \in 0..MaxU
        /\ \E k \in 0..MaxVals : vals \in [1..k -> 0..(u - 1)]
        /\ \A i \in 1..(Len(vals) - 1) : vals[i] <= vals[i + 1]
        \* iter(): next_set = one_iter.next(); last_set = one_iter.next_back() or else next_set
        /\ nset = IF Len(vals) >= 1 THEN vals[1] ELSE NoneV
        /\ lset = IF Len(vals) >= 2 THEN vals[Len(vals)] ELSE (IF KeepFallback /\ Len(vals) >= 1 THEN vals[1] ELSE NoneV)
        /\ pl = IF Len(vals) >= 1 THEN 2 ELSE 1                     \* parent yields vals[pl .. ph-1]
        /\ ph = IF Len(vals) >= 2 THEN Len(vals) ELSE Len(vals) + 1
        /\ nx = 0 /\ lim = u /\ out = <<0, 0>> /\ lo = 0 /\ hi = u

\* first index i in [pl, ph) with vals[i] > bound, or ph
SkipFwd(bound) == LET S == {i \in pl..(ph - 1) : vals[i] > bound} IN IF S = {} THEN ph ELSE CHOOSE i \in S : \A j \in S : i <= j
\* last index i in [pl, ph) with vals[i] < bound, or pl - 1
SkipBack(bound) == LET S == {i \in pl..(ph - 1) : vals[i] < bound} IN IF S = {} THEN pl - 1 ELSE CHOOSE i \in S : \A j \in S : j <= i

RefFront == IF lo < hi THEN (IF RefBits[lo + 1] THEN 1 ELSE 0) ELSE NoneV
RefBack == IF lo < hi THEN (IF RefBits[hi] THEN 1 ELSE 0) ELSE NoneV

Next_ == /\ UNCHANGED <<u, vals, lim, lset, ph, hi>>
         /\ lo' = IF lo < hi THEN lo + 1 ELSE lo
         /\ IF nx >= lim THEN out' = <<NoneV, RefFront>> /\ UNCHANGED <<nx, nset, pl>>
            ELSE IF nset # NoneV /\ nset = nx
                 THEN LET i == SkipFwd(nx) IN
                      /\ nset' = IF i < ph THEN vals[i] ELSE lset
                      /\ pl' = IF i < ph THEN i + 1 ELSE ph
                      /\ nx' = nx + 1 /\ out' = <<1, RefFront>>
                 ELSE nx' = nx + 1 /\ out' = <<0, RefFront>> /\ UNCHANGED <<nset, pl>>
Back == /\ UNCHANGED <<u, vals, nx, nset, pl, lo>>
        /\ hi' = IF lo < hi THEN hi - 1 ELSE hi
        /\ IF nx >= lim THEN out' = <<NoneV, RefBack>> /\ UNCHANGED <<lim, lset, ph>>
           ELSE /\ lim' = lim - 1
                /\ IF lset # NoneV /\ lset = lim - 1
                   THEN LET i == SkipBack(lim - 1) IN
                        /\ lset' = IF i >= pl THEN vals[i] ELSE nset
                        /\ ph' = IF i >= pl THEN i ELSE pl
                        /\ out' = <<1, RefBack>>
                   ELSE out' = <<0, RefBack>> /\ UNCHANGED <<lset, ph>>
Next == Next_ \/ Back
Spec == Init /\ [][Next]_vars
Agree == out[1] = out[2] /\ lim - nx = hi - lo
=============================================================================
