-------------------------------- MODULE RLE --------------------------------
(***************************************************************************)
(* Layer B: the run-length builder as implemented (rl_vector.rs:           *)
(* RLBuilder::try_set / set_run_unchecked / set_len / flush / encode and   *)
(* From<RLBuilder>), with the real constants (64-unit blocks, 3-bit        *)
(* payload).  State: len, ones, tail (position after the last encoded      *)
(* run), the pending run, the block samples and the code units.            *)
(*                                                                         *)
(* Refinement, checked by TLC over every call history of bounded depth     *)
(* with gaps / lengths from the code-unit boundary classes:                *)
(*   Pending  - the encoded prefix decoded by the DOCUMENT-derived decoder *)
(*              (Format.tla) plus the pending run is exactly the set of    *)
(*              accepted bits, as maximal runs (Layer A, SDSBuilder);      *)
(*   Finished - the finished vector's file (len, ones, samples with        *)
(*              minimal width, data) equals Format!EncRL of the accepted   *)
(*              content: block closing, zero padding, samples and merging  *)
(*              of adjacent runs as the format document prescribes.        *)
(***************************************************************************)
EXTENDS Format, TLC
CONSTANTS Classes, MaxCalls, FixSetLen      \* FixSetLen = FALSE reproduces F9 (self-test of the model's sensitivity)

VARIABLES b, bits, calls
vars == <<b, bits, calls>>

CodeLen(v) == CeilDiv(BitLenNat(v), 3)
Blocks(s) == Len(s.samples) \div 2

Flush(s) ==
    IF s.run[2] = 0 THEN s
    ELSE LET need == CodeLen(s.run[1] - s.tail) + CodeLen(s.run[2] - 1)
             newBlock == Len(s.data) + need > Blocks(s) * 64
             data0 == IF newBlock THEN s.data \o [j \in 1..(Blocks(s) * 64 - Len(s.data)) |-> 0] ELSE s.data
             samples0 == IF newBlock THEN s.samples \o <<s.ones - s.run[2], s.tail>> ELSE s.samples
         IN [s EXCEPT !.data = data0 \o Units(s.run[1] - s.tail) \o Units(s.run[2] - 1),
                      !.samples = samples0,
                      !.tail = s.run[1] + s.run[2],
                      !.run = <<s.len, 0>>]

SetRun(s, start, n) ==
    IF n = 0 THEN s
    ELSE IF start = s.len THEN [s EXCEPT !.len = s.len + n, !.ones = s.ones + n, !.run = <<s.run[1], s.run[2] + n>>]
    ELSE LET f == Flush(s) IN [f EXCEPT !.len = start + n, !.ones = f.ones + n, !.run = <<start, n>>]
TrySet(s, start, n) == IF start < s.len THEN s ELSE SetRun(s, start, n)          \* refused calls leave the builder unchanged
SetLen(s, n) == IF n > s.len THEN LET f == Flush(s) IN (IF FixSetLen THEN [f EXCEPT !.len = n, !.run = <<n, 0>>] ELSE [f EXCEPT !.len = n]) ELSE s

Init == /\ b = [len |-> 0, ones |-> 0, tail |-> 0, run |-> <<0, 0>>, samples |-> << >>, data |-> << >>]
        /\ bits = {}          \* accepted runs as a set of <<start, length>> pieces
        /\ calls = 0

Next == /\ calls < MaxCalls
        /\ calls' = calls + 1
        /\ \/ \E g \in Classes \cup {0} : \E n \in Classes \cup {0} :
                LET start == b.len + g IN
                /\ b' = TrySet(b, start, n)
                /\ bits' = IF n = 0 THEN bits ELSE bits \cup {<<start, n>>}
           \/ \E g \in {1, 64} : b' = SetLen(b, b.len + g) /\ UNCHANGED bits

\* maximal runs of the accepted pieces (adjacent pieces merge)
Pieces == SetToSortSeq(bits, LAMBDA x, y : x[1] < y[1])
Merged == FoldLeft(LAMBDA acc, p : IF Len(acc) > 0 /\ acc[Len(acc)][1] + acc[Len(acc)][2] = p[1]
                                   THEN [acc EXCEPT ![Len(acc)] = <<acc[Len(acc)][1], acc[Len(acc)][2] + p[2]>>]
                                   ELSE Append(acc, p), << >>, Pieces)

Finish(s) == LET f == Flush(s)
                 mx == IF Len(f.samples) = 0 THEN 0 ELSE f.samples[Len(f.samples)]
             IN <<Nat2E(f.len), Nat2E(f.ones)>> \o EncInt(BitLenNat(mx), f.samples) \o EncInt(4, f.data)

\* the counters are exact
Counters == b.ones = FoldLeft(LAMBDA acc, p : acc + p[2], 0, Pieces) /\ (Len(Pieces) > 0 => b.len >= Pieces[Len(Pieces)][1] + Pieces[Len(Pieces)][2])
\* the file of the finished vector is the document's encoding of the accepted content
Finished == Finish(b) = EncRL(b.len, Merged, 0)
\* and it is well-formed for the document-derived decoder, which recovers the maximal runs
Decodes == LET f == Finish(b) IN RLWF(f, 1) /\ RLRuns(f, 1) = Merged /\ N(f, 1) = b.len
Inv == Counters /\ Finished /\ Decodes
=============================================================================
