------------------------------ MODULE MC_Words ------------------------------
(* Exhaustive refinement check of the word primitives at a small word size: every background array of
   NW words, every offset, width and value for write_int / read_int (both branches), every word and
   rank for the portable select, masks for every n. *)
EXTENDS Words, TLC
CONSTANT NW
VARIABLES ws, off, w
vars == <<ws, off, w>>
AllWords == SUBSET Bits
Init == /\ ws \in [1..NW -> AllWords]
        /\ off \in 0..(NW * W - 1)
        /\ w \in 1..W
        /\ off + w <= NW * W
Next == UNCHANGED vars
Refines == /\ \A v \in AllWords \cup {Bits \cup {W}} : WriteRefines(ws, off, v, w)
           /\ ReadRefines(ws, off, w)
           \* write then read returns the value truncated to w bits, and no other bit changes
           /\ \A v \in AllWords : LET after == WriteImpl(ws, off, v, w) IN
                 /\ ReadImpl(after, off, w) = {b \in v : b < w}
                 /\ Flat(after) \ FieldPos(off, w) = Flat(ws) \ FieldPos(off, w)
SelectOK == \A k \in 1..NW : SelectRefines(ws[k])
MasksOK == \A n \in 0..W : LowSetRef(n) \cap HighSetRef(W - n) = {} /\ LowSetRef(n) \cup HighSetRef(W - n) = Bits
Inv == Refines /\ SelectOK /\ MasksOK
=============================================================================
