------------------------------ MODULE EliasFano ------------------------------
(***************************************************************************)
(* Layer B: the Elias-Fano vector as implemented (sparse_vector.rs).       *)
(* State: universe n, the non-decreasing value list P (a set when strictly *)
(* increasing, a multiset otherwise), and the low-part width w - a         *)
(* PARAMETER of the model (the code derives it with floating point; every  *)
(* w >= 1 must work).  `high` holds one unary-coded bucket per 2^w slice,  *)
(* `low` the low w bits.  The queries are transcribed as the code computes *)
(* them: pos / lower_bound / upper_bound through select and select_zero on *)
(* `high`, the backward bucket scans of rank and predecessor, the forward  *)
(* scans of get and successor, select = low[i] + ((high.select(i) - i) <<  *)
(* w), and select_zero through find_zero_run (binary search while more     *)
(* than Thr candidates remain, then a linear scan) - with every unwrap of  *)
(* the code as an explicit Fail.  Refines: each equals the Layer A answer  *)
(* (BVRef for sets, MSRef for multisets) for every argument.               *)
(***************************************************************************)
EXTENDS Naturals, Integers, Sequences, FiniteSets, SequencesExt, TLC
CONSTANTS MaxN, MaxM, Widths, Thr
BR == INSTANCE BVRef
MS == INSTANCE MSRef

VARIABLES n, P, w
vars == <<n, P, w>>
Fail == -99
m == Len(P)
Pow == 2^w
Buckets == IF n % Pow = 0 THEN n \div Pow ELSE (n \div Pow) + 1
HLen == m + Buckets
HighOnes == {(P[i] \div Pow) + (i - 1) : i \in 1..m}
High(k) == k \in HighOnes                                  \* bit k of high, 0 <= k < HLen
Low(i) == P[i + 1] % Pow                                    \* low[i], 0-based
HSel(i) == IF i < m THEN (P[i + 1] \div Pow) + i ELSE Fail                        \* high.select(i)
HZeros == SetToSortSeq({k \in 0..(HLen - 1) : ~High(k)}, <)
HSelZ(k) == IF k < Len(HZeros) THEN HZeros[k + 1] ELSE Fail                        \* high.select_zero(k)

Split(i) == <<i \div Pow, i % Pow>>
Combine(ph, pl) == <<pl, (ph - pl) * Pow + Low(pl)>>
LowerBound(hp) == IF hp = 0 THEN <<0, 0>> ELSE LET z == HSelZ(hp - 1) IN IF z = Fail THEN <<Fail, Fail>> ELSE <<z + 1, z + 1 - hp>>
UpperBound(hp) == LET z == HSelZ(hp) IN IF z = Fail THEN <<Fail, Fail>> ELSE <<z, z - hp>>

IsMulti == \E i \in 1..(m - 1) : P[i] = P[i + 1]

\* rank: backward scan of the bucket
RECURSIVE RankScan(_, _, _)
RankScan(ph, pl, lowPart) == IF High(ph) /\ Low(pl) >= lowPart THEN (IF pl = 0 THEN 0 ELSE RankScan(ph - 1, pl - 1, lowPart)) ELSE pl + 1
Rank(i) == IF i >= n THEN m
           ELSE LET s == Split(i) ub == UpperBound(s[1]) IN
                IF ub[1] = Fail THEN Fail ELSE IF ub[2] = 0 THEN 0 ELSE RankScan(ub[1] - 1, ub[2] - 1, s[2])
\* get: forward scan
RECURSIVE GetScan(_, _, _)
GetScan(ph, pl, lowPart) == IF ph < HLen /\ High(ph) THEN (IF Low(pl) >= lowPart THEN Low(pl) = lowPart ELSE GetScan(ph + 1, pl + 1, lowPart)) ELSE FALSE
Get(i) == LET s == Split(i) lb == LowerBound(s[1]) IN IF lb[1] = Fail THEN Fail ELSE GetScan(lb[1], lb[2], s[2])
Select(i) == IF i >= m THEN -1 ELSE Combine(HSel(i), i)[2]
\* predecessor
RECURSIVE PredScan(_, _, _)
PredScan(ph, pl, lowPart) == IF High(ph) /\ Low(pl) > lowPart THEN (IF pl = 0 THEN <<Fail, 0>> ELSE PredScan(ph - 1, pl - 1, lowPart)) ELSE <<ph, pl>>
RECURSIVE BackToOne(_)
BackToOne(ph) == IF High(ph) THEN ph ELSE BackToOne(ph - 1)
Pred(v) == IF n = 0 THEN <<-1, -1>>
           ELSE LET s == Split(IF v >= n THEN n - 1 ELSE v) ub == UpperBound(s[1]) IN
                IF ub[1] = Fail THEN <<Fail, Fail>>
                ELSE IF ub[2] = 0 THEN <<-1, -1>>
                ELSE LET q == PredScan(ub[1] - 1, ub[2] - 1, s[2]) IN
                     IF q[1] = Fail THEN <<-1, -1>> ELSE Combine(BackToOne(q[1]), q[2])
\* successor
RECURSIVE SuccScan(_, _, _)
SuccScan(ph, pl, lowPart) == IF ph < HLen /\ High(ph) THEN (IF Low(pl) >= lowPart THEN <<ph, pl>> ELSE SuccScan(ph + 1, pl + 1, lowPart)) ELSE <<ph, pl, 0>>
RECURSIVE FwdToOne(_, _)
FwdToOne(ph, pl) == IF ph >= HLen THEN <<-1, -1>> ELSE IF High(ph) THEN Combine(ph, pl) ELSE FwdToOne(ph + 1, pl)
Succ(v) == IF v >= n THEN <<-1, -1>>
           ELSE LET s == Split(v) lb == LowerBound(s[1]) IN
                IF lb[1] = Fail THEN <<Fail, Fail>>
                ELSE LET q == SuccScan(lb[1], lb[2], s[2]) IN IF Len(q) = 2 THEN Combine(q[1], q[2]) ELSE FwdToOne(q[1], q[2])
\* select_zero through find_zero_run (sets only)
RECURSIVE Bin(_, _, _, _)
Bin(lo, hi, res, rank) == IF hi - lo <= Thr THEN res
                          ELSE LET mid == lo + (hi - lo) \div 2 midPos == Select(mid) IN
                               IF midPos - mid <= rank THEN Bin(mid + 1, hi, mid + 1, rank) ELSE Bin(lo, mid, res, rank)
RECURSIVE Lin(_, _)
Lin(k, rank) == IF k < m /\ Select(k) - k <= rank THEN Lin(k + 1, rank) ELSE k
SelectZero(rank) == IF rank >= n - m THEN -1 ELSE Lin(Bin(0, m, 0, rank), rank) + rank

Init == /\ n \in 0..MaxN /\ w \in Widths
        /\ \E k \in 0..MaxM : P \in [1..k -> 0..(n - 1)]
        /\ \A i \in 1..(Len(P) - 1) : P[i] <= P[i + 1]
Next == UNCHANGED vars

SetB == BR!FromSet(n, {P[i] : i \in 1..m})
MSet == [universe |-> n, vals |-> P]
Refines ==
    IF IsMulti
    THEN \A a \in 0..(n + 1) :
           /\ Rank(a) = MS!Rank(MSet, a) /\ Select(a) = MS!Select(MSet, a)
           /\ Pred(a) = MS!Pred(MSet, a) /\ Succ(a) = MS!Succ(MSet, a)
           /\ (a < n => Get(a) = MS!Get(MSet, a))
    ELSE \A a \in 0..(n + 1) :
           /\ Rank(a) = BR!Rank(SetB, a) /\ Select(a) = BR!Select(SetB, a) /\ SelectZero(a) = BR!SelectZero(SetB, a)
           /\ Pred(a) = BR!Pred(SetB, a) /\ Succ(a) = BR!Succ(SetB, a)
           /\ (a < n => Get(a) = BR!Get(SetB, a))
=============================================================================
