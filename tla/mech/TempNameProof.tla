--------------------------- MODULE TempNameProof ---------------------------
(***************************************************************************)
(* The counter protocol of serialize::temp_file_name for the program       *)
(* <<"fetch_add">> (the program EXTRACTED from the current code by the     *)
(* calibration run of check C20), for ANY set of threads and ANY number of *)
(* calls: mech/TempName instantiated with that program, without the bounds *)
(* TLC needs (Calls, the finite set Threads).  pc[t] = "idle" is pc = 1    *)
(* there (about to fetch_add), pc[t] = "have" is pc = 2 (holds its number, *)
(* about to return the name; the name is injective in the number).         *)
(* Theorem Safety - no two completed calls receive the same number - is    *)
(* proved with TLAPS by the inductive invariant Inv.                       *)
(***************************************************************************)
EXTENDS Naturals, TLAPS
CONSTANT Threads
VARIABLES counter, reg, pc, names, dup
vars == <<counter, reg, pc, names, dup>>

Init == /\ counter = 0
        /\ reg = [t \in Threads |-> 0]
        /\ pc = [t \in Threads |-> "idle"]
        /\ names = {}
        /\ dup = FALSE

Fetch(t) == /\ pc[t] = "idle"
            /\ reg' = [reg EXCEPT ![t] = counter]
            /\ counter' = counter + 1
            /\ pc' = [pc EXCEPT ![t] = "have"]
            /\ UNCHANGED <<names, dup>>

Return(t) == /\ pc[t] = "have"
             /\ names' = names \cup {reg[t]}
             /\ dup' = (dup \/ reg[t] \in names)
             /\ pc' = [pc EXCEPT ![t] = "idle"]
             /\ UNCHANGED <<counter, reg>>

Next == \E t \in Threads : Fetch(t) \/ Return(t)
Spec == Init /\ [][Next]_vars

Unique == ~dup

TypeOK == /\ counter \in Nat
          /\ reg \in [Threads -> Nat]
          /\ pc \in [Threads -> {"idle", "have"}]
          /\ names \subseteq Nat
          /\ dup \in BOOLEAN

Inv == /\ TypeOK
       /\ ~dup
       /\ \A n \in names : n < counter
       /\ \A t \in Threads : pc[t] = "have" => (reg[t] < counter /\ reg[t] \notin names)
       /\ \A s, t \in Threads : (s # t /\ pc[s] = "have" /\ pc[t] = "have") => reg[s] # reg[t]

THEOREM InitInv == Init => Inv
  BY DEF Init, Inv, TypeOK

THEOREM NextInv == Inv /\ [Next]_vars => Inv'
<1> SUFFICES ASSUME Inv, [Next]_vars PROVE Inv'
  OBVIOUS
<1>1. CASE UNCHANGED vars
  BY <1>1 DEF Inv, TypeOK, vars
<1>2. ASSUME NEW t \in Threads, Fetch(t) PROVE Inv'
  BY <1>2 DEF Inv, TypeOK, Fetch
<1>3. ASSUME NEW t \in Threads, Return(t) PROVE Inv'
  BY <1>3 DEF Inv, TypeOK, Return
<1> QED
  BY <1>1, <1>2, <1>3 DEF Next

THEOREM Safety == Spec => []Unique
<1>1. Inv => Unique
  BY DEF Inv, Unique
<1> QED
  BY InitInv, NextInv, <1>1, PTL DEF Spec
=============================================================================
