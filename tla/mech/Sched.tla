-------------------------------- MODULE Sched --------------------------------
(***************************************************************************)
(* Schedule generator for the counter gates (spec -> impl, C20).           *)
(*                                                                         *)
(* A call of temp_file_name performs an unknown but small number of atomic *)
(* primitives on the shared counter and then returns.  Whatever the        *)
(* primitives are, an execution of NThreads concurrent calls is determined *)
(* by the order in which the threads take their steps.  This module        *)
(* enumerates every such order for calls of at most Steps steps (a step =  *)
(* one primitive, or the return): a behaviour is a sequence over the       *)
(* thread identities in which every thread occurs Steps times.  Threads    *)
(* are interchangeable, so only sequences in which the threads make their  *)
(* first step in increasing order are generated.  Each complete sequence   *)
(* is printed and replayed through the gates of the traced counter on the  *)
(* real code (entries of a thread whose call has already returned are      *)
(* skipped); the names the real calls return are validated by TraceSched.  *)
(* Unlike mech/TempName this needs no model of the counter program: it is  *)
(* the exhaustive exploration of the real code under every schedule.       *)
(***************************************************************************)
EXTENDS Naturals, Sequences, FiniteSets, TLC, Json
CONSTANTS NThreads, Steps
VARIABLES left, sched
vars == <<left, sched>>
Threads == 1..NThreads
Init == left = [t \in Threads |-> Steps] /\ sched = << >>
Started == {sched[i] : i \in 1..Len(sched)}
Next == \E t \in Threads :
          /\ left[t] > 0
          /\ t \in Started \/ \A u \in Threads : u < t => u \in Started      \* first steps in increasing thread order
          /\ left' = [left EXCEPT ![t] = left[t] - 1]
          /\ sched' = Append(sched, t)
Done == \A t \in Threads : left[t] = 0
Emit == Done => PrintT(<<"REPLAY", ToJson([k |-> "sched", threads |-> NThreads, s |-> sched])>>)
Spec == Init /\ [][Next]_vars
=============================================================================
