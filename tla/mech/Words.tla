-------------------------------- MODULE Words --------------------------------
(***************************************************************************)
(* Layer A and Layer B for the bit-level primitives (bits.rs).             *)
(*                                                                         *)
(* Layer A (reference): a word array is the SET of its set bit positions   *)
(* (bit i of word k is position k*W + i); integers are sets of positions   *)
(* 0..W-1.  WriteRef / ReadRef / SelectRef / masks / BitLen / ReverseLow   *)
(* are the mathematical definitions the property states.                   *)
(*                                                                         *)
(* Layer B (implementation-shaped): WriteImpl / ReadImpl follow write_int  *)
(* and read_int - split_offset, the one-word branch (offset + width <= W)  *)
(* and the two-word branch, with exactly the mask expressions of the code  *)
(* - and SelectTable follows the portable select: cumulative popcounts per *)
(* "byte" of ByteBits bits, the first byte whose cumulative count exceeds the    *)
(* rank, and the in-byte select of the relative rank.  W and ByteBits are        *)
(* parameters: TLC checks the refinement exhaustively at W = 4 (and W = 8, *)
(* ByteBits = 2 for select); at W = 64 the reference operators are the oracle    *)
(* for the generated cases and recorded traces.                            *)
(***************************************************************************)
EXTENDS Naturals, Integers, Sequences, FiniteSets, FiniteSetsExt
CONSTANTS W, ByteBits

Bits == 0..(W - 1)
----------------------------------------------------------------------------
(* Layer A *)
FieldPos(off, w) == off..(off + w - 1)
WriteRef(A, off, v, w) == (A \ FieldPos(off, w)) \cup {off + b : b \in {c \in v : c < w}}
ReadRef(A, off, w) == {b \in 0..(w - 1) : off + b \in A}
SelectRef(S, r) == CHOOSE p \in S : Cardinality({q \in S : q < p}) = r          \* r < |S|
LowSetRef(n) == 0..(n - 1)
HighSetRef(n) == (W - n)..(W - 1)
BitLenRef(v) == IF v = {} THEN 1 ELSE Max(v) + 1
ReverseLowRef(v, bits) == {bits - 1 - b : b \in {c \in v : c < bits}}

----------------------------------------------------------------------------
(* Layer B: word algebra on sets of positions 0..W-1 *)
And(a, b) == a \cap b
Or(a, b) == a \cup b
Shl(v, k) == {b + k : b \in v} \cap Bits
Shr(v, k) == {b - k : b \in {c \in v : c >= k}}
WordOf(A, k) == {b \in Bits : k * W + b \in A}                  \* word k of the flat array
Flat(ws) == UNION {{(k - 1) * W + b : b \in ws[k]} : k \in 1..Len(ws)}

\* write_int: words is a sequence of words (1-based: words[index + 1])
WriteImpl(ws, bitOffset, v, w) ==
    LET value == And(v, LowSetRef(w))
        index == bitOffset \div W
        offset == bitOffset % W
    IN IF offset + w <= W
       THEN [ws EXCEPT ![index + 1] = Or(And(ws[index + 1], Or(HighSetRef(W - w - offset), LowSetRef(offset))), Shl(value, offset))]
       ELSE [ws EXCEPT ![index + 1] = Or(And(ws[index + 1], LowSetRef(offset)), Shl(value, offset)),
                       ![index + 2] = Or(And(ws[index + 2], HighSetRef(2 * W - w - offset)), Shr(value, W - offset))]
ReadImpl(ws, bitOffset, w) ==
    LET index == bitOffset \div W
        offset == bitOffset % W
        first == Shr(ws[index + 1], offset)
    IN IF offset + w <= W THEN And(first, LowSetRef(w))
       ELSE Or(first, Shl(And(ws[index + 2], LowSetRef((offset + w) % W)), W - offset))

\* portable select: bytes of ByteBits bits
NBytes == W \div ByteBits
ByteOf(n, k) == {b - k * ByteBits : b \in {c \in n : c >= k * ByteBits /\ c < (k + 1) * ByteBits}}
Cumul(n, k) == Cardinality({b \in n : b < (k + 1) * ByteBits})                    \* set bits in bytes 0..k
SelectInByte(byte, r) == SelectRef(byte, r)                                  \* the lookup table's specification
SelectTable(n, rank) ==
    LET k == CHOOSE j \in 0..(NBytes - 1) : Cumul(n, j) > rank /\ \A i \in 0..(j - 1) : Cumul(n, i) <= rank
        rel == rank - (IF k = 0 THEN 0 ELSE Cumul(n, k - 1))
    IN k * ByteBits + SelectInByte(ByteOf(n, k), rel)

\* Refinement statements (checked by MC_Words)
WriteRefines(ws, off, v, w) == Flat(WriteImpl(ws, off, v, w)) = WriteRef(Flat(ws), off, v, w)
ReadRefines(ws, off, w) == ReadImpl(ws, off, w) = ReadRef(Flat(ws), off, w)
SelectRefines(n) == \A r \in 0..(Cardinality(n) - 1) : SelectTable(n, r) = SelectRef(n, r)
=============================================================================
