--------------------------------- MODULE WM ---------------------------------
(***************************************************************************)
(* Layer B: the wavelet matrix as implemented (wavelet_matrix.rs,          *)
(* wm_core.rs).  The core is a sequence of per-level bitvectors obtained   *)
(* by stable partition; map_down_one / map_down_zero / map_up_one /        *)
(* map_up_zero are the per-level rank / select steps (map_up_one with the  *)
(* checked subtraction of the repair of F5: an index among the zeros has   *)
(* no preimage); `first` comes from counting and two sorts (here: the      *)
(* position of the first occurrence in the reordered vector, or len).      *)
(* rank = map_down_with(i, v) - first[v], select = map_up_with(first[v] +  *)
(* r, v) with the checked addition of F4, inverse_select via map_down.     *)
(* CheckedSub = FALSE reproduces F5 (an underflow is reported as Fail).    *)
(* Refines: every answer equals Layer A (VecRef) for every vector over     *)
(* the alphabet up to MaxLen and every index, rank and value.              *)
(***************************************************************************)
EXTENDS VecRef, TLC
CONSTANTS Alpha, MaxLen, CheckedSub
VARIABLE V
Fail == -99
W == Width(V)
n == Len(V)
BitOf(v, level) == (v \div 2^(W - level)) % 2 = 1                     \* level 1..W, bit value 2^(W - level)
\* the item order at each level and the level bitvectors
Orders == LET f[k \in 0..W] == IF k = 0 THEN V
                               ELSE LET cur == f[k - 1] IN SelectSeq(cur, LAMBDA x : ~BitOf(x, k)) \o SelectSeq(cur, LAMBDA x : BitOf(x, k))
          IN f
LevelBits(k) == [i \in 1..n |-> BitOf(Orders[k - 1][i], k)]
Zeros(k) == Cardinality({i \in 1..n : ~LevelBits(k)[i]})
Rank1(k, i) == Cardinality({j \in 1..(IF i > n THEN n ELSE i) : LevelBits(k)[j]})
Sel(k, r, bit) == LET S == {j \in 1..n : LevelBits(k)[j] = bit} IN
                  IF r < 0 \/ r >= Cardinality(S) THEN -1 ELSE (CHOOSE j \in S : Cardinality({q \in S : q < j}) = r) - 1
DownOne(i, k) == Zeros(k) + Rank1(k, i)
DownZero(i, k) == i - Rank1(k, i)
UpOne(i, k) == IF i < Zeros(k) THEN (IF CheckedSub THEN -1 ELSE Fail) ELSE Sel(k, i - Zeros(k), TRUE)
UpZero(i, k) == Sel(k, i, FALSE)

MapDownWithImpl(i, v) == LET f[k \in 0..W] == IF k = 0 THEN (IF i > n \/ i < 0 THEN n ELSE i)
                                              ELSE IF BitOf(v, k) THEN DownOne(f[k - 1], k) ELSE DownZero(f[k - 1], k)
                         IN f[W]
MapUpWithImpl(i, v) == LET f[k \in 0..W] == IF k = 0 THEN i
                                            ELSE LET lvl == W - k + 1 prev == f[k - 1] IN
                                                 IF prev < 0 THEN prev ELSE IF BitOf(v, lvl) THEN UpOne(prev, lvl) ELSE UpZero(prev, lvl)
                       IN IF i < 0 THEN -1 ELSE f[W]
Reordered == Orders[W]
First(v) == LET S == {i \in 1..n : Reordered[i] = v} IN IF S = {} THEN n ELSE (CHOOSE i \in S : \A j \in S : i <= j) - 1
MaxV == MaxOf(V)
ContainsImpl(v) == v <= MaxV /\ First(v) < n
RankImpl(i, v) == IF ~ContainsImpl(v) THEN 0 ELSE MapDownWithImpl(i, v) - First(v)
SelectImpl(r, v) == IF ~ContainsImpl(v) \/ r < 0 THEN -1 ELSE MapUpWithImpl(First(v) + r, v)

Init == \E k \in 0..MaxLen : V \in [1..k -> Alpha]
Next == UNCHANGED V
Vals == Alpha \cup {2^W, 2^W + 1}
Refines == /\ \A v \in Vals : \A a \in (0..(n + 1)) \cup {-1} :
                 /\ RankImpl(a, v) = VRank(V, a, v)
                 /\ SelectImpl(a, v) = VSelect(V, a, v)
                 /\ MapDownWithImpl(a, v) = MapDownWith(V, a, v)
                 /\ MapUpWithImpl(a, v) = MapUpWith(V, a, v)
                 /\ ContainsImpl(v) = VContains(V, v)
           /\ \A i \in 1..n : Reordered[MapDown(V, i - 1)[1] + 1] = V[i]
=============================================================================
