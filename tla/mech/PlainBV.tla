------------------------------ MODULE PlainBV ------------------------------
(***************************************************************************)
(* Layer B: the mechanism of the plain bitvector - rank9 (block samples +  *)
(* rotated 9-bit relative ranks + popcount of the masked word) and         *)
(* select-mcl (superblock samples, long superblocks with explicit offsets, *)
(* short superblocks with block samples and a word scan), the complement   *)
(* view for select_zero, predecessor / successor via rank and select.      *)
(* The structural constants are parameters: W (word bits), RB (words per   *)
(* rank block), SB (ones per superblock), BL (ones per block); ThrReal     *)
(* selects the real long/short rule (span >= bit_len(len)^4) or a scaled   *)
(* one (bit_len(len) + 2) under which long and short superblocks both      *)
(* occur within a dozen bits.  TLC checks Refines (every answer computed   *)
(* the implementation's way = the Layer A answer) on every bit sequence of *)
(* length 0..N.  MaskLast and LongIdxBug are mutation switches used by the *)
(* self-tests (LongIdxBug reproduces the off-by-one in the long array).    *)
(* With the real constants the same definitions predict the serialized     *)
(* support structures (TraceLayout: MODEL-DRIFT, never a violation).       *)
(***************************************************************************)
EXTENDS Naturals, Integers, Sequences, FiniteSets, TLC, Folds, SequencesExt
CONSTANTS W, RB, SB, BL, N, MaskLast, LongIdxBug, ThrReal
VARIABLE bits
n == Len(bits)
Bit(i) == bits[i + 1]
DivUp(a, b) == (a + b - 1) \div b
BitLen(x) == IF x = 0 THEN 1 ELSE CHOOSE k \in 1..31 : 2^(k - 1) <= x /\ x < 2^k
LongThr == IF ThrReal THEN BitLen(n) * BitLen(n) * BitLen(n) * BitLen(n) ELSE BitLen(n) + 2
NW == DivUp(n, W)
\* ---------- reference ----------
OnesSet == {i \in 0..(n - 1) : Bit(i)}
ZerosSet == {i \in 0..(n - 1) : ~Bit(i)}
RankRef(i) == Cardinality({p \in OnesSet : p < i})
SortedSeq(S) == SetToSortSeq(S, <)
SelRef(S, r) == IF r >= Cardinality(S) THEN -1 ELSE SortedSeq(S)[r + 1]
\* ---------- raw words (tail zero) ----------
RawWord(k) == {j \in 0..(W - 1) : k * W + j < n /\ Bit(k * W + j)}
Pop(k) == IF k < NW THEN Cardinality(RawWord(k)) ELSE 0
\* ---------- rank9 ----------
Blocks == DivUp(n, RB * W)
SumPop(a, b) == FoldLeft(LAMBDA acc, k : acc + Pop(k), 0, [x \in 1..(IF b > a THEN b - a ELSE 0) |-> a + x - 1])   \* words a..b-1
BlockStart(b) == SumPop(0, b * RB)
\* slot s in 0..RB-1: cumulative ones through word s of the block; top slot cleared
Rel(b, s) == IF s = RB - 1 THEN 0 ELSE SumPop(b * RB, b * RB + s + 1)
RankImpl(i) == LET block == i \div (RB * W)  word == i \div W  off == i % W
                   slot == ((word % RB) + RB - 1) % RB
                   within == Cardinality({j \in RawWord(word) : j < off})
               IN BlockStart(block) + Rel(block, slot) + within
Rank(i) == IF i >= n THEN Cardinality(OnesSet) ELSE RankImpl(i)
\* ---------- transformed words ----------
LastIdx == n \div W
CompWord(k) == LET raw == {j \in 0..(W - 1) : j \notin RawWord(k)} IN
               IF MaskLast /\ k >= LastIdx THEN {j \in raw : j < n % W} ELSE raw
TWord(T, k) == IF T = "id" THEN RawWord(k) ELSE CompWord(k)
TSet(T) == IF T = "id" THEN OnesSet ELSE ZerosSet
\* ---------- select-mcl build ----------
P(T) == SortedSeq(TSet(T))
M(T) == Cardinality(TSet(T))
SBs(T) == DivUp(M(T), SB)
Start(T, s) == P(T)[s * SB + 1]
LimRank(T, s) == IF (s + 1) * SB < M(T) THEN (s + 1) * SB ELSE M(T)
LimPos(T, s) == IF (s + 1) * SB < M(T) THEN P(T)[(s + 1) * SB + 1] ELSE n
IsLong(T, s) == LimPos(T, s) - Start(T, s) >= LongThr
Count(T, s) == LimRank(T, s) - s * SB
LongBefore(T, s) == FoldLeft(LAMBDA acc, t : IF IsLong(T, t - 1) THEN acc + Count(T, t - 1) ELSE acc, 0, [x \in 1..s |-> x])
ShortBefore(T, s) == FoldLeft(LAMBDA acc, t : IF IsLong(T, t - 1) THEN acc ELSE acc + DivUp(Count(T, t - 1), BL), 0, [x \in 1..s |-> x])
\* arrays as functions of absolute index
LongArr(T, idx) == LET s == CHOOSE t \in 0..(SBs(T) - 1) : IsLong(T, t) /\ LongBefore(T, t) <= idx /\ idx < LongBefore(T, t) + Count(T, t)
                   IN P(T)[s * SB + (idx - LongBefore(T, s)) + 1] - Start(T, s)
ShortArr(T, idx) == LET s == CHOOSE t \in 0..(SBs(T) - 1) : ~IsLong(T, t) /\ ShortBefore(T, t) <= idx /\ idx < ShortBefore(T, t) + DivUp(Count(T, t), BL)
                    IN P(T)[s * SB + (idx - ShortBefore(T, s)) * BL + 1] - Start(T, s)
\* in-word select: position of the rank-th element
SelWord(S, r) == SortedSeq(S)[r + 1]
RECURSIVE Scan(_, _, _, _)
Scan(T, word, value, rel) == LET ones == Cardinality(value) IN
     IF ones > rel THEN word * W + SelWord(value, rel)
     ELSE IF word + 1 >= NW THEN -2      \* would read past the buffer
     ELSE Scan(T, word + 1, TWord(T, word + 1), rel - ones)
SelectImpl(T, r) ==
  LET s == r \div SB   off == r % SB   base == Start(T, s) IN
  IF off = 0 THEN base
  ELSE IF IsLong(T, s) THEN base + LongArr(T, LongBefore(T, s) + off - (IF LongIdxBug THEN 1 ELSE 0))
  ELSE LET blk == off \div BL  rel == off % BL  res == base + ShortArr(T, ShortBefore(T, s) + blk) IN
       IF rel = 0 THEN res
       ELSE LET word == res \div W  woff == res % W IN Scan(T, word, {j \in TWord(T, word) : j >= woff}, rel)
Select(T, r) == IF r >= M(T) THEN -1 ELSE SelectImpl(T, r)
\* ---------- pred / succ (after fix F2: saturating) ----------
Pred(v) == LET r == IF v >= n THEN Rank(n) ELSE Rank(v + 1) IN IF r = 0 THEN <<-1, -1>> ELSE <<r - 1, Select("id", r - 1)>>
PredRef(v) == LET S == {p \in OnesSet : p <= v} IN IF S = {} THEN <<-1, -1>> ELSE <<Cardinality(S) - 1, Max(S)>>
Succ(v) == LET r == Rank(v) IN IF r >= M("id") THEN <<-1, -1>> ELSE <<r, Select("id", r)>>
SuccRef(v) == LET S == {p \in OnesSet : p >= v} IN IF S = {} THEN <<-1, -1>> ELSE <<Cardinality(OnesSet) - Cardinality(S), Min(S)>>
\* ---------- model ----------
Init == \E k \in 0..N : bits \in [1..k -> BOOLEAN]
Next == UNCHANGED bits
Spec == Init /\ [][Next]_bits
Refines == /\ \A i \in 0..(n + 1) : Rank(i) = RankRef(i)
           /\ \A r \in 0..(n + 1) : Select("id", r) = SelRef(OnesSet, r) /\ Select("comp", r) = SelRef(ZerosSet, r)
           /\ \A v \in 0..(n + 1) : Pred(v) = PredRef(v) /\ Succ(v) = SuccRef(v)
\* regime coverage witnesses (negated: TLC reports a "violation" = witness exists)
NoLongOffset == ~(\E s \in 0..(SBs("id") - 1) : IsLong("id", s) /\ Count("id", s) > 1)
NoLongAndShort == ~(\E s, t \in 0..(SBs("id") - 1) : IsLong("id", s) /\ ~IsLong("id", t) /\ s < t)
\* ---------- the arrays as the implementation stores them (for the drift check) ----------
\* fields of words beyond the end of a partial last block are stored as 0 (they are never read)
RankSamples == [b \in 1..Blocks |-> <<BlockStart(b - 1), [s \in 1..(RB - 1) |-> IF (b - 1) * RB + (s - 1) < NW THEN Rel(b - 1, s - 1) ELSE 0]>>]
SelSamples(T) == [s \in 1..SBs(T) |-> <<Start(T, s - 1), IF IsLong(T, s - 1) THEN 2 * LongBefore(T, s - 1) ELSE 2 * ShortBefore(T, s - 1) + 1>>]
LongTotal(T) == LongBefore(T, SBs(T))
ShortTotal(T) == ShortBefore(T, SBs(T))
LongArray(T) == [i \in 1..LongTotal(T) |-> LongArr(T, i - 1)]
ShortArray(T) == [i \in 1..ShortTotal(T) |-> ShortArr(T, i - 1)]
=============================================================================
