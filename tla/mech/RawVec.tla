------------------------------- MODULE RawVec -------------------------------
(***************************************************************************)
(* Layer B: RawVector as implemented (raw_vector.rs) over W-bit words:     *)
(* the pair (len, words) with write_int / read_int from mech/Words, the    *)
(* word pushed when an integer does not fit, the truncation of the word    *)
(* array after pops, and set_unused_bits() on every growing / shrinking    *)
(* path exactly where the code calls it.  Every history of bounded depth   *)
(* is explored at W = 4.  Invariants:                                      *)
(*   Shape     - the array has ceil(len / W) words;                        *)
(*   TailZero  - the unused bits of the last word are 0 (what makes the    *)
(*               derived ==, count_ones and the serialization functions of *)
(*               the logical content - C05, C07);                          *)
(*   Refines   - the logical content equals the Layer A state obtained by  *)
(*               SDSVec!Step for the same call, and results agree.         *)
(* ZeroTail = FALSE removes the re-zeroing after pop_int (the mutant the   *)
(* property names) for the self-test.                                      *)
(***************************************************************************)
EXTENDS Words, Sequences, TLC
CONSTANTS MaxBits, Depth, ZeroTail
SV == INSTANCE SDSVec

VARIABLES len, ws, abs, depth, lastOK
vars == <<len, ws, abs, depth, lastOK>>

NWords(n) == (n + W - 1) \div W
Resize(seq, k, fill) == [i \in 1..k |-> IF i <= Len(seq) THEN seq[i] ELSE fill]
SetUnused(l, words, value) ==
    LET index == l \div W width == l % W IN
    IF width = 0 THEN words
    ELSE [words EXCEPT ![index + 1] = IF value THEN Or(words[index + 1], Bits \ LowSetRef(width)) ELSE And(words[index + 1], LowSetRef(width))]
Filler(v) == IF v THEN Bits ELSE {}
BitAt(words, i) == (i % W) \in words[(i \div W) + 1]
Content(l, words) == [i \in 1..l |-> BitAt(words, i - 1)]

\* implementation of each call: <<len', words', result>>
PushBit(v) == LET w0 == IF len \div W = Len(ws) THEN Append(ws, {}) ELSE ws
              IN <<len + 1, [w0 EXCEPT ![(len \div W) + 1] = Or(w0[(len \div W) + 1], IF v THEN {len % W} ELSE {})], SV!Unit>>
PushInt(v, k) == IF k = 0 THEN <<len, ws, SV!Unit>>
                 ELSE LET w0 == IF len + k > Len(ws) * W THEN Append(ws, {}) ELSE ws
                      IN <<len + k, WriteImpl(w0, len, v, k), SV!Unit>>
PopBit == IF len = 0 THEN <<len, ws, SV!NoneRes>>
          ELSE LET r == BitAt(ws, len - 1) w1 == Resize(ws, NWords(len - 1), {}) IN
               <<len - 1, SetUnused(len - 1, w1, FALSE), SV!Val(SV!BoolSet(r))>>
PopInt(k) == IF len < k THEN <<len, ws, SV!NoneRes>>
             ELSE IF k = 0 THEN <<len, ws, SV!Val({})>>
             ELSE LET r == ReadImpl(ws, len - k, k) w1 == Resize(ws, NWords(len - k), {}) IN
                  <<len - k, IF ZeroTail THEN SetUnused(len - k, w1, FALSE) ELSE w1, SV!Val(r)>>
SetBit(i, v) == <<len, [ws EXCEPT ![(i \div W) + 1] = Or(ws[(i \div W) + 1] \ {i % W}, IF v THEN {i % W} ELSE {})], SV!Unit>>
SetInt(i, v, k) == IF k = 0 THEN <<len, ws, SV!Unit>> ELSE <<len, WriteImpl(ws, i, v, k), SV!Unit>>
ResizeTo(n, v) == LET w0 == IF n > len THEN SetUnused(len, ws, v) ELSE ws
                      w1 == Resize(w0, NWords(n), Filler(v))
                  IN <<n, SetUnused(n, w1, FALSE), SV!Unit>>
Complement == LET w1 == [k \in 1..Len(ws) |-> Bits \ ws[k]] IN <<len, SetUnused(len, w1, FALSE), SV!Unit>>
ClearAll == <<0, << >>, SV!Unit>>

Impl(c) == CASE c.op = "push_bit" -> PushBit(c.b)
             [] c.op = "push_int" -> PushInt(c.v, c.w)
             [] c.op = "pop_bit" -> PopBit
             [] c.op = "pop_int" -> PopInt(c.w)
             [] c.op = "set_bit" -> SetBit(c.i, c.b)
             [] c.op = "set_int" -> SetInt(c.i, c.v, c.w)
             [] c.op = "resize_bits" -> ResizeTo(c.n, c.b)
             [] c.op = "complement" -> Complement
             [] c.op = "clear" -> ClearAll

Vals == {{}, Bits, {0}, {W - 1}, {0, W - 1} \cup {W}}
Calls == {[op |-> "push_bit", b |-> x] : x \in (IF len < MaxBits THEN BOOLEAN ELSE {})}
         \cup UNION {{[op |-> "push_int", v |-> v, w |-> k] : v \in Vals} : k \in (IF len + W <= MaxBits THEN 0..W ELSE {})}
         \cup {[op |-> "pop_bit"], [op |-> "complement"], [op |-> "clear"]}
         \cup {[op |-> "pop_int", w |-> k] : k \in 0..W}
         \cup {[op |-> "set_bit", i |-> i, b |-> x] : i \in {0, len - 1} \cap 0..(len - 1), x \in BOOLEAN}
         \cup UNION {{[op |-> "set_int", i |-> i, v |-> v, w |-> k] : i \in {0, len - k} \cap 0..(len - k), v \in {Bits, {}}} : k \in 1..W}
         \cup {[op |-> "resize_bits", n |-> x, b |-> f] : x \in {0, len - 1, len + 1, len + W - 1, len + W, len + W + 1} \cap 0..MaxBits, f \in BOOLEAN}

Init == /\ \E n0 \in {0, 1, W - 1, W, W + 1} : \E f \in BOOLEAN :
             /\ len = n0
             /\ ws = SetUnused(n0, [k \in 1..NWords(n0) |-> Filler(f)], FALSE)        \* RawVector::with_len
             /\ abs = SV!WithLenRaw(n0, f)
        /\ depth = 0 /\ lastOK = TRUE
Next == /\ depth < Depth
        /\ \E c \in Calls :
             LET r == Impl(c) a == SV!Step(abs, c) IN
             /\ len' = r[1] /\ ws' = r[2] /\ abs' = a.st
             /\ lastOK' = (r[3] = a.res)
        /\ depth' = depth + 1

Shape == Len(ws) = NWords(len)
TailZero == len % W # 0 => \A x \in ws[Len(ws)] : x < len % W
Refines == lastOK /\ Content(len, ws) = abs.bits
Inv == Shape /\ TailZero /\ Refines
=============================================================================
