---- MODULE OneIter ----
EXTENDS Naturals, Integers, Sequences, FiniteSets, TLC, SequencesExt
CONSTANTS W, N, UB, Checks, FixNth
VARIABLES bits, nx, lim, oob, out, lo, hi    \* nx, lim = <<rank, pos>>; lo/hi = deque window over ones
vars == <<bits, nx, lim, oob, out, lo, hi>>
MAXU == 2^UB - 1
n == Len(bits)
NW == (n + W - 1) \div W
Ones == SetToSortSeq({i \in 0..(n - 1) : bits[i + 1]}, <)
M == Len(Ones)
Word(k) == {j \in 0..(W - 1) : k * W + j < n /\ bits[k * W + j + 1]}
Init == /\ \E k \in 0..N : bits \in [1..k -> BOOLEAN]
        /\ nx = <<0, 0>> /\ lim = <<M, n>> /\ oob = FALSE /\ out = <<"none", "none">> /\ lo = 0 /\ hi = M
\* forward scan for the rel-th one at or after position p; returns <<pos, oob>>
RECURSIVE FScan(_, _, _)
FScan(word, value, rel) == IF word >= NW THEN <<-1, TRUE>>
                           ELSE IF Cardinality(value) > rel THEN <<word * W + SetToSortSeq(value, <)[rel + 1], FALSE>>
                           ELSE FScan(word + 1, IF word + 1 < NW THEN Word(word + 1) ELSE {}, rel - Cardinality(value))
RefNth(k) == IF lo + k < hi THEN <<lo + k, Ones[lo + k + 1]>> ELSE <<-1, -1>>
NthCall(k) ==
  /\ ~oob /\ UNCHANGED <<bits, lim>>
  /\ LET sum == nx[1] + k
         overflow == sum > MAXU
         wrapped == sum % (MAXU + 1)
         exhausted == IF FixNth THEN k >= lim[1] - nx[1] ELSE (IF overflow THEN wrapped >= lim[1] ELSE sum >= lim[1])
         ref == RefNth(k)
     IN IF ~FixNth /\ overflow /\ Checks
        THEN /\ out' = <<"panic", ref>> /\ UNCHANGED <<nx, oob>> /\ lo' = (IF lo + k < hi THEN lo + k + 1 ELSE hi) /\ UNCHANGED hi
        ELSE IF exhausted
        THEN /\ nx' = lim /\ out' = <<<<-1, -1>>, ref>> /\ UNCHANGED oob /\ lo' = (IF lo + k < hi THEN lo + k + 1 ELSE hi) /\ UNCHANGED hi
        ELSE LET word == nx[2] \div W  off == nx[2] % W
                 r == FScan(word, {j \in (IF word < NW THEN Word(word) ELSE {}) : j >= off}, k % (MAXU + 1))
             IN /\ oob' = r[2]
                /\ out' = <<<<(nx[1] + k) % (MAXU + 1), r[1]>>, ref>>
                /\ nx' = <<(nx[1] + k + 1) % (MAXU + 1), r[1] + 1>>
                /\ lo' = (IF lo + k < hi THEN lo + k + 1 ELSE hi) /\ UNCHANGED hi
BackCall ==
  /\ ~oob /\ UNCHANGED <<bits, nx, oob>>
  /\ IF nx[1] >= lim[1] THEN /\ out' = <<<<-1, -1>>, IF lo < hi THEN <<hi - 1, Ones[hi]>> ELSE <<-1, -1>>>> /\ UNCHANGED <<lim, lo, hi>>
     ELSE LET p == Max({q \in 0..(lim[2] - 1) : bits[q + 1]}) IN
          /\ lim' = <<lim[1] - 1, p>> /\ out' = <<<<lim[1] - 1, p>>, <<hi - 1, Ones[hi]>>>> /\ hi' = hi - 1 /\ UNCHANGED lo
Next == \/ \E k \in {0, 1, 2, MAXU - 1, MAXU} : NthCall(k)
        \/ BackCall
Spec == Init /\ [][Next]_vars
Safe == ~oob
Agree == out[1] = out[2]
====
