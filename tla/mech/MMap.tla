-------------------------------- MODULE MMap --------------------------------
(***************************************************************************)
(* Layer B: the memory map as implemented (serialize.rs: MemoryMap::new /  *)
(* Drop) against a page-granular address space.  mmap of length 0 fails    *)
(* with MAP_FAILED (never NULL); munmap(addr, n) releases the pages that   *)
(* intersect [addr, addr + n).  The two design parameters the anchors      *)
(* point at are constants: FailTest ("map_failed" | "null") - what the     *)
(* result of mmap is compared with - and UnmapUnit ("bytes" | "elements")  *)
(* - the unit of the length passed to munmap.  With the repaired choices   *)
(* TLC shows NoLeak (after a map is dropped none of its pages stays        *)
(* mapped) and ValidWhenOk (an Ok map has a mapping of its whole length);  *)
(* with either of the original choices (F7, F8) an invariant fails - the   *)
(* self-test of the model.                                                 *)
(***************************************************************************)
EXTENDS Naturals, Integers, FiniteSets
CONSTANTS Sizes, PageSize, MaxLive, FailTest, UnmapUnit

VARIABLES maps, pages, next
vars == <<maps, pages, next>>
PagesOf(id, bytes) == {<<id, p>> : p \in 0..(((bytes + PageSize - 1) \div PageSize) - 1)}
Init == maps = {} /\ pages = {} /\ next = 1

\* MemoryMap::new on a file of `size` bytes (a multiple of 8)
New(size) ==
    /\ Cardinality(maps) < MaxLive /\ next <= 4
    /\ LET osFails == size = 0                                  \* mmap(len = 0) = MAP_FAILED
           seenAsFailure == IF FailTest = "map_failed" THEN osFails ELSE FALSE      \* MAP_FAILED is not NULL
       IN IF seenAsFailure THEN UNCHANGED <<maps, pages>>
          ELSE /\ maps' = maps \cup {[id |-> next, size |-> size, valid |-> ~osFails]}
               /\ pages' = IF osFails THEN pages ELSE pages \cup PagesOf(next, size)
    /\ next' = next + 1
Drop(mp) ==
    /\ LET n == IF UnmapUnit = "bytes" THEN mp.size ELSE mp.size \div 8 IN
         pages' = IF mp.valid THEN pages \ PagesOf(mp.id, n) ELSE pages
    /\ maps' = maps \ {mp} /\ UNCHANGED next
Next == (\E s \in Sizes : New(s)) \/ (\E mp \in maps : Drop(mp))
Spec == Init /\ [][Next]_vars

NoLeak == \A pg \in pages : \E mp \in maps : mp.id = pg[1]
ValidWhenOk == \A mp \in maps : mp.valid /\ PagesOf(mp.id, mp.size) \subseteq pages
Inv == NoLeak /\ ValidWhenOk
=============================================================================
