------------------------------ MODULE TempName ------------------------------
(***************************************************************************)
(* Temporary file names under concurrency (serialize::temp_file_name).     *)
(*                                                                         *)
(* Each call executes a PROGRAM: a constant sequence of atomic primitives  *)
(* on the shared counter - "fetch_add", "load", "store" (counter := reg+1) *)
(* "cas" (compare-and-swap reg -> reg+1, retried with the observed value   *)
(* on failure) - and then forms the name from (part, pid, reg).  The       *)
(* program is EXTRACTED from the real code (the traced counter logs the    *)
(* primitives one call performs) and given to TLC, which explores every    *)
(* interleaving of Threads x Calls.  Unique: no two completed calls got    *)
(* the same name (the name is injective in reg).  `sched` records which    *)
(* thread moved, so a counterexample is a schedule that can be replayed on *)
(* the real code through the hook's gates.                                 *)
(***************************************************************************)
EXTENDS Naturals, Sequences, FiniteSets
CONSTANTS Threads, Calls, Program

VARIABLES counter, reg, pc, left, names, sched
vars == <<counter, reg, pc, left, names, sched>>

Init == /\ counter = 0
        /\ reg = [t \in Threads |-> 0]
        /\ pc = [t \in Threads |-> 1]
        /\ left = [t \in Threads |-> Calls]
        /\ names = << >>
        /\ sched = << >>

\* thread t performs its next primitive (or, after the last one, returns its name)
Step(t) ==
    /\ left[t] > 0
    /\ sched' = Append(sched, t)
    /\ IF pc[t] > Len(Program)
       THEN /\ names' = Append(names, reg[t])
            /\ pc' = [pc EXCEPT ![t] = 1]
            /\ left' = [left EXCEPT ![t] = left[t] - 1]
            /\ UNCHANGED <<counter, reg>>
       ELSE LET op == Program[pc[t]] IN
            /\ UNCHANGED <<names, left>>
            /\ CASE op = "fetch_add" -> /\ reg' = [reg EXCEPT ![t] = counter] /\ counter' = counter + 1
                                        /\ pc' = [pc EXCEPT ![t] = pc[t] + 1]
                 [] op = "load"      -> /\ reg' = [reg EXCEPT ![t] = counter] /\ UNCHANGED counter
                                        /\ pc' = [pc EXCEPT ![t] = pc[t] + 1]
                 [] op = "store"     -> /\ counter' = reg[t] + 1 /\ UNCHANGED reg
                                        /\ pc' = [pc EXCEPT ![t] = pc[t] + 1]
                 [] op = "cas"       -> IF counter = reg[t]
                                        THEN /\ counter' = reg[t] + 1 /\ UNCHANGED reg /\ pc' = [pc EXCEPT ![t] = pc[t] + 1]
                                        ELSE /\ reg' = [reg EXCEPT ![t] = counter] /\ UNCHANGED <<counter, pc>>
Next == \E t \in Threads : Step(t)
Spec == Init /\ [][Next]_vars

\* No two completed calls in the process received the same name.
Unique == \A i, j \in 1..Len(names) : i # j => names[i] # names[j]
\* every name was a value of the counter
Sane == \A i \in 1..Len(names) : names[i] < counter
=============================================================================
