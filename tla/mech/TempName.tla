------------------------------ MODULE TempName ------------------------------
(***************************************************************************)
(* Temporary file names under concurrency (serialize::temp_file_name).     *)
(*                                                                         *)
(* Each call executes a PROGRAM: a constant sequence of atomic primitives  *)
(* on the shared counter - "fetch_add", "load", "store" (counter := reg+1) *)
(* "cas" (compare-and-swap reg -> reg+1, retried with the observed value   *)
(* on failure) - and then forms the name from (part, pid, reg).  The       *)
(* program is EXTRACTED from the real code (the traced counter logs the    *)
(* primitives one call performs) and given to TLC, which explores every    *)
(* interleaving of Threads x Calls.  Unique: no two completed calls got    *)
(* the same name (the name is injective in reg).  `sched` records which    *)
(* thread moved, so a counterexample is a schedule that can be replayed on *)
(* the real code through the hook's gates.                                 *)
(***************************************************************************)
EXTENDS Naturals, Sequences, FiniteSets
CONSTANTS Threads, Calls, Program, MaxAttempts     \* MaxAttempts: CAS attempts before the code gives up and proceeds anyway (0 = retries until it succeeds)

VARIABLES counter, reg, pc, left, names, dup, tries, sched
vars == <<counter, reg, pc, left, names, dup, tries, sched>>
\* `sched` is a history variable: it is hidden from the fingerprint by the VIEW, so it does not multiply states,
\* but it is printed with a counterexample.
View == <<counter, reg, pc, left, names, dup, tries>>

Init == /\ counter = 0
        /\ reg = [t \in Threads |-> 0]
        /\ pc = [t \in Threads |-> 1]
        /\ left = [t \in Threads |-> Calls]
        /\ names = {}
        /\ dup = FALSE
        /\ tries = [t \in Threads |-> 0]
        /\ sched = << >>

\* thread t performs its next primitive (or, after the last one, returns its name)
Step(t) ==
    /\ left[t] > 0
    /\ sched' = Append(sched, t)
    /\ IF pc[t] > Len(Program)
       THEN /\ names' = names \cup {reg[t]}
            /\ dup' = (dup \/ reg[t] \in names)
            /\ pc' = [pc EXCEPT ![t] = 1]
            /\ left' = [left EXCEPT ![t] = left[t] - 1]
            /\ UNCHANGED <<counter, reg, tries>>
       ELSE LET op == Program[pc[t]] IN
            /\ UNCHANGED <<names, dup, left>>
            /\ CASE op = "fetch_add" -> /\ reg' = [reg EXCEPT ![t] = counter] /\ counter' = counter + 1
                                        /\ pc' = [pc EXCEPT ![t] = pc[t] + 1] /\ UNCHANGED tries
                 [] op = "load"      -> /\ reg' = [reg EXCEPT ![t] = counter] /\ UNCHANGED <<counter, tries>>
                                        /\ pc' = [pc EXCEPT ![t] = pc[t] + 1]
                 [] op = "store"     -> /\ counter' = reg[t] + 1 /\ UNCHANGED <<reg, tries>>
                                        /\ pc' = [pc EXCEPT ![t] = pc[t] + 1]
                 [] op = "cas"       -> IF counter = reg[t]
                                        THEN /\ counter' = reg[t] + 1 /\ UNCHANGED reg /\ pc' = [pc EXCEPT ![t] = pc[t] + 1]
                                             /\ tries' = [tries EXCEPT ![t] = 0]
                                        ELSE IF MaxAttempts > 0 /\ tries[t] + 1 >= MaxAttempts
                                        THEN \* the code gives up after this failed attempt and carries on with what it has
                                             /\ UNCHANGED <<counter, reg>> /\ pc' = [pc EXCEPT ![t] = pc[t] + 1]
                                             /\ tries' = [tries EXCEPT ![t] = 0]
                                        ELSE /\ reg' = [reg EXCEPT ![t] = counter] /\ UNCHANGED <<counter, pc>>
                                             /\ tries' = [tries EXCEPT ![t] = tries[t] + 1]
Next == \E t \in Threads : Step(t)
Spec == Init /\ [][Next]_vars

\* No two completed calls in the process received the same name.
Unique == ~dup
\* every name was a value of the counter (a property of the model with the plain fetch_add program only: the name may be
\* any injective function of the register, so this is not checked against extracted programs)
Sane == \A v \in names : v < counter \/ dup
=============================================================================
