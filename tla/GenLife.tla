------------------------------- MODULE GenLife -------------------------------
(***************************************************************************)
(* Transition cover (and, with -simulate, random walks) of the lifecycle   *)
(* machine SDSLife.  The history is hidden by the VIEW, so that every      *)
(* reachable (object state, class of the previous call) is expanded once,  *)
(* reached by a shortest history, and every defined call from it is        *)
(* printed as one behaviour: the calls and, after each, the defined        *)
(* (kind, bits, support flags).  Invariants LifeOK and Content are checked *)
(* on the machine itself while it is explored.                             *)
(***************************************************************************)
EXTENDS SDSLife, TLC, Json
CONSTANTS MaxLen,      \* longest abstract bit sequence
          Ops,         \* classes of calls issued: subset of {"mut","to","enable","reload","file","writer","mapper","clone"}
          Kinds,       \* kinds an object may have (restricts the conversions)
          InitKinds,   \* kinds of the initial (empty) object
          IntWidths,   \* item widths of an initial integer vector
          Memory,      \* 1: the VIEW keeps the class of the previous call
          MaxDepth     \* longest history (bounds the random walks of -simulate; the cover needs no bound)

VARIABLES o, hist, init, last, last2
vars == <<o, hist, init, last, last2>>
\* Memory = 2 also keeps the class of the call before the previous one: what a mutator leaves behind in the representation (and the
\* abstract state hides) is then carried through one intermediate call into every following call
View == <<o, init, IF Memory >= 1 THEN last ELSE 0, IF Memory >= 2 THEN last2 ELSE 0>>

Sign(x, y) == IF x < y THEN "lt" ELSE IF x = y THEN "eq" ELSE "gt"
CallClass(s, c) == IF c.op = "resize" THEN <<c.op, Sign(c.n, Len(s.bits))>>
                   ELSE IF c.op = "to" THEN <<c.op, c.k>>
                   ELSE <<c.op>>

\* values written: bits for a raw vector; for an integer vector 0, the largest item and a value wider than the item
Vals(s) == IF s.kind = "int" THEN {0, 2^s.w - 1, 2^s.w + 1} ELSE {0, 1}      \* 2^w + 1 is stored as 1
AllCalls(s) ==
    {[op |-> "push", b |-> b] : b \in Vals(s)}
    \cup {[op |-> "pop"], [op |-> "clear"], [op |-> "compl"], [op |-> "pack"]}
    \cup {[op |-> "set", i |-> i, b |-> b] : i \in 0..(Len(s.bits) - 1), b \in Vals(s)}
    \cup {[op |-> "resize", n |-> n, b |-> b] : n \in 0..MaxLen, b \in Vals(s)}
    \cup {[op |-> "to", k |-> k] : k \in Kinds}
    \cup {[op |-> "enable", s |-> x] : x \in Supports \cup {"pred_succ"}}
    \cup {[op |-> "reload"], [op |-> "file"], [op |-> "writer"], [op |-> "mapper"], [op |-> "clone"]}

Calls(s) == {c \in AllCalls(s) : /\ OpClass(c) \in Ops
                                 /\ Enabled(s, c)
                                 /\ (c.op = "push" => Len(s.bits) < MaxLen)
                                 \* a raw vector made from a wider integer vector is longer than MaxLen: it is only shortened, not rewritten
                                 /\ (c.op \in {"set", "compl"} /\ s.kind = "raw" => Len(s.bits) <= MaxLen)
                                 /\ (c.op = "enable" /\ s.kind # "plain" => c.s = "rank")}   \* a no-op there: once is enough

Entry(c, n) == [c |-> c, kind |-> n.kind, bits |-> n.bits, w |-> n.w, flags |-> Flags(n)]

Init == /\ hist = << >> /\ last = << >> /\ last2 = << >>
        /\ \/ \E k \in InitKinds \ {"int"} : o = NewObj(k) /\ init = [kind |-> k, w |-> 0]
           \/ "int" \in InitKinds /\ \E w \in IntWidths : o = NewInt(w) /\ init = [kind |-> "int", w |-> w]

Next == /\ Len(hist) < MaxDepth
        /\ \E c \in Calls(o) :
            LET n == LStep(o, c)
                h == Append(hist, Entry(c, n))
            IN /\ o' = n
               /\ hist' = h
               /\ last' = CallClass(o, c)
               /\ last2' = last
               /\ UNCHANGED init
               /\ PrintT(<<"REPLAY", ToJson([k |-> "life", init |-> init, steps |-> h])>>)

Spec == Init /\ [][Next]_vars
Inv == /\ LifeOK(o)
       /\ \A c \in Calls(o) : ContentStable(o, c) /\ LifeOK(LStep(o, c))
Emit == TRUE
=============================================================================
