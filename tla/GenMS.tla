------------------------------- MODULE GenMS -------------------------------
(* Generator of multiset sparse vector cases: every universe 0..MaxU, every non-decreasing value list
   with at most MaxVals values (overfull ones included), every argument 0..u+1 and a huge one; plus
   arbitrary short sequences for try_from_iter (accepted iff non-decreasing). *)
EXTENDS MSRef, TLC, Json
CONSTANTS MaxU, MaxVals
VARIABLE M

AllSeqs(u) == UNION {[1..k -> 0..(u - 1)] : k \in 0..MaxVals}
Init == \E u \in 0..MaxU : \E s \in AllSeqs(u) : M = [universe |-> u, vals |-> s, sorted |-> NonDecreasing(s)]
Next == UNCHANGED M

Args == [i \in 1..(M.universe + 3) |-> IF i = M.universe + 3 THEN -1 ELSE i - 1]
Case ==
    IF ~M.sorted THEN [k |-> "ms", sorted |-> FALSE, universe |-> M.universe, vals |-> M.vals]
    ELSE LET m == Len(Args) IN
         [k |-> "ms", sorted |-> TRUE, universe |-> M.universe, vals |-> M.vals, args |-> Args,
          tfi |-> (FromIter(M.vals).universe = M.universe),
          ones |-> CountOnes(M), zeros |-> CountZeros(M), multi |-> IsMultiset(M),
          get  |-> [j \in 1..m |-> IF Args[j] >= 0 /\ Args[j] < M.universe THEN (IF Get(M, Args[j]) THEN 1 ELSE 0) ELSE -7],
          rank |-> [j \in 1..m |-> Rank(M, Args[j])],
          sel  |-> [j \in 1..m |-> Select(M, Args[j])],
          pred |-> [j \in 1..m |-> Pred(M, Args[j])],
          succ |-> [j \in 1..m |-> Succ(M, Args[j])],
          pairs |-> OnePairs(M), bits |-> Bits(M)]
Emit == PrintT(<<"REPLAY", ToJson(Case)>>)
=============================================================================
