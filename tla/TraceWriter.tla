----------------------------- MODULE TraceWriter -----------------------------
(* Trace specification for buffered writers: recorded pushes / closes on a real RawVectorWriter or
   IntVectorWriter must be steps of SDSWriter!WStep (len() counts what was pushed, close is
   idempotent, drop closes); at the end the file must be byte-identical to the serialization of the
   in-memory vector holding the pushed content (harness comparison, logged) and that content must be
   what the specification says was pushed. *)
EXTENDS SDSWriter, TraceCommon
VARIABLES l, wr
vars == <<l, wr>>
HasF(r, f) == f \in DOMAIN r
CallOf(c) == LET c1 == IF HasF(c, "v") THEN [c EXCEPT !.v = ToSet(c.v)] ELSE c
             IN IF HasF(c1, "vs") THEN [c1 EXCEPT !.vs = [k \in 1..Len(c.vs) |-> ToSet(c.vs[k])]] ELSE c1
TraceInit == l = 1 /\ wr = NewWriter("raw", 0)
New == /\ l <= Len(Rec) /\ Rec[l].e = "w_new"
       /\ wr' = NewWriter(Rec[l].cfg.kind, Rec[l].cfg.width)
       /\ Rec[l].obs = Obs(wr')
       /\ l' = l + 1
Call == /\ l <= Len(Rec) /\ Rec[l].e = "w_call"
        /\ LET c == CallOf(Rec[l].c) IN
             /\ WEnabled(wr, c)
             /\ LET r == WStep(wr, c) IN Rec[l].res = r.res /\ Rec[l].obs = Obs(r.wr) /\ wr' = r.wr
        /\ l' = l + 1
End == /\ l <= Len(Rec) /\ Rec[l].e = "w_end"
       /\ LET e == Rec[l] IN
            /\ e.file_eq_vector = TRUE
            /\ e.content_len = Len(wr.bits)
            /\ (e.ones_logged => ToSet(e.content_ones) = OnesOf(wr.bits))
            /\ (e.ending = "drop" => wr.open) /\ (e.ending # "drop" => ~wr.open)
       /\ UNCHANGED wr /\ l' = l + 1
TraceNext == New \/ Call \/ End
TraceSpec == TraceInit /\ [][TraceNext]_vars
=============================================================================
