----------------------------- MODULE SDSBuilder -----------------------------
(***************************************************************************)
(* Layer A: the two builders (sparse_vector::SparseBuilder and             *)
(* rl_vector::RLBuilder) as state machines.                                *)
(*                                                                         *)
(* A call is ACCEPTED iff it is in order, in range, within capacity and    *)
(* does not overflow; an accepted call updates the counters exactly; a     *)
(* refused call returns an error (try_ variants) or panics as documented   *)
(* (set, extend) and leaves the builder UNCHANGED.  Finishing succeeds     *)
(* exactly when the type allows it and yields the vector whose set bits    *)
(* are the accepted positions.                                             *)
(*                                                                         *)
(* Results: "ok", "err" (an Err value), "panic" (the documented panic).    *)
(* Index arguments are naturals or a negative huge token.                  *)
(***************************************************************************)
EXTENDS Naturals, Integers, Sequences, FiniteSets, SequencesExt

BHuge(a) == a < 0

----------------------------------------------------------------------------
(* Sparse builder: [kind |-> "sparse", universe, cap, multiset, len, next, pos] *)

NewSparse(u, m, multi) == [kind |-> "sparse", universe |-> u, cap |-> m, multiset |-> multi, len |-> 0, next |-> 0, pos |-> << >>]
\* SparseBuilder::new refuses more set bits than the universe; ::multiset accepts anything
NewSparseOK(u, m) == m <= u

SFull(b) == b.len = b.cap
SAccepts(b, i) == ~SFull(b) /\ ~BHuge(i) /\ i >= b.next /\ i < b.universe
SAccept(b, i) == [b EXCEPT !.len = b.len + 1, !.next = i + (IF b.multiset THEN 0 ELSE 1), !.pos = Append(b.pos, i)]

\* the longest accepted prefix of a list of indices, applied
RECURSIVE SExtend(_, _)
SExtend(b, is) == IF is = << >> THEN [b |-> b, res |-> "ok"]
                  ELSE IF SAccepts(b, Head(is)) THEN SExtend(SAccept(b, Head(is)), Tail(is))
                  ELSE [b |-> b, res |-> "panic"]

SparseObs(b) == [len |-> b.len, capacity |-> b.cap, universe |-> b.universe, next_index |-> b.next,
                 is_full |-> SFull(b), is_multiset |-> b.multiset, is_empty |-> (b.len = 0)]

----------------------------------------------------------------------------
(* Run-length builder: [kind |-> "rl", len, ones, bits (set of positions)] *)

NewRL == [kind |-> "rl", len |-> 0, ones |-> 0, bits |-> {}]

\* A run must end at or before usize::MAX.  With the small naturals of the model that can only fail for a huge token: the
\* generator issues a huge length only with start >= 1 and a huge start only with n >= 1, and both are refused
\* (further extreme arguments are covered by GenCtor).
RAccepts(b, start, n) == ~BHuge(start) /\ ~BHuge(n) /\ start >= b.len
RSet(b, start, n) == IF n = 0 THEN b
                     ELSE [b EXCEPT !.len = start + n, !.ones = b.ones + n, !.bits = b.bits \cup (start..(start + n - 1))]

RLObs(b) == [len |-> b.len, count_ones |-> b.ones, count_zeros |-> b.len - b.ones, is_empty |-> (b.len = 0)]

----------------------------------------------------------------------------
(* One transition function for both *)

BStep(b, c) ==
    IF b.kind = "sparse" THEN
        CASE c.op = "try_set" -> IF SAccepts(b, c.i) THEN [b |-> SAccept(b, c.i), res |-> "ok"] ELSE [b |-> b, res |-> "err"]
          [] c.op = "set"     -> IF SAccepts(b, c.i) THEN [b |-> SAccept(b, c.i), res |-> "ok"] ELSE [b |-> b, res |-> "panic"]
          [] c.op = "extend"  -> SExtend(b, c.is)
    ELSE
        CASE c.op = "try_set" -> IF RAccepts(b, c.i, c.n) THEN [b |-> RSet(b, c.i, c.n), res |-> "ok"] ELSE [b |-> b, res |-> "err"]
          [] c.op = "set_len" -> [b |-> IF ~BHuge(c.n) /\ c.n > b.len THEN [b EXCEPT !.len = c.n] ELSE b, res |-> "ok"]

Obs(b) == IF b.kind = "sparse" THEN SparseObs(b) ELSE RLObs(b)

\* Finishing: TryFrom<SparseBuilder> succeeds iff the builder is full; From<RLBuilder> always.
\* The vector has the builder's universe / length and exactly the accepted positions.
FinishOK(b) == IF b.kind = "sparse" THEN SFull(b) ELSE TRUE
FinalLen(b) == IF b.kind = "sparse" THEN b.universe ELSE b.len
FinalOnes(b) == IF b.kind = "sparse" THEN b.pos ELSE SetToSortSeq(b.bits, <)

\* Invariants
BuilderOK(b) ==
    IF b.kind = "sparse"
    THEN /\ b.len = Len(b.pos) /\ b.len <= b.cap
         /\ \A k \in 1..(Len(b.pos) - 1) : IF b.multiset THEN b.pos[k] <= b.pos[k + 1] ELSE b.pos[k] < b.pos[k + 1]
         /\ \A k \in 1..Len(b.pos) : b.pos[k] < b.universe /\ b.pos[k] + (IF b.multiset THEN 0 ELSE 1) <= b.next
    ELSE /\ b.ones = Cardinality(b.bits) /\ \A p \in b.bits : p < b.len
=============================================================================
