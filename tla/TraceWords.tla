----------------------------- MODULE TraceWords -----------------------------
(* Trace specification for the bit-level primitives at the real word size: recorded write_int /
   read_int / select calls must give exactly what the reference operators of mech/Words define.
   Words arrive as 16-bit limbs.  Verdicts are computed at constant level (see TraceFormat). *)
EXTENDS Words, TraceCommon
VARIABLES l
vars == <<l>>
PosOfLimbs(ls) == UNION {{16 * (k - 1) + b : b \in {c \in 0..15 : (ls[k] \div 2^c) % 2 = 1}} : k \in 1..Len(ls)}
RwOK(e) == LET bg == PosOfLimbs(e.bg) v == PosOfLimbs(e.v) after == WriteRef(bg, e.off, v, e.w) IN
           /\ PosOfLimbs(e.read_bg) = ReadRef(bg, e.off, e.w)
           /\ PosOfLimbs(e.arr) = after
           /\ PosOfLimbs(e.read) = {b \in v : b < e.w}
SelOK(e) == LET n == PosOfLimbs(e.word) IN e.rank < Cardinality(n) /\ e.pos = SelectRef(n, e.rank)
Verdict == [j \in 1..Len(Rec) |-> IF Rec[j].e = "rw" THEN RwOK(Rec[j]) ELSE IF Rec[j].e = "sel" THEN SelOK(Rec[j]) ELSE FALSE]
TraceInit == l = 1
Event == l <= Len(Rec) /\ Verdict[l] /\ l' = l + 1
TraceNext == Event
TraceSpec == TraceInit /\ [][TraceNext]_vars
=============================================================================
