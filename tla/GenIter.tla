------------------------------- MODULE GenIter -------------------------------
(***************************************************************************)
(* Transition cover of the iterator machine (spec -> impl).  For every     *)
(* item count n in 0..MaxN and every capability set, TLC explores the      *)
(* window graph; the history variable is hidden by the VIEW, so each       *)
(* window state is expanded once, with the shortest call history that      *)
(* reaches it, and EVERY outgoing transition is printed as one behaviour:  *)
(* that history plus the call, followed by a drain that exhausts the       *)
(* iterator (fused: None stays None).  Also checks partition: the indexes  *)
(* yielded along any behaviour are pairwise distinct and leave exactly the *)
(* window.                                                                 *)
(***************************************************************************)
EXTENDS SDSIter, TLC, Json, FiniteSets
CONSTANTS MaxN, Ks, Memory

VARIABLES n, caps, it, hist, yielded, last
vars == <<n, caps, it, hist, yielded, last>>
\* The window hides what an implementation may remember between calls (a cached word, a block limit, a
\* candidate at either end), so with Memory = 1 the VIEW also keeps the previous call's operation and
\* whether it returned an item: every (window, previous operation) is expanded with every call.
View == <<n, caps, it, IF Memory = 1 THEN last ELSE 0>>

KArgs(cnt) == (Ks \cup ({cnt, cnt - 1} \cap Nat)) \cup {-1}

Calls(c, cnt) ==
    {[op |-> "next"], [op |-> "clone"]}
    \cup {[op |-> "nth", k |-> k] : k \in KArgs(cnt)}
    \cup (IF c.de THEN {[op |-> "next_back"]} \cup {[op |-> "nth_back", k |-> k] : k \in KArgs(cnt)} ELSE {})
    \cup (IF c.exact THEN {[op |-> "len"]} ELSE {})

Init == /\ n \in 0..MaxN
        /\ caps \in {[de |-> TRUE, exact |-> TRUE], [de |-> FALSE, exact |-> TRUE], [de |-> FALSE, exact |-> FALSE]}
        /\ it = NewIter(0, n)
        /\ hist = << >>
        /\ yielded = {}
        /\ last = << >>

Entry(c, r) == [c |-> c, res |-> r.res, lo |-> r.it.lo, hi |-> r.it.hi]

Next == \E c \in Calls(caps, Remaining(it)) :
           LET r == IterStep(it, c)
               h == Append(hist, Entry(c, r))
           IN /\ it' = r.it
              /\ hist' = h
              /\ yielded' = IF c.op \in {"len", "clone"} \/ r.res = INone THEN yielded ELSE yielded \cup {r.res}
              /\ UNCHANGED <<n, caps>>
              /\ last' = <<c.op, r.res = INone>>
              /\ PrintT(<<"REPLAY", ToJson([k |-> "iter", n |-> n, de |-> caps.de, exact |-> caps.exact, steps |-> h])>>)

Spec == Init /\ [][Next]_vars

\* Partition: what was yielded and what is left are disjoint and together cover 0..n-1; no index twice
\* (an index can only be yielded when it is inside the window, and the window then shrinks past it).
Partition == /\ WindowOK(it, n)
             /\ yielded \cap (it.lo..(it.hi - 1)) = {}
             /\ yielded \cup (it.lo..(it.hi - 1)) \subseteq 0..(n - 1)
=============================================================================
