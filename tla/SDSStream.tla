----------------------------- MODULE SDSStream -----------------------------
(***************************************************************************)
(* Layer A: serialization streams, files and mapped views.                 *)
(*                                                                         *)
(* A stream / file is a sequence of RECORDS, one per serialized structure; *)
(* a record occupies `size` 8-byte elements.  Serialize appends exactly    *)
(* one record of SizeOf(x) elements and reports 8 * SizeOf(x) bytes;       *)
(* Load of type T at a record boundary consumes exactly that record and    *)
(* returns a value equal to the one written; so structures written back    *)
(* to back load back in sequence (Tiling).  Faults: a stream cut short     *)
(* inside a record, or a sink that accepts fewer bytes than the record     *)
(* needs, make Load / Serialize return an error - never a value, never a   *)
(* panic.  A mapped view at a record start exposes the record's content,   *)
(* its offset and its length (so views tile the file); at an offset at or  *)
(* beyond the end of the file, or when the record runs past the end of a   *)
(* truncated file, the view is refused with an error.                      *)
(*                                                                         *)
(* Values are tagged records (see GenStream for the pool).  SizeOf gives   *)
(* the number of elements for the types whose size the format document     *)
(* determines; for structures with implementation-dependent parts          *)
(* (support structures, sparse parameters, run-length blocks) it is        *)
(* Unknown and the check uses the size the library declares, cross-checked *)
(* by the document-derived decoder of Format.tla.                          *)
(***************************************************************************)
EXTENDS Naturals, Integers, Sequences, FiniteSets

Unknown == -1
CeilDiv(a, b) == (a + b - 1) \div b

RECURSIVE SizeOf(_)
SizeOf(x) ==
    CASE x.t \in {"u64", "usize"} -> 1
      [] x.t = "pair"     -> 2
      [] x.t = "vec_u64"  -> 1 + Len(x.v)
      [] x.t = "vec_pair" -> 1 + 2 * Len(x.v)
      [] x.t \in {"bytes", "string"} -> 1 + CeilDiv(Len(x.v), 8)
      [] x.t = "none"     -> 1
      [] x.t = "some"     -> LET s == SizeOf(x.inner) IN IF s = Unknown THEN Unknown ELSE 1 + s
      [] x.t = "raw"      -> 2 + CeilDiv(x.len, 64)
      [] x.t = "int"      -> 4 + CeilDiv(Len(x.v) * x.w, 64)
      [] x.t = "bv"       -> IF x.sup = << >> THEN 1 + (2 + CeilDiv(x.len, 64)) + 3 ELSE Unknown
      [] OTHER            -> Unknown

\* size predicted from parameters alone
RawSizeByParams(capacity) == 2 + CeilDiv(capacity, 64)
IntSizeByParams(capacity, width) == 2 + RawSizeByParams(capacity * width)

Mappable(x) ==
    CASE x.t \in {"vec_u64", "vec_pair", "bytes", "string", "raw", "int"} -> TRUE
      [] x.t = "none" -> x.of \in {"vec_u64", "vec_pair", "bytes", "string", "raw", "int"}
      [] x.t = "some" -> x.inner.t \in {"vec_u64", "vec_pair", "bytes", "string", "raw", "int"}
      [] OTHER -> FALSE

----------------------------------------------------------------------------
(* The abstract stream machine over record sizes (model-checked in MC_Stream). *)
(* recs: sizes of the records written so far; pos: read position in elements;  *)
(* cut: the stream is truncated to `cut` BYTES (or -1).                        *)

Offsets(recs) == [k \in 1..(Len(recs) + 1) |-> LET f[j \in 0..Len(recs)] == IF j = 0 THEN 0 ELSE f[j - 1] + recs[j] IN f[k - 1]]
Total(recs) == Offsets(recs)[Len(recs) + 1]

\* Load at read position pos (elements) of the record that starts there
LoadResult(recs, k, cutBytes) ==
    LET off == Offsets(recs)[k] end == off + recs[k] IN
    IF cutBytes >= 0 /\ cutBytes < 8 * end THEN "err" ELSE "ok"

\* a view of record k of a file truncated to t elements (t = Total when not truncated)
ViewResult(recs, k, t) == IF Offsets(recs)[k] + recs[k] <= t THEN "ok" ELSE "err"
\* a view requested at an offset at or beyond the end of the file
ViewAtOutside(off, t) == IF off >= t THEN "err" ELSE "unspecified"

\* Serialize with a sink that accepts `budget` bytes
SerializeResult(size, budget) == IF budget >= 0 /\ budget < 8 * size THEN "err" ELSE "ok"
=============================================================================
