----------------------------- MODULE TraceStream -----------------------------
(* Trace specification for serialization streams of large real values: every recorded serialize /
   load must be a step of the Layer A stream machine: a write appends one record of exactly the
   declared size (and of the size the format determines, where it does), loads consume the records
   in order, each exactly, returning an equal value that answers as the original; nothing is left. *)
EXTENDS SDSStream, TraceCommon
VARIABLES l, recs, rd
vars == <<l, recs, rd>>

\* size the format determines from the logged parameters of a large value
SizeOfDesc(d) ==
    CASE d.t = "vec_u64"  -> 1 + d.n
      [] d.t = "vec_pair" -> 1 + 2 * d.n
      [] d.t \in {"bytes", "string"} -> 1 + CeilDiv(d.n, 8)
      [] d.t = "raw"      -> 2 + CeilDiv(d.n, 64)
      [] d.t = "int"      -> 4 + CeilDiv(d.n * d.w, 64)
      [] d.t = "opt_none" -> 1
      [] OTHER            -> Unknown

TraceInit == l = 1 /\ recs = << >> /\ rd = 1
Begin == /\ l <= Len(Rec) /\ Rec[l].e = "s_begin" /\ recs' = << >> /\ rd' = 1 /\ l' = l + 1
Write == /\ l <= Len(Rec) /\ Rec[l].e = "s_write"
         /\ LET e == Rec[l] IN
              /\ e.ok = TRUE
              /\ e.bytes = 8 * e.elems /\ e.size_in_bytes = 8 * e.elems
              /\ (SizeOfDesc(e.d) # Unknown => e.elems = SizeOfDesc(e.d))
              /\ recs' = Append(recs, e.elems)
         /\ UNCHANGED rd /\ l' = l + 1
Load == /\ l <= Len(Rec) /\ Rec[l].e = "s_load"
        /\ rd <= Len(recs)
        /\ LET e == Rec[l] IN
             /\ e.ok = TRUE /\ e.consumed = 8 * recs[rd] /\ e.eq = TRUE /\ e.answers_eq = TRUE
        /\ rd' = rd + 1 /\ UNCHANGED recs /\ l' = l + 1
End == /\ l <= Len(Rec) /\ Rec[l].e = "s_end"
       /\ rd = Len(recs) + 1 /\ Rec[l].left = 0 /\ Rec[l].file_bytes = 8 * Total(recs)
       /\ UNCHANGED <<recs, rd>> /\ l' = l + 1
TraceNext == Begin \/ Write \/ Load \/ End
TraceSpec == TraceInit /\ [][TraceNext]_vars
TilingInv == rd \in 1..(Len(recs) + 1)
=============================================================================
