------------------------------ MODULE TraceVec ------------------------------
(***************************************************************************)
(* Trace specification for raw / integer vector histories: every recorded  *)
(* call of the real library must be a step of the Layer A vector machine   *)
(* (SDSVec!Step) with exactly the defined result and the defined state     *)
(* after the call, and the object must be history independent: equal to,   *)
(* and byte-identical with, the canonically built vector of the same       *)
(* content, with the same number of set bits (`canon` = <<1, 1, ones>>).   *)
(***************************************************************************)
EXTENDS SDSVec, TraceCommon

VARIABLES l, st
vars == <<l, st>>

HasF(r, f) == f \in DOMAIN r
\* JSON arrays arrive as sequences: turn value fields back into sets of bit positions.
CallOf(c) ==
    LET c1 == IF HasF(c, "v") THEN [c EXCEPT !.v = ToSet(c.v)] ELSE c
    IN IF HasF(c1, "vs") THEN [c1 EXCEPT !.vs = [k \in 1..Len(c.vs) |-> ToSet(c.vs[k])]] ELSE c1

Construct(c) ==
    CASE c.op = "new"               -> NewInt(c.w)
      [] c.op = "with_capacity"     -> NewInt(c.w)
      [] c.op = "with_len"          -> WithLenInt(c.n, c.w, ToSet(c.v))
      [] c.op \in {"from_vec", "from_iter"} -> FromItems(c.w, [k \in 1..Len(c.vs) |-> ToSet(c.vs[k])])
      [] c.op = "new_raw"           -> NewRaw
      [] c.op = "with_capacity_raw" -> NewRaw
      [] c.op = "with_len_raw"      -> WithLenRaw(c.n, c.b)

Matches(s, e) ==
    /\ e.obs.len = Len(s.bits)
    /\ e.obs.width = s.width
    /\ ToSet(e.obs.ones) = OnesOf(s.bits)
    /\ e.canon = <<1, 1, Cardinality(OnesOf(s.bits))>>

TraceInit == l = 1 /\ st = NewRaw

Start ==
    /\ l <= Len(Rec) /\ Rec[l].e = "init"
    /\ LET s == Construct(Rec[l].c) IN Matches(s, Rec[l]) /\ st' = s
    /\ l' = l + 1

Call ==
    /\ l <= Len(Rec) /\ Rec[l].e = "call"
    /\ LET e == Rec[l]
           c == CallOf(e.c)
       IN /\ InDomain(st, c)
          /\ LET r == Step(st, c) IN
               /\ <<e.res[1], ToSet(e.res[2])>> = r.res
               /\ Matches(r.st, e)
               /\ st' = r.st
    /\ l' = l + 1

TraceNext == Start \/ Call
TraceSpec == TraceInit /\ [][TraceNext]_vars
StateOK == TypeOK(st)
=============================================================================
