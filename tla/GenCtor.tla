------------------------------- MODULE GenCtor -------------------------------
(***************************************************************************)
(* Layer A: which constructor / builder-entry calls are DEFINED to succeed *)
(* and which to be refused with an error (never a panic), for every        *)
(* argument including the extreme ones.  Extended naturals: a small        *)
(* natural n is <<0, n>>, the value usize::MAX - d is <<1, d>>.            *)
(***************************************************************************)
EXTENDS Naturals, Integers, Sequences, TLC, Json
CONSTANT Smalls           \* small naturals used as arguments and as distances from usize::MAX

Ext == {<<0, n>> : n \in Smalls} \cup {<<1, d>> : d \in Smalls}
IsBig(x) == x[1] = 1
\* x < y
ELt(x, y) == IF IsBig(x) = IsBig(y) THEN (IF IsBig(x) THEN x[2] > y[2] ELSE x[2] < y[2]) ELSE IsBig(y)
ELe(x, y) == x = y \/ ELt(x, y)
\* x + y > usize::MAX
EOverflow(x, y) == IF IsBig(x) /\ IsBig(y) THEN TRUE
                   ELSE IF IsBig(x) THEN y[2] > x[2]
                   ELSE IF IsBig(y) THEN x[2] > y[2]
                   ELSE FALSE
J(x) == IF IsBig(x) THEN [mm |-> x[2]] ELSE [n |-> x[2]]

WidthOK(w) == ~IsBig(w) /\ w[2] >= 1 /\ w[2] <= 64

Cases ==
    \* integer vector constructors: the width must be 1..64
    {[c |-> [op |-> op, w |-> J(w), n |-> 3], exp |-> IF WidthOK(w) THEN "ok" ELSE "err"] :
        op \in {"IntVector::new", "IntVector::with_len", "IntVector::with_capacity", "IntVectorWriter::new", "IntVectorWriter::with_buf_len"},
        w \in Ext \cup {<<0, 63>>, <<0, 64>>, <<0, 65>>}}
    \* sparse builder: more set bits than the universe is refused (only small universes are constructed)
    \cup {[c |-> [op |-> "SparseBuilder::new", n |-> J(n), m |-> J(m)], exp |-> IF ELe(m, n) THEN "ok" ELSE "err"] :
        n \in {x \in Ext : ~IsBig(x)}, m \in Ext}
    \* ... and universes at the top of the range with at least one and few set bits (with none, the builder keeps 1-bit low parts and
    \* needs universe / 2 bits of memory): accepted; the harness then sets the last m positions and converts the builder
    \cup {[c |-> [op |-> "SparseBuilder::new", n |-> J(n), m |-> J(m)], exp |-> "ok"] :
        n \in {x \in Ext : IsBig(x)}, m \in {x \in Ext : ~IsBig(x) /\ x[2] >= 1}}
    \* run-length builder: after reaching length len0, try_set(start, len) is refused iff start < len0 or start + len overflows
    \cup {[c |-> [op |-> "RLBuilder::try_set", len0 |-> J(l0), start |-> J(s), len |-> J(n)],
           exp |-> IF ELt(s, l0) \/ EOverflow(s, n) THEN "err" ELSE "ok"] :
        l0 \in {x \in Ext : ~IsBig(x)}, s \in Ext, n \in Ext}

VARIABLE case
Init == case \in Cases
Next == UNCHANGED case
Emit == PrintT(<<"REPLAY", ToJson([k |-> "ctor", c |-> case.c, exp |-> case.exp])>>)
=============================================================================
