------------------------------- MODULE GenBV -------------------------------
(***************************************************************************)
(* Behaviour generator for the bitvector query actions of Layer A          *)
(* (spec -> implementation direction).  Every state is one bitvector       *)
(* content; the invariant prints the content together with the DEFINED     *)
(* answer of every query for every argument as one JSON line.  The Rust    *)
(* harness builds the content with the real library by every public route  *)
(* and compares each answer.  TLC is generator and oracle.                 *)
(*                                                                         *)
(* Mode "bits":   every bit sequence of length 0..N, every argument        *)
(*                0..len+1 and a huge argument.                            *)
(* Mode "family": boundary family - lengths around word / rank-block /     *)
(*                select-block / superblock multiples x structured         *)
(*                patterns; arguments at the edges.                        *)
(***************************************************************************)
EXTENDS BVRef, TLC, Json
CONSTANTS N, Mode, FamilyLens, RLClasses, RLMaxRuns, RLTails, SpreadPos, SpreadK
VARIABLE B

Undefined == -7

AllArgs(n) == [i \in 1..(n + 3) |-> IF i = n + 3 THEN -1 ELSE i - 1]

Evens(L) == [k \in 1..((L + 1) \div 2) |-> <<2 * (k - 1), 1>>]
Single(L, p) == IF p < L THEN {<<<<p, 1>>>>} ELSE {}
AllBut(L, p) == IF p < L /\ L >= 2 THEN
                   {IF p = 0 THEN <<<<1, L - 1>>>> ELSE IF p = L - 1 THEN <<<<0, L - 1>>>> ELSE <<<<0, p>>, <<p + 1, L - p - 1>>>>}
                ELSE {}
Patterns(L) == {<< >>, <<<<0, L>>>>, Evens(L), <<<<L \div 3, (L \div 3) + 1>>>>}
               \cup UNION {Single(L, p) : p \in {0, 63, 64, 511, 512, L - 1}}
               \cup UNION {AllBut(L, p) : p \in {0, 64, L - 1}}
Family == UNION {{[len |-> L, runs |-> P] : P \in Patterns(L)} : L \in FamilyLens}

\* Mode "rl": run lists whose gaps and lengths come from value classes around the code-unit
\* boundaries of the run-length encoding (1 unit < 8, 2 units < 64, 3 units < 512, ...); the first
\* gap may be 0 (a run at position 0); trailing zeros from RLTails.
RECURSIVE RLLists(_)
RLLists(k) == IF k = 0 THEN {<< >>}
              ELSE LET prev == RLLists(k - 1) IN
                   prev \cup {Append(p, <<g, n>>) : p \in {q \in prev : Len(q) = k - 1},
                                                   g \in (IF k = 1 THEN RLClasses \cup {0} ELSE RLClasses), n \in RLClasses}
\* gap/length pairs -> absolute runs
AbsRuns(gl) == FoldLeft(LAMBDA acc, p : LET prevEnd == IF Len(acc) = 0 THEN 0 ELSE acc[Len(acc)][1] + acc[Len(acc)][2]
                                       IN Append(acc, <<prevEnd + p[1], p[2]>>), << >>, gl)
RLFamily == {LET r == AbsRuns(gl) e == IF Len(r) = 0 THEN 0 ELSE r[Len(r)][1] + r[Len(r)][2]
             IN [len |-> e + t, runs |-> r] : gl \in RLLists(RLMaxRuns), t \in RLTails}

\* Mode "spread": a few set bits (or a few unset bits) spread over several 64-bit words, so that
\* word-scanning iterators and queries cross word boundaries; every argument 0..len+1.
SpreadFamily == UNION {{FromSet(L, S), FromSet(L, (0..(L - 1)) \ S)} :
                          S \in {T \in SUBSET SpreadPos : Cardinality(T) <= SpreadK}, L \in FamilyLens}

\* Mode "rlblocks": k equal runs (gap 9 = 2 code units, length 3 = 1 unit: 21 runs fill 63 of the 64 units of a
\* block, so every block but the last ends with one unit of padding) - contents whose run-length encoding has
\* two or three blocks with only a few runs in the last one; every argument 0..len+1.
BlockFamily == {LET r == [i \in 1..k |-> <<(i - 1) * 12 + 9, 3>>] IN [len |-> k * 12 + t, runs |-> r] : k \in {21, 22, 23, 43, 44}, t \in {0, 4}}

EdgeArgs(b) ==
    LET L == b.len
        k == Len(b.runs)
        near(x) == {x - 1, x, x + 1, x + 2}
        edges == UNION {near(w) : w \in {0, 64, 128, 512, 1024, 4096, L}}
        runEdges == UNION {near(b.runs[j][1]) \cup near(b.runs[j][1] + b.runs[j][2]) :
                             j \in {j2 \in {1, 2, 3, k - 2, k - 1, k} : j2 >= 1 /\ j2 <= k}}
        counts == UNION {near(c) : c \in {Ones(b), Zeros(b), 4096, 64}}
        S == {a \in edges \cup runEdges \cup counts : a >= 0 /\ a <= L + 1}
    IN SetToSortSeq(S, <) \o <<-1>>

Init == \/ /\ Mode = "bits"
           /\ \E k \in 0..N : \E bits \in [1..k -> BOOLEAN] : B = FromBits(bits)
        \/ /\ Mode = "family"
           /\ B \in Family
        \/ /\ Mode = "rl"
           /\ B \in RLFamily
        \/ /\ Mode = "spread"
           /\ B \in SpreadFamily
        \/ /\ Mode = "rlblocks"
           /\ B \in BlockFamily
Next == UNCHANGED B
Spec == Init /\ [][Next]_B

Case ==
    LET args == IF Mode \in {"bits", "spread", "rlblocks"} THEN AllArgs(B.len) ELSE EdgeArgs(B)
        m == Len(args)
        InLen(a) == a >= 0 /\ a < B.len
    IN [k |-> "bv", len |-> B.len, runs |-> B.runs, args |-> args,
        get   |-> [j \in 1..m |-> IF InLen(args[j]) THEN (IF Get(B, args[j]) THEN 1 ELSE 0) ELSE Undefined],
        rank  |-> [j \in 1..m |-> Rank(B, args[j])],
        rank0 |-> [j \in 1..m |-> IF args[j] >= 0 /\ args[j] <= B.len THEN RankZero(B, args[j]) ELSE Undefined],
        sel   |-> [j \in 1..m |-> Select(B, args[j])],
        sel0  |-> [j \in 1..m |-> SelectZero(B, args[j])],
        pred  |-> [j \in 1..m |-> Pred(B, args[j])],
        succ  |-> [j \in 1..m |-> Succ(B, args[j])],
        runiter |-> RunItems(B)]

Emit == WellFormed(B) /\ PrintT(<<"REPLAY", ToJson(Case)>>)
=============================================================================
