----------------------------- MODULE MC_BVRef64 -----------------------------
(* The U64 reference semantics agrees with the natural-number semantics of BVRef on every bit sequence
   of length 0..N and every argument, when the numbers are small; and limb arithmetic is correct across
   limb boundaries (checked on values around 2^24 and 2^48). *)
EXTENDS BVRef64, TLC
BR == INSTANCE BVRef
CONSTANT N
VARIABLE bits
Init == \E k \in 0..N : bits \in [1..k -> BOOLEAN]
Next == UNCHANGED bits
Lift(x) == IF x < 0 THEN None64 ELSE FromNat(x)
LiftPair(p) == <<Lift(p[1]), Lift(p[2])>>
Agree ==
    LET B == BR!FromBits(bits)
        B64 == [len |-> FromNat(B.len), runs |-> [k \in 1..Len(B.runs) |-> <<FromNat(B.runs[k][1]), FromNat(B.runs[k][2])>>]]
        n == Len(bits)
    IN /\ WellFormed64(B64)
       /\ Ones64(B64) = FromNat(BR!Ones(B))
       /\ \A a \in 0..(n + 1) :
             /\ Rank64(B64, FromNat(a)) = FromNat(BR!Rank(B, a))
             /\ Select64(B64, FromNat(a)) = Lift(BR!Select(B, a))
             /\ SelectZero64(B64, FromNat(a)) = Lift(BR!SelectZero(B, a))
             /\ Pred64(B64, FromNat(a)) = LiftPair(BR!Pred(B, a))
             /\ Succ64(B64, FromNat(a)) = LiftPair(BR!Succ(B, a))
             /\ (a < n => Get64(B64, FromNat(a)) = BR!Get(B, a))
       \* a huge argument behaves as any argument beyond the length
       /\ Rank64(B64, Max64) = FromNat(BR!Rank(B, -1)) /\ Select64(B64, Max64) = None64 /\ Pred64(B64, Max64) = LiftPair(BR!Pred(B, -1))
       /\ Succ64(B64, Max64) = NoPair64
\* limb arithmetic across limb boundaries
Vals == {<<0, 0, 0>>, <<1, 0, 0>>, <<Base - 1, 0, 0>>, <<0, 1, 0>>, <<Base - 1, Base - 1, 0>>, <<0, 0, 1>>, <<5, 7, 65535>>, Max64}
Arith == \A a, b \in Vals :
            /\ (Le64(b, a) => Add64(Sub64(a, b), b) = a)
            /\ (~Overflows64(Add64(a, b)) => Sub64(Add64(a, b), b) = a /\ Le64(a, Add64(a, b)))
            /\ (Lt64(a, b) <=> ~Le64(b, a))
Inv == Agree /\ Arith
=============================================================================
