------------------------------ MODULE TraceMS64 ------------------------------
(* Trace specification for multiset sparse vectors whose universe does not fit a TLC integer (up to
   2^64 - 1): the events of TraceMS with every number a U64 limb triple, validated against MSRef64.
   Verdicts are computed at constant level; every query event names the line `d` of its def event. *)
EXTENDS MSRef64, TraceCommon
VARIABLES l
vars == <<l>>
Answer(M, op, a) ==
    CASE op = "get"  -> IF GetM64(M, a) THEN One64 ELSE Zero64
      [] op = "rank" -> RankM64(M, a)
      [] op = "sel"  -> SelectM64(M, a)
      [] op = "seli" -> LET s == SelectM64(M, a) IN IF IsNone64(s) THEN NoPair64 ELSE <<a, s>>
      [] op = "pred" -> PredM64(M, a)
      [] op = "succ" -> SuccM64(M, a)
Refers(j) == LET d == Rec[j].d IN d >= 1 /\ d < j /\ Rec[d].e = "def" /\ \A k \in (d + 1)..(j - 1) : Rec[k].e # "def"
ObjAt(j) == [universe |-> Rec[j].universe, items |-> Rec[j].items]
DefOK(j) == LET e == Rec[j] M == ObjAt(j) IN
            WellFormedM64(M) /\ e.built = "ok" /\ e.obs = <<M.universe, FromNat(Count64(M)), CountZeros64(M), IsMultiset64(M)>>
QueryOK(j) == LET e == Rec[j] M == ObjAt(e.d) IN
              Refers(j) /\ \A i \in 1..Len(e.a) : (e.op = "get" => Lt64(e.a[i], M.universe)) /\ e.r[i] = Answer(M, e.op, e.a[i])
\* the pair iterator lists every occurrence with its rank, from both ends
Expand(M) == FoldLeft(LAMBDA acc, it : acc \o [k \in 1..it[2] |-> <<FromNat(Len(acc) + k - 1), it[1]>>], << >>, M.items)
PairsOK(j) == LET M == ObjAt(Rec[j].d) IN Refers(j) /\ Rec[j].fwd = Expand(M) /\ Rec[j].back = Expand(M)
Verdict == [j \in 1..Len(Rec) |-> CASE Rec[j].e = "def" -> DefOK(j) [] Rec[j].e = "q" -> QueryOK(j) [] Rec[j].e = "pairs" -> PairsOK(j) [] OTHER -> FALSE]
TraceInit == l = 1
Event == l <= Len(Rec) /\ Verdict[l] /\ l' = l + 1
TraceNext == Event
TraceSpec == TraceInit /\ [][TraceNext]_vars
=============================================================================
