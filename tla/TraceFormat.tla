----------------------------- MODULE TraceFormat -----------------------------
(* Direction 1 of C07 (library -> document): the bytes the real library wrote for a structure must be
   well-formed by the rules of SERIALIZATION.md (Format.tla) and must decode, by those rules alone,
   into the logical content the structure was built from; the decoder must consume the whole file;
   and the library loads every such (well-formed) file of its own back into an equal value.
   Also: skip_option lands exactly behind each optional structure; absent_option writes one 0 element. *)
EXTENDS Format, TraceCommon
VARIABLES l
vars == <<l>>
TraceInit == l = 1
\* All files are decoded into element sets once, at constant level (TLC caches constant definitions;
\* a state-dependent LET would be re-evaluated at every reference).
Files == [j \in 1..Len(Rec) |-> IF "elems" \in DOMAIN Rec[j] THEN [k \in 1..Len(Rec[j].elems) |-> ToSet(Rec[j].elems[k])] ELSE << >>]

FileOK(j) ==
    LET f == Files[j] e == Rec[j] c == Rec[j].content IN
    CASE e.t = "raw"    -> RawWF(f, 1) /\ RawLen(f, 1) = c.len /\ RawOnes(f, 1) = ToSet(c.ones) /\ RawNext(f, 1) = Len(f) + 1
      [] e.t = "bv"     -> BVWF(f, 1) /\ BVLen(f, 1) = c.len /\ BVOnes(f, 1) = ToSet(c.ones) /\ BVNext(f, 1) = Len(f) + 1 /\ BVSupports(f, 1) = c.sup
      [] e.t = "int"    -> IntWF(f, 1) /\ IntWidth(f, 1) = c.w /\ IntItems(f, 1) = c.items /\ IntNext(f, 1) = Len(f) + 1
      [] e.t = "bytes"  -> BytesWF(f, 1) /\ BytesContent(f, 1) = c.bytes /\ BytesNext(f, 1) = Len(f) + 1
      [] e.t = "opt_vec" -> OptWF(f, 1) /\ OptPresent(f, 1) = c.present /\ OptNext(f, 1) = Len(f) + 1
                            /\ (c.present => VecWF(f, 2) /\ VecLen(f, 2) = Len(c.items) /\ VecNext(f, 2) = Len(f) + 1
                                             /\ \A i \in 1..Len(c.items) : E2Nat(VecItem(f, 2, i - 1)) = c.items[i])
      [] e.t = "sparse" -> SparseWF(f, 1) /\ SparseN(f, 1) = c.len /\ SparseItems(f, 1) = c.ones /\ SparseNext(f, 1) = Len(f) + 1
      \* ... and, since the document leaves the writer no choice (whole runs per block, a block is closed early only when the
      \* next run does not fit, minimal sample width), the file IS the document-derived encoding of the runs
      [] e.t = "rl"     -> RLWF(f, 1) /\ N(f, 1) = c.len /\ RLRuns(f, 1) = c.runs /\ RLNext(f, 1) = Len(f) + 1
                           /\ f = EncRL(c.len, c.runs, 0)
      [] e.t = "wmcore" -> CoreWF(f, 1) /\ CoreItems(f, 1) = c.vals /\ CoreNext(f, 1) = Len(f) + 1
      [] e.t = "wmcore64" -> CoreWF(f, 1) /\ CoreItemSets(f, 1) = [i \in 1..Len(c.vals) |-> ToSet(c.vals[i])] /\ CoreNext(f, 1) = Len(f) + 1
      [] e.t = "wm"     -> WMWF(f, 1) /\ N(f, 1) = Len(c.vals) /\ CoreItems(f, 2) = c.vals /\ WMNext(f, 1) = Len(f) + 1

SkipOK(j) == LET e == Rec[j] f == Files[j] IN
             /\ e.ok = TRUE /\ BVWF(f, 1)
             /\ e.positions = <<BVOpt1(f, 1) - 1, BVOpt2(f, 1) - 1, BVOpt3(f, 1) - 1, BVNext(f, 1) - 1>>
             /\ BVNext(f, 1) = Len(f) + 1
AbsentOK(j) == Rec[j].ok = TRUE /\ Rec[j].size = 1 /\ Rec[j].elems = << << >> >>

\* The verdict of every event depends on the event alone, so all verdicts are computed at constant level
\* (TLC evaluates constant definitions once, with caching of LET values; inside an action the same
\* evaluation was measured to be about 1000 times slower).
Verdict == [j \in 1..Len(Rec) |-> CASE Rec[j].e = "file" -> FileOK(j) /\ Rec[j].reload = TRUE     \* a well-formed file loads
                                    [] Rec[j].e = "skip" -> SkipOK(j)
                                    [] Rec[j].e = "absent" -> AbsentOK(j)
                                    [] OTHER -> FALSE]

Event == /\ l <= Len(Rec) /\ Verdict[l] /\ l' = l + 1
TraceNext == Event
TraceSpec == TraceInit /\ [][TraceNext]_vars
=============================================================================
