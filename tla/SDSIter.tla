------------------------------ MODULE SDSIter ------------------------------
(***************************************************************************)
(* Layer A: every iterator the library hands out is a window [lo, hi) over *)
(* a reference sequence of `n` items (all bits; <<rank, pos>> of set /      *)
(* unset bits; runs; occurrences of a value; vector items).  The calls are *)
(* the double-ended queue operations.  Results are INDEXES into the        *)
(* reference sequence (0-based) or None = -1, so the machine is            *)
(* independent of the content; the content decides only what item sits at  *)
(* an index (ItemAt in the trace specification, the generated reference    *)
(* sequences in the replay direction).                                     *)
(*                                                                         *)
(* Arguments of nth / nth_back are naturals or a negative huge token.      *)
(***************************************************************************)
EXTENDS Naturals, Integers, Sequences

INone == -1
IHuge(a) == a < 0

\* capabilities of an iterator type
Caps == [de : BOOLEAN, exact : BOOLEAN]

NewIter(lo, hi) == [lo |-> lo, hi |-> hi]
Remaining(it) == it.hi - it.lo

IterEnabled(caps, c) ==
    CASE c.op \in {"next_back", "nth_back"} -> caps.de
      [] c.op = "len" -> caps.exact
      [] OTHER -> TRUE

\* transition function: state after the call, index of the item returned (or INone), or the length
IterStep(it, c) ==
    LET rem == it.hi - it.lo IN
    CASE c.op = "next" ->
            IF rem > 0 THEN [it |-> [it EXCEPT !.lo = it.lo + 1], res |-> it.lo] ELSE [it |-> it, res |-> INone]
      [] c.op = "next_back" ->
            IF rem > 0 THEN [it |-> [it EXCEPT !.hi = it.hi - 1], res |-> it.hi - 1] ELSE [it |-> it, res |-> INone]
      [] c.op = "nth" ->
            IF IHuge(c.k) \/ c.k >= rem THEN [it |-> [it EXCEPT !.lo = it.hi], res |-> INone]
            ELSE [it |-> [it EXCEPT !.lo = it.lo + c.k + 1], res |-> it.lo + c.k]
      [] c.op = "nth_back" ->
            IF IHuge(c.k) \/ c.k >= rem THEN [it |-> [it EXCEPT !.hi = it.lo], res |-> INone]
            ELSE [it |-> [it EXCEPT !.hi = it.hi - c.k - 1], res |-> it.hi - c.k - 1]
      [] c.op = "len"   -> [it |-> it, res |-> rem]
      [] c.op = "clone" -> [it |-> it, res |-> INone]      \* the harness continues with the clone

\* Invariants of the machine (checked by TLC in MC_Iter):
WindowOK(it, n) == 0 <= it.lo /\ it.lo <= it.hi /\ it.hi <= n
=============================================================================
