------------------------------ MODULE GenWriter ------------------------------
(***************************************************************************)
(* Behaviour generator for the buffered writers (spec -> impl).            *)
(* Kind "raw": every history of Depth pushes over bit and 0..64-bit        *)
(* integer pushes, for every buffer size in Bufs (in bits; 0, smaller than *)
(* an item, not a multiple of 64, ...): with 64-bit buffers a few pushes   *)
(* reach exactly-full, over-full-by-k and item-straddles-the-end states.   *)
(* Kind "int": for every width and buffer size (in items) every push count *)
(* 0..MaxPush with a rotating palette of values, so that every fill level  *)
(* relative to the buffer is reached.  Each behaviour ends by close,       *)
(* close twice, or by dropping the open writer.                            *)
(***************************************************************************)
EXTENDS SDSWriter, TLC, Json
CONSTANTS Kind, Widths, Bufs, Depth, MaxPush

VARIABLES wr, hist, cfg, ending
vars == <<wr, hist, cfg, ending>>
All64 == 0..63
Palette(w, i) == CASE i % 3 = 0 -> All64 [] i % 3 = 1 -> {0, w - 1} \cap All64 [] OTHER -> {b \in All64 : b % 2 = 1}

RawCalls == {[op |-> "push_bit", b |-> TRUE], [op |-> "push_bit", b |-> FALSE]}
            \cup UNION {{[op |-> "push_int", v |-> All64, w |-> w], [op |-> "push_int", v |-> {0, w - 1} \cap All64, w |-> w]} : w \in {0, 1, 31, 33, 63, 64}}

Init == /\ hist = << >> /\ ending = "open"
        /\ IF Kind = "raw"
           THEN \E b \in Bufs : cfg = [kind |-> "raw", width |-> 0, buf |-> b, n |-> 0] /\ wr = NewWriter("raw", 0)
           ELSE \E w \in Widths : \E b \in Bufs : \E n \in 0..MaxPush :
                  cfg = [kind |-> "int", width |-> w, buf |-> b, n |-> n] /\ wr = NewWriter("int", w)

Entry(c, r) == [c |-> c, res |-> r.res, obs |-> Obs(r.wr)]
Do(c) == LET r == WStep(wr, c) IN wr' = r.wr /\ hist' = Append(hist, Entry(c, r))

Push == /\ ending = "open"
        /\ IF Kind = "raw"
           THEN Len(hist) < Depth /\ \E c \in RawCalls : Do(c)
           ELSE WLen(wr) < cfg.n /\ (IF Len(hist) % 5 = 4 /\ WLen(wr) + 2 <= cfg.n
                                      THEN Do([op |-> "extend", vs |-> <<Palette(cfg.width, Len(hist)), Palette(cfg.width, Len(hist) + 1)>>])
                                      ELSE Do([op |-> "push", v |-> Palette(cfg.width, Len(hist))]))
        /\ UNCHANGED <<cfg, ending>>
Finish == /\ ending = "open"
          /\ IF Kind = "raw" THEN Len(hist) = Depth ELSE WLen(wr) >= cfg.n
          /\ \E e \in {"close", "close_twice", "drop"} :
               /\ ending' = e
               /\ IF e = "close" THEN Do([op |-> "close"])
                  ELSE IF e = "close_twice" THEN LET r1 == WStep(wr, [op |-> "close"]) r2 == WStep(r1.wr, [op |-> "close"]) IN
                         wr' = r2.wr /\ hist' = hist \o <<Entry([op |-> "close"], r1), Entry([op |-> "close"], r2)>>
                  ELSE wr' = [wr EXCEPT !.open = FALSE] /\ hist' = hist
          /\ UNCHANGED cfg
Next == Push \/ Finish
Emit == (ending # "open") => PrintT(<<"REPLAY", ToJson([k |-> "writer", cfg |-> cfg, steps |-> hist, ending |-> ending, file |-> FileContent(wr)])>>)
=============================================================================
