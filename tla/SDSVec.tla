------------------------------ MODULE SDSVec ------------------------------
(***************************************************************************)
(* Layer A: raw vectors and integer vectors as plain sequences             *)
(* (raw_vector::RawVector, int_vector::IntVector).                         *)
(*                                                                         *)
(* The abstract state of a vector is                                       *)
(*     [kind |-> "raw" | "int", width |-> 0..64, bits |-> Seq(BOOLEAN)]    *)
(* where `bits` is the logical content: for an integer vector of width w   *)
(* item i occupies bits i*w .. i*w+w-1, least significant first.  A 64-bit *)
(* value is the SET of its set bit positions (TLC integers are 32-bit).    *)
(*                                                                         *)
(* `Step(st, c)` is the transition function of one public call `c`: it     *)
(* returns the state after the call and the DEFINED result.  It is used    *)
(* by the behaviour generator (GenVec), by the trace specification         *)
(* (TraceVec) and by the mechanism model (mech/RawVec) - one source of     *)
(* truth for what every call means.                                        *)
(*                                                                         *)
(* Results are <<tag, S>>: tag 0 = no value, 1 = value S (a set of bit     *)
(* positions; a boolean is {0} / {}; a small number n is {n}), 2 = None.   *)
(***************************************************************************)
EXTENDS Naturals, Integers, Sequences, FiniteSets, SequencesExt

Unit == <<0, {}>>
Val(S) == <<1, S>>
NoneRes == <<2, {}>>
BoolSet(b) == IF b THEN {0} ELSE {}

\* low w bits of value v as a bit sequence / back
Field(v, w) == [b \in 1..w |-> (b - 1) \in v]
ValueAt(bits, off, w) == {b \in 0..(w - 1) : bits[off + b + 1]}
Repeat(x, n) == [i \in 1..n |-> x]
Prefix(s, n) == SubSeq(s, 1, n)
OnesOf(bits) == {i \in 0..(Len(bits) - 1) : bits[i + 1]}
BitLenOfSet(v) == IF v = {} THEN 1 ELSE (CHOOSE b \in v : \A c \in v : c <= b) + 1

Items(st) == Len(st.bits) \div st.width      \* integer vectors only

\* replace w bits at offset off
Splice(bits, off, f) == [i \in 1..Len(bits) |-> IF i > off /\ i <= off + Len(f) THEN f[i - off] ELSE bits[i]]

\* is the call inside the domain in which its behaviour is defined (no "may panic")
InDomain(st, c) ==
    CASE c.op \in {"get", "set"}       -> st.kind = "int" /\ c.i < Items(st)
      [] c.op \in {"bit", "set_bit"}   -> st.kind = "raw" /\ c.i < Len(st.bits)
      [] c.op \in {"int", "set_int"}   -> st.kind = "raw" /\ c.i + c.w <= Len(st.bits)
      [] c.op \in {"push", "pop", "resize", "pack", "extend", "iter", "into_iter", "get_or"} -> st.kind = "int"
      [] c.op \in {"push_bit", "pop_bit", "push_int", "pop_int", "resize_bits", "complement"} -> st.kind = "raw"
      [] OTHER -> TRUE

Step(st, c) ==
    LET w == st.width bits == st.bits n == Len(st.bits) IN
    CASE c.op = "push"     -> [st |-> [st EXCEPT !.bits = bits \o Field(c.v, w)], res |-> Unit]
      [] c.op = "pop"      -> IF n = 0 THEN [st |-> st, res |-> NoneRes]
                              ELSE [st |-> [st EXCEPT !.bits = Prefix(bits, n - w)], res |-> Val(ValueAt(bits, n - w, w))]
      [] c.op = "get"      -> [st |-> st, res |-> Val(ValueAt(bits, c.i * w, w))]
      [] c.op = "set"      -> [st |-> [st EXCEPT !.bits = Splice(bits, c.i * w, Field(c.v, w))], res |-> Unit]
      [] c.op = "resize"   -> LET have == n \div w IN
                              IF c.n <= have THEN [st |-> [st EXCEPT !.bits = Prefix(bits, c.n * w)], res |-> Unit]
                              ELSE [st |-> [st EXCEPT !.bits = bits \o [k \in 1..((c.n - have) * w) |-> Field(c.v, w)[((k - 1) % w) + 1]]], res |-> Unit]
      [] c.op = "clear"    -> [st |-> [st EXCEPT !.bits = << >>], res |-> Unit]
      [] c.op = "reserve"  -> [st |-> st, res |-> Unit]
      [] c.op = "pack"     -> IF n = 0 THEN [st |-> st, res |-> Unit]
                              ELSE LET k == n \div w
                                       nw == BitLenOfSet(UNION {ValueAt(bits, i * w, w) : i \in 0..(k - 1)})
                                   IN [st |-> [st EXCEPT !.width = nw,
                                                         !.bits = [j \in 1..(k * nw) |-> bits[((j - 1) \div nw) * w + ((j - 1) % nw) + 1]]],
                                       res |-> Unit]
      [] c.op = "extend"   -> [st |-> [st EXCEPT !.bits = bits \o FoldLeft(LAMBDA acc, v : acc \o Field(v, w), << >>, c.vs)], res |-> Unit]
      [] c.op = "push_bit" -> [st |-> [st EXCEPT !.bits = Append(bits, c.b)], res |-> Unit]
      [] c.op = "pop_bit"  -> IF n = 0 THEN [st |-> st, res |-> NoneRes]
                              ELSE [st |-> [st EXCEPT !.bits = Prefix(bits, n - 1)], res |-> Val(BoolSet(bits[n]))]
      [] c.op = "push_int" -> [st |-> [st EXCEPT !.bits = bits \o Field(c.v, c.w)], res |-> Unit]
      [] c.op = "pop_int"  -> IF n < c.w THEN [st |-> st, res |-> NoneRes]
                              ELSE [st |-> [st EXCEPT !.bits = Prefix(bits, n - c.w)], res |-> Val(ValueAt(bits, n - c.w, c.w))]
      [] c.op = "bit"      -> [st |-> st, res |-> Val(BoolSet(bits[c.i + 1]))]
      [] c.op = "set_bit"  -> [st |-> [st EXCEPT !.bits = [bits EXCEPT ![c.i + 1] = c.b]], res |-> Unit]
      [] c.op = "int"      -> [st |-> st, res |-> Val(ValueAt(bits, c.i, c.w))]
      [] c.op = "set_int"  -> [st |-> [st EXCEPT !.bits = Splice(bits, c.i, Field(c.v, c.w))], res |-> Unit]
      [] c.op = "resize_bits" -> IF c.n <= n THEN [st |-> [st EXCEPT !.bits = Prefix(bits, c.n)], res |-> Unit]
                                 ELSE [st |-> [st EXCEPT !.bits = bits \o Repeat(c.b, c.n - n)], res |-> Unit]
      [] c.op = "complement"  -> [st |-> [st EXCEPT !.bits = [i \in 1..n |-> ~bits[i]]], res |-> Unit]
      [] c.op = "count_ones"  -> [st |-> st, res |-> Val({Cardinality(OnesOf(bits))})]
      [] c.op = "len"         -> [st |-> st, res |-> Val({IF st.kind = "int" THEN n \div w ELSE n})]
      [] c.op = "width"       -> [st |-> st, res |-> Val({w})]
      [] c.op = "is_empty"    -> [st |-> st, res |-> Val(BoolSet(n = 0))]
      \* get_or is total: the item, or the default when the index is not valid (a negative index stands for a huge one)
      [] c.op = "get_or"      -> [st |-> st, res |-> Val(IF c.i >= 0 /\ c.i < n \div w THEN ValueAt(bits, c.i * w, w) ELSE {b \in c.v : b < 64})]

\* Constructors
NewInt(w) == [kind |-> "int", width |-> w, bits |-> << >>]
WithLenInt(n, w, v) == [kind |-> "int", width |-> w, bits |-> [k \in 1..(n * w) |-> Field(v, w)[((k - 1) % w) + 1]]]
\* From<Vec<T>> / FromIterator<T>: the width of the item type, each item in full
FromItems(w, vs) == [kind |-> "int", width |-> w, bits |-> FoldLeft(LAMBDA acc, v : acc \o Field(v, w), << >>, vs)]
NewRaw == [kind |-> "raw", width |-> 0, bits |-> << >>]
WithLenRaw(n, b) == [kind |-> "raw", width |-> 0, bits |-> Repeat(b, n)]

\* Layer A invariants of a vector state
TypeOK(st) == /\ st.kind \in {"raw", "int"}
              /\ st.kind = "int" => (st.width \in 1..64 /\ Len(st.bits) % st.width = 0)
=============================================================================
