------------------------------ MODULE GenWords ------------------------------
(***************************************************************************)
(* Case generator for the bit-level primitives at the real word size       *)
(* (W = 64): the reference operators of mech/Words are the oracle.         *)
(* Kinds: "rw"   - for every (offset, width) in the configured range, a    *)
(*                 batch of (background, value) combinations: the array    *)
(*                 after write_int and the value read back;                *)
(*        "sel"  - every byte value in every byte lane, alone and above    *)
(*                 full lower bytes, and single-bit / dense words: the     *)
(*                 position of the set bit of every rank < popcount;       *)
(*        "misc" - masks for n = 0..64, bit_len around every power of two, *)
(*                 reverse_low for every width, rounding helpers on a      *)
(*                 boundary grid.                                          *)
(* 64-bit words travel as 4 limbs of 16 bits (least significant first).    *)
(***************************************************************************)
EXTENDS Words, TLC, Json, SequencesExt
CONSTANTS Kind, Offsets, NWords

LimbOf(S, k) == FoldSet(LAMBDA b, acc : acc + 2^(b - 16 * k), 0, {c \in S : c >= 16 * k /\ c < 16 * k + 16})
Limbs(S, n) == [k \in 1..n |-> LimbOf(S, k - 1)]           \* n limbs of a flat position set
Total == NWords * W
AllPos == 0..(Total - 1)
Alt == {b \in AllPos : b % 2 = 1}
Backgrounds == <<{}, AllPos, Alt>>
ValuesFor(w) == <<0..63, {0}, {w - 1}, {b \in 0..63 : b % 2 = 0}, (0..w) \cap (0..63)>>

Grid == <<0, 1, 7, 8, 9, 63, 64, 65, 127, 128, 129, 511, 512, 513, 4095, 4096, 4097, 65535, 65536, 1000003, 16777215>>
Divs == <<1, 2, 3, 7, 8, 13, 64, 4096, 1000003>>

\* Rounding helpers on values that do not fit a TLC integer: a value is 4 little-endian limbs of 16 bits.  The quotient
\* rounded up is computed by schoolbook long division by a small divisor (the running remainder stays below d * 2^16 < 2^31).
BigVals == <<<<1, 0, 0, 32>>,            \* 2^53 + 1
             <<1, 0, 0, 4096>>,          \* 2^60 + 1
             <<1, 0, 0, 16384>>,         \* 2^62 + 1
             <<0, 0, 0, 32768>>,         \* 2^63
             <<65535, 65535, 65535, 32767>>,   \* 2^63 - 1
             <<61439, 65535, 65535, 65535>>,   \* 2^64 - 4097
             <<65472, 65535, 65535, 65535>>,   \* 2^64 - 64: the largest argument of bits_to_words' documented domain (n + 63 <= MAX)
             <<65528, 65535, 65535, 65535>>,   \* 2^64 - 8: the largest argument of bytes_to_words' documented domain (n + 7 <= MAX)
             <<12345, 54321, 7, 1>>,
             <<0, 0, 1, 0>>>>            \* 2^32
BigDivs == <<1, 2, 3, 7, 8, 64, 4096>>
LongDiv(v, d) ==      \* <<quotient limbs (little-endian), remainder>>
    LET step3 == (0 * 65536 + v[4]) q3 == step3 \div d r3 == step3 % d
        step2 == r3 * 65536 + v[3] q2 == step2 \div d r2 == step2 % d
        step1 == r2 * 65536 + v[2] q1 == step1 \div d r1 == step1 % d
        step0 == r1 * 65536 + v[1] q0 == step0 \div d r0 == step0 % d
    IN <<<<q0, q1, q2, q3>>, r0>>
Inc(v) == LET a0 == v[1] + 1 c0 == a0 \div 65536
              a1 == v[2] + c0 c1 == a1 \div 65536
              a2 == v[3] + c1 c2 == a2 \div 65536
          IN <<a0 % 65536, a1 % 65536, a2 % 65536, v[4] + c2>>
CeilDiv(v, d) == LET qr == LongDiv(v, d) IN IF qr[2] = 0 THEN qr[1] ELSE Inc(qr[1])
MulSmall(v, m) == LET a0 == v[1] * m c0 == a0 \div 65536
                      a1 == v[2] * m + c0 c1 == a1 \div 65536
                      a2 == v[3] * m + c1 c2 == a2 \div 65536
                  IN <<a0 % 65536, a1 % 65536, a2 % 65536, v[4] * m + c2>>      \* the top limb may exceed 16 bits: the product does not fit 64 bits
Fits(v) == v[4] < 65536

VARIABLE s
Init == \/ Kind = "rw" /\ \E off \in Offsets : \E w \in 1..64 : off + w <= Total /\ s = <<off, w>>
        \/ Kind = "sel" /\ \E byte \in 1..255 : \E lane \in 0..7 : \E full \in BOOLEAN : s = <<byte, lane, full>>
        \/ Kind = "sel" /\ \E p \in 0..63 : \E q \in {0, 1, 63} : s = <<0, p, q>>
        \/ Kind = "misc" /\ s = <<0>>
Next == UNCHANGED s

ByteSet(byte) == {b \in 0..7 : (byte \div 2^b) % 2 = 1}
SelWord == IF s[1] > 0
           THEN {8 * s[2] + b : b \in ByteSet(s[1])} \cup (IF s[3] THEN 0..(8 * s[2] - 1) ELSE {})
           ELSE IF s[3] = 0 THEN {s[2]} ELSE IF s[3] = 1 THEN {s[2], (s[2] + 1) % 64} ELSE (0..63) \ {s[2]}

Case ==
    CASE Kind = "rw" ->
           LET off == s[1] w == s[2] vals == ValuesFor(w) IN
           [k |-> "rw", off |-> off, w |-> w, nwords |-> NWords,
            subs |-> [i \in 1..(Len(Backgrounds) * Len(vals)) |->
                        LET bg == Backgrounds[((i - 1) \div Len(vals)) + 1]
                            v == vals[((i - 1) % Len(vals)) + 1]
                            after == WriteRef(bg, off, v, w)
                        IN [bg |-> Limbs(bg, 4 * NWords), v |-> Limbs(v, 4), after |-> Limbs(after, 4 * NWords),
                            read |-> Limbs(ReadRef(after, off, w), 4), read_bg |-> Limbs(ReadRef(bg, off, w), 4)]]]
      [] Kind = "sel" ->
           LET n == SelWord IN
           [k |-> "sel", word |-> Limbs(n, 4), ranks |-> [r \in 1..Cardinality(n) |-> SelectRef(n, r - 1)]]
      [] Kind = "misc" ->
           [k |-> "misc",
            low |-> [n \in 1..65 |-> Limbs(LowSetRef(n - 1), 4)],
            high |-> [n \in 1..65 |-> Limbs(HighSetRef(n - 1), 4)],
            bitlen |-> [i \in 1..(3 * 64) |-> LET k == (i - 1) \div 3 j == (i - 1) % 3
                                                v == IF j = 0 THEN {k} ELSE IF j = 1 THEN 0..(k - 1) ELSE {k, 0}
                                            IN [v |-> Limbs(v, 4), len |-> BitLenRef(v)]],
            reverse |-> [i \in 1..(3 * 64) |-> LET bits == ((i - 1) \div 3) + 1 j == (i - 1) % 3
                                                 v == IF j = 0 THEN 0..63 ELSE IF j = 1 THEN {0, 5} ELSE {b \in 0..63 : b % 3 = 0}
                                             IN [v |-> Limbs(v, 4), bits |-> bits, r |-> Limbs(ReverseLowRef(v, bits), 4)]],
            rounding |-> [i \in 1..Len(Grid) |-> LET n == Grid[i] IN
                            [n |-> n, words_to_bytes |-> n * 8, bytes_to_words |-> (n + 7) \div 8, round_bytes |-> ((n + 7) \div 8) * 8,
                             words_to_bits |-> n * 64, bits_to_words |-> (n + 63) \div 64, round_bits |-> ((n + 63) \div 64) * 64,
                             split |-> <<n \div 64, n % 64>>,
                             div |-> [d \in 1..Len(Divs) |-> (n + Divs[d] - 1) \div Divs[d]]]],
            divs |-> Divs,
            \* div_round_up(v, d), bits_to_words = ceil(v / 64), bytes_to_words = ceil(v / 8) and the two round-up functions
            \* (only where the documented precondition v + d <= usize::MAX holds) on 64-bit values
            big |-> [i \in 1..Len(BigVals) |-> LET v == BigVals[i] IN
                        [v |-> v,
                         div |-> [d \in 1..Len(BigDivs) |-> CeilDiv(v, BigDivs[d])],
                         bits_to_words |-> CeilDiv(v, 64), bytes_to_words |-> CeilDiv(v, 8),
                         round_bits |-> MulSmall(CeilDiv(v, 64), 64), round_bytes |-> MulSmall(CeilDiv(v, 8), 8),
                         round_bits_fits |-> Fits(MulSmall(CeilDiv(v, 64), 64)), round_bytes_fits |-> Fits(MulSmall(CeilDiv(v, 8), 8))]],
            bigdivs |-> BigDivs]
Emit == PrintT(<<"REPLAY", ToJson(Case)>>)
=============================================================================
