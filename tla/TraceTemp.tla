------------------------------ MODULE TraceTemp ------------------------------
(* Trace specification for concurrent temp_file_name calls.  The traced counter logs every primitive
   in its linearization order (the log is written under the same lock that performs the primitive);
   each call then logs the path it returned.  The trace must be a behaviour of mech/TempName with the
   extracted program: every primitive is the next one of its thread's program and sees the model's
   counter value; every call returns a path only after completing its program; every path contains the caller's name part;
   and all paths are pairwise different (Unique), also around 2^16, 2^32 and 2^48 where the harness moves the counter.
   With Program = << >> only the property itself is validated (Unique and the name part over every returned path,
   including the paths serialize::test takes internally): the primitives are consumed without being compared with a
   program.  The orchestrator uses that mode when the full validation stops at a primitive - the code's protocol is
   then not the modelled one (MODEL-DRIFT), which by itself is not a violation of the property. *)
EXTENDS Naturals, Sequences, FiniteSets, TraceCommon
CONSTANT Program
VARIABLES l, counter, reg, pc, got, names
vars == <<l, counter, reg, pc, got, names>>
Threads == 0..63
TraceInit == /\ l = 1 /\ counter = Rec[1].start /\ reg = [t \in Threads |-> 0] /\ pc = [t \in Threads |-> 1]
             /\ got = [t \in Threads |-> << >>] /\ names = {}
Start == /\ l <= Len(Rec) /\ Rec[l].e = "start" /\ l = 1 /\ UNCHANGED <<counter, reg, pc, got, names>> /\ l' = l + 1
NamesOnly == Program = << >>
AtomicAny == /\ NamesOnly /\ l <= Len(Rec) /\ Rec[l].e = "atomic" /\ UNCHANGED <<counter, reg, pc, got, names>> /\ l' = l + 1
Atomic ==
    /\ ~NamesOnly
    /\ l <= Len(Rec) /\ Rec[l].e = "atomic"
    /\ LET e == Rec[l] t == e.thread op == Program[pc[t]] IN
         /\ e.op # "jump"
         /\ pc[t] <= Len(Program)
         /\ e.old = counter
         /\ CASE op = "fetch_add" -> e.op = "fetch_add" /\ e.new = counter + 1 /\ counter' = counter + 1 /\ reg' = [reg EXCEPT ![t] = counter]
              [] op = "load"      -> e.op = "load" /\ counter' = counter /\ reg' = [reg EXCEPT ![t] = counter]
              [] op = "store"     -> e.op = "store" /\ e.new = reg[t] + 1 /\ counter' = reg[t] + 1 /\ UNCHANGED reg
              [] op = "cas"       -> IF counter = reg[t] THEN e.op = "cas_ok" /\ counter' = reg[t] + 1 /\ UNCHANGED reg
                                     ELSE e.op = "cas_fail" /\ UNCHANGED counter /\ reg' = [reg EXCEPT ![t] = counter]
         /\ LET done == IF op = "cas" /\ counter # reg[t] THEN FALSE ELSE pc[t] = Len(Program) IN
              /\ pc' = [pc EXCEPT ![t] = IF op = "cas" /\ counter # reg[t] THEN pc[t] ELSE IF done THEN 1 ELSE pc[t] + 1]
              /\ got' = IF done THEN [got EXCEPT ![t] = Append(got[t], reg'[t])] ELSE got
    /\ UNCHANGED names /\ l' = l + 1
\* test control: the harness moved the counter (to probe the name format around powers of two)
Jump == /\ ~NamesOnly /\ l <= Len(Rec) /\ Rec[l].e = "atomic" /\ Rec[l].op = "jump"
        /\ counter' = Rec[l].new /\ UNCHANGED <<reg, pc, got, names>> /\ l' = l + 1
Name ==
    /\ l <= Len(Rec) /\ Rec[l].e = "name"
    /\ LET e == Rec[l] t == e.thread IN
         /\ NamesOnly \/ Len(got[t]) > 0
         /\ e.has_part = TRUE                      \* the path contains the caller's name part
         /\ e.path \notin names                    \* Unique: no two calls in the process receive the same path
         /\ names' = names \cup {e.path}
         /\ got' = IF NamesOnly THEN got ELSE [got EXCEPT ![t] = Tail(got[t])]
    /\ UNCHANGED <<counter, reg, pc>> /\ l' = l + 1
TraceNext == Start \/ Atomic \/ AtomicAny \/ Jump \/ Name
TraceSpec == TraceInit /\ [][TraceNext]_vars
=============================================================================
