----------------------------- MODULE SDSWriter -----------------------------
(***************************************************************************)
(* Layer A: the buffered file writers (RawVectorWriter, IntVectorWriter).  *)
(* A writer is [kind, width, open, bits]: `bits` is everything pushed so   *)
(* far, least significant bit of each item first.  len() counts what was   *)
(* pushed (bits for the raw writer, items for the integer writer).         *)
(* close() writes the file, is idempotent, and dropping an open writer is  *)
(* a close.  The file left behind is the serialization of the in-memory    *)
(* vector with the same content: file = Enc(vector(kind, width, bits)).    *)
(* Buffer size never appears in the state: it must not be observable.      *)
(***************************************************************************)
EXTENDS Naturals, Integers, Sequences, FiniteSets, SequencesExt

Field(v, w) == [b \in 1..w |-> (b - 1) \in v]

NewWriter(kind, width) == [kind |-> kind, width |-> width, open |-> TRUE, bits |-> << >>]

WLen(wr) == IF wr.kind = "int" THEN Len(wr.bits) \div wr.width ELSE Len(wr.bits)

WStep(wr, c) ==
    CASE c.op = "push_bit" -> [wr |-> [wr EXCEPT !.bits = Append(wr.bits, c.b)], res |-> "ok"]
      [] c.op = "push_int" -> [wr |-> [wr EXCEPT !.bits = wr.bits \o Field(c.v, c.w)], res |-> "ok"]
      [] c.op = "push"     -> [wr |-> [wr EXCEPT !.bits = wr.bits \o Field(c.v, wr.width)], res |-> "ok"]
      [] c.op = "extend"   -> [wr |-> [wr EXCEPT !.bits = wr.bits \o FoldLeft(LAMBDA acc, v : acc \o Field(v, wr.width), << >>, c.vs)], res |-> "ok"]
      \* a bulk of n pushes whose values are not logged (the trace then only tracks the length; the file is still
      \* compared byte for byte with the in-memory vector by the harness)
      [] c.op = "push_many" -> [wr |-> [wr EXCEPT !.bits = wr.bits \o [k \in 1..(c.n * (IF wr.kind = "int" THEN wr.width ELSE c.w)) |-> FALSE]], res |-> "ok"]
      [] c.op = "close"    -> [wr |-> [wr EXCEPT !.open = FALSE], res |-> "ok"]      \* idempotent: closing a closed writer is Ok and changes nothing

\* pushes are only defined on an open writer
WEnabled(wr, c) == c.op = "close" \/ wr.open

Obs(wr) == [len |-> WLen(wr), is_open |-> wr.open]
OnesOf(bits) == {i \in 0..(Len(bits) - 1) : bits[i + 1]}
\* the content the file must hold after close / drop
FileContent(wr) == [kind |-> wr.kind, width |-> wr.width, len |-> Len(wr.bits), ones |-> OnesOf(wr.bits)]
=============================================================================
