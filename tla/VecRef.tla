------------------------------- MODULE VecRef -------------------------------
(***************************************************************************)
(* Layer A reference semantics of an indexed integer vector                *)
(* (ops::Vector/Access/VectorIndex as implemented by WaveletMatrix) and of *)
(* the wavelet-matrix core mapping (WMCore).                               *)
(*                                                                         *)
(* V is a sequence of naturals.  Indexes, ranks are naturals or a negative *)
(* "huge" token (larger than any length).  None = -1, NoPair = <<-1,-1>>.  *)
(***************************************************************************)
EXTENDS Naturals, Integers, Sequences, FiniteSets, SequencesExt, FiniteSetsExt

None == -1
NoPair == <<-1, -1>>
Huge(a) == a < 0

VLen(V) == Len(V)
MaxOf(V) == IF Len(V) = 0 THEN 0 ELSE Max(ToSet(V))
BitLen(x) == IF x = 0 THEN 1 ELSE CHOOSE k \in 1..31 : 2^(k - 1) <= x /\ x < 2^k
Width(V) == BitLen(MaxOf(V))

\* clamp an index argument to 0..len
Clamp(V, i) == IF Huge(i) \/ i > Len(V) THEN Len(V) ELSE i

\* 1-based positions of v, increasing
Occ(V, v) == LET idx == [j \in 1..Len(V) |-> j] IN SelectSeq(idx, LAMBDA j : V[j] = v)

VGet(V, i) == V[i + 1]
VContains(V, v) == \E j \in 1..Len(V) : V[j] = v

\* The operators below take the occurrence list o = Occ(V, v) so that a batch of queries on the same
\* value computes it once.
RankO(V, o, i) == LET c == Clamp(V, i) IN Cardinality({k \in 1..Len(o) : o[k] <= c})
SelectO(o, r) == IF Huge(r) \/ r >= Len(o) THEN None ELSE o[r + 1] - 1
IterFromO(o, r) == IF Huge(r) \/ r >= Len(o) THEN << >> ELSE [k \in 1..(Len(o) - r) |-> <<r + k - 1, o[r + k] - 1>>]
PredO(V, o, i) == LET r == RankO(V, o, IF Huge(i) THEN i ELSE i + 1) IN IF r = 0 THEN NoPair ELSE <<r - 1, SelectO(o, r - 1)>>
SuccO(V, o, i) == IF Huge(i) THEN NoPair
                  ELSE LET r == RankO(V, o, i) s == SelectO(o, r) IN IF s = None THEN NoPair ELSE <<r, s>>

VRank(V, i, v) == RankO(V, Occ(V, v), i)
VSelect(V, r, v) == SelectO(Occ(V, v), r)
VInvSelect(V, i) == IF Huge(i) \/ i >= Len(V) THEN NoPair ELSE <<VRank(V, i, V[i + 1]), V[i + 1]>>
\* all occurrences from rank r on, as <<rank, index>>
VIterFrom(V, r, v) == IterFromO(Occ(V, v), r)
\* last occurrence at or before i / first occurrence at or after i
VPred(V, i, v) == PredO(V, Occ(V, v), i)
VSucc(V, i, v) == SuccO(V, Occ(V, v), i)

----------------------------------------------------------------------------
(* Core mapping: stable sort by the width-bit reversed value *)

Bit(v, k) == (v \div (2^k)) % 2
Key(v, W) == LET f[k \in 0..W] == IF k = 0 THEN 0 ELSE f[k - 1] + Bit(v, k - 1) * 2^(W - k) IN f[W]
Low(v, W) == v % (2^W)

Before(V, v) == LET W == Width(V) kv == Key(Low(v, W), W) IN Cardinality({j \in 1..Len(V) : Key(V[j], W) < kv})
MapDown(V, i) == IF Huge(i) \/ i >= Len(V) THEN NoPair
                 ELSE <<Before(V, V[i + 1]) + VRank(V, i, V[i + 1]), V[i + 1]>>
\* with precomputed bf = Before(V, v) and ol = Occ(V, Low(v, Width(V)))
MapDownWithO(V, bf, ol, i) == bf + RankO(V, ol, i)
\* occurrence number k of the value is mapped down to bf + k, so mapping up is the inverse of that
MapUpWithO(bf, ol, idx) == IF Huge(idx) \/ idx < bf \/ idx >= bf + Len(ol) THEN None ELSE ol[idx - bf + 1] - 1
MapDownWith(V, i, v) == MapDownWithO(V, Before(V, v), Occ(V, Low(v, Width(V))), i)
MapUpWith(V, idx, v) == MapUpWithO(Before(V, v), Occ(V, Low(v, Width(V))), idx)
\* definitional form: the position p whose item maps down to (idx, value)
MapUpWithDef(V, idx, v) == LET w == Low(v, Width(V))
                               S == {p \in 0..(Len(V) - 1) : V[p + 1] = w /\ ~Huge(idx) /\ MapDown(V, p)[1] = idx}
                           IN IF S = {} THEN None ELSE CHOOSE p \in S : TRUE

\* Mapping up inverts mapping down (checked by TLC on small vectors: MC_VecRef).
UpInvertsDown(V) == \A i \in 0..(Len(V) - 1) : LET d == MapDown(V, i) IN MapUpWith(V, d[1], d[2]) = i
\* the closed form of mapping up equals its definition
UpMatchesDef(V) == \A idx \in 0..(Len(V) + 1) : \A v \in 0..(2^Width(V)) : MapUpWith(V, idx, v) = MapUpWithDef(V, idx, v)
\* The reordered vector is the stable sort of V by reversed bits.
SortedByKey(V) == LET W == Width(V)
                      R == [q \in 0..(Len(V) - 1) |-> CHOOSE i \in 0..(Len(V) - 1) : MapDown(V, i)[1] = q]
                  IN \A q \in 0..(Len(V) - 2) :
                        \/ Key(V[R[q] + 1], W) < Key(V[R[q + 1] + 1], W)
                        \/ (V[R[q] + 1] = V[R[q + 1] + 1] /\ R[q] < R[q + 1])
=============================================================================
