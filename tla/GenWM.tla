------------------------------- MODULE GenWM -------------------------------
(***************************************************************************)
(* Generator for wavelet matrix cases (spec -> impl): every vector over     *)
(* alphabet Alpha of length 0..MaxLen; for every value in the alphabet,    *)
(* the first values outside it, and every index / rank 0..len+1 and a huge *)
(* one: the defined answer of every VectorIndex query and core mapping.    *)
(***************************************************************************)
EXTENDS VecRef, TLC, Json
CONSTANTS Alpha, MaxLen, ExtraVals
VARIABLE V

Init == \E k \in 0..MaxLen : V \in [1..k -> Alpha]
Next == UNCHANGED V

Args == [i \in 1..(Len(V) + 3) |-> IF i = Len(V) + 3 THEN -1 ELSE i - 1]
Vals == SetToSortSeq(ToSet(V) \cup ExtraVals \cup {2^Width(V) - 1, 2^Width(V), 2^Width(V) + 1} \cup {0}, <)

PerVal(v) ==
    LET m == Len(Args) IN
    [v |-> v,
     contains |-> IF VContains(V, v) THEN 1 ELSE 0,
     rank |-> [j \in 1..m |-> VRank(V, Args[j], v)],
     sel  |-> [j \in 1..m |-> VSelect(V, Args[j], v)],
     pred |-> [j \in 1..m |-> VPred(V, Args[j], v)],
     succ |-> [j \in 1..m |-> VSucc(V, Args[j], v)],
     iter |-> VIterFrom(V, 0, v),
     down_with |-> [j \in 1..m |-> MapDownWith(V, Args[j], v)],
     up_with   |-> [j \in 1..m |-> MapUpWith(V, Args[j], v)]]

Case == [k |-> "wm", vals |-> V, width |-> Width(V), args |-> Args,
         inv  |-> [j \in 1..Len(Args) |-> VInvSelect(V, Args[j])],
         down |-> [j \in 1..Len(Args) |-> MapDown(V, Args[j])],
         perval |-> [q \in 1..Len(Vals) |-> PerVal(Vals[q])]]

Emit == UpInvertsDown(V) /\ SortedByKey(V) /\ PrintT(<<"REPLAY", ToJson(Case)>>)
=============================================================================
