------------------------------- MODULE MSRef64 -------------------------------
(***************************************************************************)
(* The Layer A multiset semantics of MSRef for universes up to 2^64 - 1.   *)
(* M = [universe |-> U64, items |-> <<value (U64), multiplicity (Nat >= 1)>>]*)
(* with strictly increasing values below the universe.  Positions are U64  *)
(* limb triples; ranks / counts are naturals below 2^31 (the number of     *)
(* values of a recorded vector) and travel as U64 triples in the events.   *)
(* Arguments that are ranks are U64 as well (they may be huge).            *)
(* MC_MSRef64 checks agreement with MSRef on every small multiset.         *)
(***************************************************************************)
EXTENDS U64, SequencesExt, FiniteSets
NoPair64 == <<None64, None64>>
WellFormedM64(M) ==
    /\ IsU64(M.universe)
    /\ \A k \in 1..Len(M.items) : IsU64(M.items[k][1]) /\ Lt64(M.items[k][1], M.universe) /\ M.items[k][2] >= 1
    /\ \A k \in 1..(Len(M.items) - 1) : Lt64(M.items[k][1], M.items[k + 1][1])
Count64(M) == FoldLeft(LAMBDA acc, it : acc + it[2], 0, M.items)
CountZeros64(M) == LET c == FromNat(Count64(M)) IN IF Le64(M.universe, c) THEN Zero64 ELSE Sub64(M.universe, c)   \* saturates
IsMultiset64(M) == \E k \in 1..Len(M.items) : M.items[k][2] > 1
GetM64(M, i) == \E k \in 1..Len(M.items) : M.items[k][1] = i
\* number of values strictly below i (i is a position); every value when i is at or beyond the universe
RankNat64(M, i) == IF Le64(M.universe, i) THEN Count64(M)
                   ELSE FoldLeft(LAMBDA acc, it : IF Lt64(it[1], i) THEN acc + it[2] ELSE acc, 0, M.items)
RankM64(M, i) == FromNat(RankNat64(M, i))
\* number of values at or below i
RankLeNat64(M, i) == FoldLeft(LAMBDA acc, it : IF Le64(it[1], i) THEN acc + it[2] ELSE acc, 0, M.items)
\* the r-th value (r a natural)
SelectNat64(M, r) == FoldLeft(LAMBDA acc, it :
                        IF ~IsNone64(acc[2]) THEN acc
                        ELSE IF acc[1] < it[2] THEN <<0, it[1]>> ELSE <<acc[1] - it[2], None64>>, <<r, None64>>, M.items)[2]
\* r as a U64 argument: anything that is not below the count gives None
IsSmall64(a) == a[3] = 0 /\ a[2] < 128
ToNat64(a) == a[1] + a[2] * Base
SelectM64(M, a) == IF ~IsSmall64(a) \/ ToNat64(a) >= Count64(M) THEN None64 ELSE SelectNat64(M, ToNat64(a))
SuccM64(M, v) == IF Le64(M.universe, v) THEN NoPair64
                 ELSE LET r == RankNat64(M, v) IN IF r >= Count64(M) THEN NoPair64 ELSE <<FromNat(r), SelectNat64(M, r)>>
PredM64(M, v) == IF M.universe = Zero64 THEN NoPair64
                 ELSE LET w == IF Le64(M.universe, v) THEN Sub64(M.universe, One64) ELSE v
                          c == RankLeNat64(M, w)
                      IN IF c = 0 THEN NoPair64 ELSE <<FromNat(c - 1), SelectNat64(M, c - 1)>>
=============================================================================
