------------------------------ MODULE GenStream ------------------------------
(***************************************************************************)
(* Generator for serialization cases (spec -> impl): a pool of small-scope *)
(* values of every Serialize type (the empty instance of each included),   *)
(* and every stream of 1..MaxStream values from the pool written back to   *)
(* back; for each value the size the format determines (or Unknown), for   *)
(* each stream the record offsets.  Mode "params": the size_by_params      *)
(* grid.                                                                   *)
(***************************************************************************)
EXTENDS SDSStream, TLC, Json, SequencesExt
CONSTANTS MaxStream, Mode, PoolSel

All64 == 0..63
Bytes(n) == [i \in 1..n |-> (i * 37 + 11) % 256]
U(s) == [t |-> "u64", v |-> s]
VecU(n) == [t |-> "vec_u64", v |-> [i \in 1..n |-> IF i % 2 = 1 THEN All64 ELSE {0, i, 63}]]
VecP(n) == [t |-> "vec_pair", v |-> [i \in 1..n |-> <<{i}, {63 - i, 1}>>]]
By(n) == [t |-> "bytes", v |-> Bytes(n)]
Str(bs) == [t |-> "string", v |-> bs]
Some(x) == [t |-> "some", inner |-> x]
NoneOf(ty) == [t |-> "none", of |-> ty]
Raw(n, ones) == [t |-> "raw", len |-> n, ones |-> SetToSortSeq(ones, <)]
IntV(w, vs) == [t |-> "int", w |-> w, v |-> vs]
BV(n, ones, sup) == [t |-> "bv", len |-> n, ones |-> SetToSortSeq(ones, <), sup |-> sup]
SP(n, ones) == [t |-> "sparse", len |-> n, ones |-> SetToSortSeq(ones, <)]
RL(n, ones) == [t |-> "rl", len |-> n, ones |-> SetToSortSeq(ones, <)]
WMC(vs) == [t |-> "wmcore", vals |-> vs]
WM(vs) == [t |-> "wm", vals |-> vs]
\* a wavelet matrix core over full 64-bit items (values as sets of bit positions): 64 levels
WMC64(vs) == [t |-> "wmcore64", vals |-> vs]

Sups == {<< >>, <<"rank">>, <<"select">>, <<"select_zero">>, <<"rank", "select">>, <<"rank", "select_zero">>,
         <<"select", "select_zero">>, <<"rank", "select", "select_zero">>}

Scalars == {U({}), U(All64), [t |-> "usize", v |-> 5], [t |-> "pair", a |-> {0}, b |-> {63, 1}]}
Vectors == {VecU(0), VecU(1), VecU(3), VecP(0), VecP(2)}
ByteVecs == {By(0), By(1), By(7), By(8), By(9), By(17), Str(<< >>), Str(<<97>>), Str(<<97, 195, 177>>), Str(<<104, 101, 108, 108, 111, 32, 119, 111>>),
             Str(<<195, 169, 195, 169, 195, 169, 195, 169, 195, 169>>)}      \* five two-byte characters: 10 bytes, 2 elements
Options == {NoneOf("vec_u64"), Some(VecU(2)), Some(By(3)), NoneOf("bytes"), Some(Some(By(9))), Some(NoneOf("bytes")), NoneOf("some"),
            Some(VecU(0)), Some(By(0)), Some(Str(<< >>)), Some(VecP(0)), Some(Raw(0, {})), Some(IntV(1, << >>)),
            Some(Raw(65, {0, 64})), Some(IntV(7, <<{0, 6}, {1}>>)), NoneOf("raw"), NoneOf("int"), Some(Str(<<97, 98>>)), Some(Str(<<195, 169, 195, 169, 195, 169, 195, 169, 195, 169>>)), NoneOf("string"), Some(VecP(1)), NoneOf("vec_pair")}
Raws == {Raw(0, {}), Raw(1, {0}), Raw(63, {0, 62}), Raw(64, {63}), Raw(65, {0, 64}), Raw(130, {1, 64, 129})}
Ints == {IntV(1, << >>), IntV(64, << >>), IntV(1, <<{0}, {}, {0}>>), IntV(7, <<{0, 6}, {1}>>), IntV(64, <<All64, {}>>), IntV(13, <<{12}, {0}, {5}, {1, 2}, {12, 0}>>)}
BVs == {BV(0, {}, << >>)} \cup {BV(3, {1}, s) : s \in Sups} \cup {BV(65, {0, 63, 64}, s) : s \in {<< >>, <<"rank", "select", "select_zero">>}}
       \cup {BV(600, {5, 511, 512, 599}, s) : s \in {<<"rank">>, <<"select_zero">>}}
       \cup {BV(512, {0, 511}, <<"rank">>), BV(1024, {3, 1023}, <<"rank", "select", "select_zero">>)}      \* exact multiples of the rank block size
Compressed == {SP(0, {}), SP(10, {1, 5}), SP(100, {0, 99}), SP(8, 0..7), RL(0, {}), RL(10, {1, 5}), RL(100, {0, 1, 2, 50, 99}), RL(7, 0..6)}
Wavelets == {WMC(<< >>), WMC(<<1>>), WMC(<<1, 0, 3, 1>>), WM(<< >>), WM(<<0>>), WM(<<1, 0, 3, 1, 7>>),
             WMC64(<<All64, {63}, {}, {0, 63}>>), WMC64(<<{62}, {1}>>)}

FullPool == Scalars \cup Vectors \cup ByteVecs \cup Options \cup Raws \cup Ints \cup BVs \cup Compressed \cup Wavelets
MapPool == {x \in FullPool : Mappable(x)}
Pool == IF PoolSel = "map" THEN MapPool ELSE FullPool

VARIABLE s
Init == \/ /\ Mode = "streams"
           /\ \E k \in 1..MaxStream : s \in [1..k -> Pool]
        \/ /\ Mode = "params"
           /\ s \in {<<c, w>> : c \in {0, 1, 2, 63, 64, 65, 1000}, w \in {1, 7, 13, 32, 33, 63, 64}}
Next == UNCHANGED s

Case == IF Mode = "streams"
        THEN LET sizes == [k \in 1..Len(s) |-> SizeOf(s[k])] IN
             [k |-> "stream", items |-> s, sizes |-> sizes,
              offsets |-> IF \E k \in 1..Len(s) : sizes[k] = Unknown THEN << >> ELSE Offsets(sizes)]
        ELSE [k |-> "params", capacity |-> s[1], width |-> s[2], raw |-> RawSizeByParams(s[1]), int |-> IntSizeByParams(s[1], s[2])]
Emit == PrintT(<<"REPLAY", ToJson(Case)>>)
=============================================================================
