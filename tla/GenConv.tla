------------------------------- MODULE GenConv -------------------------------
(* All call histories of depth Depth over the object machine of SDSConv, from each initial type. *)
EXTENDS SDSConv, TLC, Json
CONSTANTS Depth, CallSet
VARIABLES o, hist, init
vars == <<o, hist, init>>
TheCalls == IF CallSet = "convert" THEN {c \in Calls : c.op = "convert"}
            ELSE IF CallSet = "supports" THEN {c \in Calls : c.op # "convert"}
            ELSE Calls
Init == \E t \in (IF CallSet = "supports" THEN {"plain"} ELSE Types) : o = NewObj(t) /\ init = t /\ hist = << >>
Next == /\ Len(hist) < Depth
        /\ \E c \in TheCalls : LET n == CStep(o, c) IN
             /\ o' = n /\ hist' = Append(hist, [c |-> c, type |-> n.type, flags |-> Flags(n)]) /\ UNCHANGED init
Emit == (Len(hist) = Depth) => PrintT(<<"REPLAY", ToJson([k |-> "conv", init |-> init, steps |-> hist])>>)
=============================================================================
