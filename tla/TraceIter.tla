------------------------------ MODULE TraceIter ------------------------------
(***************************************************************************)
(* Trace specification for iterators of large real objects: every recorded *)
(* call on a real iterator must be a step of the Layer A window machine    *)
(* (SDSIter!IterStep) and the item returned must be the item of the        *)
(* reference sequence at the index the machine yields.  The reference      *)
(* sequence is not materialized: ItemAt computes item `idx` from the       *)
(* abstract content (BVRef run list / VecRef vector).  The starting window *)
(* of iterators positioned by select_iter / select_zero_iter /             *)
(* predecessor / successor is computed by the specification from the       *)
(* query's argument.  Results are <<tag, a, b>>: 0 = None, 1 = item,       *)
(* 2 = length, 3 = clone.                                                  *)
(***************************************************************************)
EXTENDS BVRef, SDSIter, TraceCommon
VR == INSTANCE VecRef

VARIABLES l, B, V, it, kind, val, caps
vars == <<l, B, V, it, kind, val, caps>>

\* number of items of the reference sequence of an iterator kind
Total(k, v) ==
    CASE k = "bits"  -> B.len
      [] k = "one"   -> OnesF(B)
      [] k = "zero"  -> ZerosF(B)
      [] k = "runs"  -> Len(B.runs)
      [] k = "items" -> Len(V)
      [] k = "value" -> Len(VR!Occ(V, v))

ItemAt(k, v, idx) ==
    CASE k = "bits"  -> <<1, IF GetF(B, idx) THEN 1 ELSE 0, 0>>
      [] k = "one"   -> <<1, idx, SelectF(B, idx)>>
      [] k = "zero"  -> <<1, idx, SelectZeroF(B, idx)>>
      [] k = "runs"  -> <<1, B.runs[idx + 1][1], B.runs[idx + 1][2]>>
      [] k = "items" -> <<1, V[idx + 1], 0>>
      [] k = "value" -> <<1, idx, VR!VSelect(V, idx, v)>>

\* first index of the window of an iterator obtained through a positioning query
StartOf(k, v, via, arg) ==
    LET n == Total(k, v)
        clampRank(r) == IF r < 0 \/ r > n THEN n ELSE r
    IN CASE via = "begin"  -> 0
         [] via = "select" -> clampRank(arg)                     \* select_iter / select_zero_iter(rank)
         [] via = "pred"   -> IF k = "value" THEN (LET p == VR!VPred(V, arg, v) IN IF p[1] < 0 THEN n ELSE p[1])
                              ELSE (LET p == PredF(B, arg) IN IF p[1] < 0 THEN n ELSE p[1])
         [] via = "succ"   -> IF k = "value" THEN (LET p == VR!VSucc(V, arg, v) IN IF p[1] < 0 THEN n ELSE p[1])
                              ELSE (LET p == SuccF(B, arg) IN IF p[1] < 0 THEN n ELSE p[1])

TraceInit == /\ l = 1 /\ B = [len |-> 0, runs |-> << >>, cum |-> << >>] /\ V = << >> /\ it = NewIter(0, 0)
             /\ kind = "bits" /\ val = 0 /\ caps = [de |-> FALSE, exact |-> FALSE]

DefBV == /\ l <= Len(Rec) /\ Rec[l].e = "def"
         /\ B' = [len |-> Rec[l].len, runs |-> Rec[l].runs, cum |-> Rec[l].cum] /\ WellFormed(B') /\ CumOK(B')
         /\ it' = NewIter(0, 0) /\ kind' = "bits"      \* iterators do not outlive their object
         /\ UNCHANGED <<V, val, caps>> /\ l' = l + 1

DefVec == /\ l <= Len(Rec) /\ Rec[l].e = "defvec"
          /\ V' = Rec[l].vals
          /\ it' = NewIter(0, 0) /\ kind' = "items"
          /\ UNCHANGED <<B, val, caps>> /\ l' = l + 1

New == /\ l <= Len(Rec) /\ Rec[l].e = "it_new"
       /\ LET e == Rec[l] IN
            /\ kind' = e.kind /\ val' = e.v /\ caps' = [de |-> e.de, exact |-> e.exact]
            /\ it' = NewIter(StartOf(e.kind, e.v, e.via, e.arg), Total(e.kind, e.v))
       /\ UNCHANGED <<B, V>> /\ l' = l + 1

Call == /\ l <= Len(Rec) /\ Rec[l].e = "it_call"
        /\ LET e == Rec[l]
               r == IterStep(it, e.c)
           IN /\ IterEnabled(caps, e.c)
              /\ e.res = (CASE e.c.op = "len" -> <<2, r.res, 0>>
                            [] e.c.op = "clone" -> <<3, 0, 0>>
                            [] OTHER -> IF r.res = INone THEN <<0, 0, 0>> ELSE ItemAt(kind, val, r.res))
              /\ (caps.exact => e.len = Remaining(r.it))        \* ExactSizeIterator::len after every call
              /\ it' = r.it
        /\ UNCHANGED <<B, V, kind, val, caps>> /\ l' = l + 1

TraceNext == DefBV \/ DefVec \/ New \/ Call
TraceSpec == TraceInit /\ [][TraceNext]_vars
Window == WindowOK(it, Total(kind, val))
=============================================================================
