------------------------------ MODULE TraceMap ------------------------------
(* Trace specification for the life cycle of memory maps: outcome of every MemoryMap::new, validity
   and content of the slice, and - read from /proc/self/maps after every new and every drop - the
   bytes of the address space backed by the file: exactly the live mappings, nothing after the last
   drop (NoLeak); writes through a mutable map reach the file. *)
EXTENDS SDSMap, TraceCommon
VARIABLES l, size, vm
vars == <<l, size, vm>>
TraceInit == l = 1 /\ size = 0 /\ vm = {}
File == /\ l <= Len(Rec) /\ Rec[l].e = "m_file" /\ size' = Rec[l].size /\ vm' = {} /\ l' = l + 1
New == /\ l <= Len(Rec) /\ Rec[l].e = "m_new"
       /\ LET e == Rec[l] r == e.res IN
            /\ r \in NewResults(e.exists, e.size)
            /\ IF r = "ok"
               THEN /\ e.len * 8 = e.size /\ e.slice_eq = TRUE
                    /\ vm' = vm \cup {<<e.id, PageRound(e.size)>>}
               ELSE vm' = vm
            /\ (e.exists => e.mapped = MappedBytes(vm'))
       /\ UNCHANGED size /\ l' = l + 1
Drop == /\ l <= Len(Rec) /\ Rec[l].e = "m_drop"
        /\ vm' = {r \in vm : r[1] # Rec[l].id}
        /\ Rec[l].mapped = MappedBytes(vm')
        /\ UNCHANGED size /\ l' = l + 1
Written == /\ l <= Len(Rec) /\ Rec[l].e = "m_written" /\ Rec[l].in_file = TRUE /\ UNCHANGED <<size, vm>> /\ l' = l + 1
TraceNext == File \/ New \/ Drop \/ Written
TraceSpec == TraceInit /\ [][TraceNext]_vars
=============================================================================
