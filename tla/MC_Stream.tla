----------------------------- MODULE MC_Stream -----------------------------
(***************************************************************************)
(* Model check of the abstract stream machine of SDSStream: a writer       *)
(* appends records, a reader loads them in sequence, faults cut the stream *)
(* or limit the sink.  Invariants: Tiling (the read position is always a   *)
(* record boundary, so back-to-back structures load in sequence), a load   *)
(* succeeds iff its whole record is present, a view of a record of a       *)
(* truncated file is accepted iff the record lies entirely inside it.      *)
(***************************************************************************)
EXTENDS SDSStream, TLC
CONSTANTS MaxRecs, MaxSize

VARIABLES recs, rd, cut, last
vars == <<recs, rd, cut, last>>

Init == recs = << >> /\ rd = 1 /\ cut = -1 /\ last = "none"

Write(sz) == /\ Len(recs) < MaxRecs /\ cut = -1
             /\ recs' = Append(recs, sz) /\ last' = "written" /\ UNCHANGED <<rd, cut>>
\* truncate the stream to c bytes (once)
Cut(c) == /\ cut = -1 /\ rd = 1 /\ Len(recs) > 0 /\ c < 8 * Total(recs)     \* the stream is cut short before it is read
          /\ cut' = c /\ last' = "cut" /\ UNCHANGED <<recs, rd>>
Load == /\ rd <= Len(recs)
        /\ LET r == LoadResult(recs, rd, cut) IN
             /\ last' = r
             /\ rd' = IF r = "ok" THEN rd + 1 ELSE rd
        /\ UNCHANGED <<recs, cut>>
Next == (\E sz \in 1..MaxSize : Write(sz)) \/ (\E c \in 0..(8 * MaxRecs * MaxSize) : Cut(c)) \/ Load
Spec == Init /\ [][Next]_vars

Tiling == rd \in 1..(Len(recs) + 1)
\* whatever was loaded lies entirely inside the (possibly truncated) stream
LoadedPresent == cut >= 0 => \A k \in 1..(rd - 1) : 8 * (Offsets(recs)[k] + recs[k]) <= cut
\* a load is refused only because of truncation
RefusedOnlyWhenCut == (last = "err") => cut >= 0 /\ cut < 8 * (Offsets(recs)[rd] + recs[rd])
\* views of a file truncated to whole elements: accepted iff entirely inside
ViewsOK == \A t \in 0..Total(recs) : \A k \in 1..Len(recs) :
              (ViewResult(recs, k, t) = "ok") <=> (Offsets(recs)[k] + recs[k] <= t)
Inv == Tiling /\ LoadedPresent /\ RefusedOnlyWhenCut /\ ViewsOK
=============================================================================
