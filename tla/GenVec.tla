------------------------------- MODULE GenVec -------------------------------
(***************************************************************************)
(* Behaviour generator for the vector machine of SDSVec (spec -> impl).    *)
(* Explores call histories of an IntVector (Kind = "int") or a RawVector   *)
(* (Kind = "raw") at REAL widths with boundary values, exhaustively to     *)
(* depth Depth or by random walk (-simulate), and prints each behaviour -  *)
(* constructor, calls, defined results, abstract state after every call -  *)
(* as one JSON line for the harness to replay on the real code.            *)
(***************************************************************************)
EXTENDS SDSVec, TLC, Json
CONSTANTS Kind, Widths, Depth, MaxItems

VARIABLES st, hist, init
vars == <<st, hist, init>>

All64 == 0..63
ValuesFor(w) == {{}, All64, {b \in All64 : b % 2 = 0}, {0, w - 1}, {w - 1}, {b \in All64 : b <= w}, {1, w} \cap All64}
Fills(w) == {{}, All64, {0, w - 1}}
RawWidths == {0, 1, 7, 31, 33, 63, 64}

IntCalls(s) ==
    LET w == s.width k == Items(s) IN
    {[op |-> "push", v |-> v] : v \in (IF k < MaxItems THEN ValuesFor(w) ELSE {})}
    \cup {[op |-> "pop"], [op |-> "clear"], [op |-> "reserve", n |-> 5], [op |-> "pack"], [op |-> "count_ones"], [op |-> "len"], [op |-> "width"]}
    \cup {[op |-> "get", i |-> i] : i \in 0..(k - 1)}
    \cup {[op |-> "get_or", i |-> i, v |-> {0, 63}] : i \in {0, k - 1, k, k + 1, -1} \cap (0..(k + 1) \cup {-1})}
    \cup {[op |-> "is_empty"]}
    \cup {[op |-> "set", i |-> i, v |-> v] : i \in {0, k - 1} \cap 0..(k - 1), v \in {All64, {w - 1}, {}}}
    \cup {[op |-> "resize", n |-> n, v |-> v] : n \in {0, k - 1, k + 1, k + 2} \cap 0..MaxItems, v \in Fills(w)}
    \cup {[op |-> "extend", vs |-> vs] : vs \in (IF k + 2 <= MaxItems THEN {<<All64, {0}>>, <<{w - 1}, {}>>} ELSE {})}

RawCalls(s) ==
    LET n == Len(s.bits) IN
    {[op |-> "push_bit", b |-> b] : b \in (IF n < MaxItems * 64 THEN BOOLEAN ELSE {})}
    \cup UNION {{[op |-> "push_int", v |-> v, w |-> w] : v \in {All64, {0, w - 1} \cap All64, {w} \cap All64}} :
                    w \in (IF n < MaxItems * 64 THEN RawWidths ELSE {})}
    \cup {[op |-> "pop_bit"], [op |-> "clear"], [op |-> "reserve", n |-> 70], [op |-> "complement"], [op |-> "count_ones"], [op |-> "len"]}
    \cup {[op |-> "pop_int", w |-> w] : w \in RawWidths}
    \cup {[op |-> "bit", i |-> i] : i \in {0, n - 1} \cap 0..(n - 1)}
    \cup {[op |-> "set_bit", i |-> i, b |-> b] : i \in {0, n - 1} \cap 0..(n - 1), b \in BOOLEAN}
    \cup UNION {{[op |-> "int", i |-> i, w |-> w] : i \in {0, n - w} \cap 0..(n - w)} : w \in {1, 33, 64}}
    \cup UNION {{[op |-> "set_int", i |-> i, v |-> v, w |-> w] : i \in {0, n - w} \cap 0..(n - w), v \in {All64, {}}} : w \in {7, 64}}
    \cup {[op |-> "resize_bits", n |-> m, b |-> b] : m \in {0, n - 1, n + 1, n + 63, n + 64, n + 65} \cap 0..(MaxItems * 64), b \in BOOLEAN}

Calls(s) == IF s.kind = "int" THEN IntCalls(s) ELSE RawCalls(s)

Obs(s) == [len |-> Len(s.bits), width |-> s.width, ones |-> OnesOf(s.bits)]

Init ==
    /\ hist = << >>
    /\ IF Kind = "int"
       THEN \E w \in Widths :
              \/ init = [c |-> [op |-> "new", w |-> w], obs |-> Obs(NewInt(w))] /\ st = NewInt(w)
              \/ /\ w \in {8, 16, 32, 64}
                 /\ \E vs \in {<< >>, <<(0..(w - 1))>>, <<{0}, {w - 1}, {}>>} : \E how \in {"from_vec", "from_iter"} :
                      init = [c |-> [op |-> how, w |-> w, vs |-> vs], obs |-> Obs(FromItems(w, vs))] /\ st = FromItems(w, vs)
              \/ \E n \in {1, 3} : \E v \in {All64, {0, w - 1}} :
                   init = [c |-> [op |-> "with_len", n |-> n, w |-> w, v |-> v], obs |-> Obs(WithLenInt(n, w, v))] /\ st = WithLenInt(n, w, v)
       ELSE \/ init = [c |-> [op |-> "new_raw"], obs |-> Obs(NewRaw)] /\ st = NewRaw
            \/ \E n \in {1, 63, 64, 65, 130} : \E b \in BOOLEAN :
                 init = [c |-> [op |-> "with_len_raw", n |-> n, b |-> b], obs |-> Obs(WithLenRaw(n, b))] /\ st = WithLenRaw(n, b)

Next ==
    /\ Len(hist) < Depth
    /\ \E c \in Calls(st) :
         /\ InDomain(st, c)
         /\ LET r == Step(st, c) IN
              /\ st' = r.st
              /\ hist' = Append(hist, [c |-> c, res |-> r.res, obs |-> Obs(r.st)])
    /\ UNCHANGED init

Spec == Init /\ [][Next]_vars

Emit == /\ TypeOK(st)
        /\ (Len(hist) = Depth) => PrintT(<<"REPLAY", ToJson([k |-> "vec", init |-> init, steps |-> hist])>>)
=============================================================================
