---------------------------- MODULE TraceCommon ----------------------------
(***************************************************************************)
(* Common part of every trace specification (implementation -> spec        *)
(* direction).  The trace is an ndjson file named by the environment       *)
(* variable TRACE; one line per public call of the real library, logged by *)
(* the harness after the call returned (the linearization point of a       *)
(* sequential library).  `l` is the position in the trace.  A trace is     *)
(* accepted iff every line was consumed by some action of the trace        *)
(* specification, i.e. the real execution is a behaviour of Layer A.       *)
(***************************************************************************)
EXTENDS Naturals, Sequences, TLC, Json, IOUtils

Rec == ndJsonDeserialize(IOEnv.TRACE)

\* Postcondition: the longest behaviour consumed the whole trace.
\* (diameter counts states: the initial one plus one per consumed line.)
TraceAccepted ==
    LET d == TLCGet("stats").diameter IN
    IF d - 1 = Len(Rec) THEN TRUE
    ELSE Print(<<"UNMATCHED", d>>, FALSE)
=============================================================================
