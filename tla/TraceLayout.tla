----------------------------- MODULE TraceLayout -----------------------------
(* Layer B <-> code (MODEL-DRIFT, never a violation): the support structures the real library
   serializes for a plain bitvector are compared with what mech/PlainBV predicts at the REAL constants
   (64-bit words, 8-word rank blocks, 4096-one superblocks, 64-one blocks, long iff span >=
   bit_len(len)^4).  A difference means the mechanism model no longer describes the implementation
   (e.g. after a benign re-tuning); it lowers the weight of the design-level result and is reported
   in the evidence, but no property mandates these arrays. *)
EXTENDS Naturals, Sequences, TraceCommon
BitsOf(e) == [i \in 1..e.len |-> \E k \in 1..Len(e.runs) : e.runs[k][1] < i /\ i <= e.runs[k][1] + e.runs[k][2]]
P(b) == INSTANCE PlainBV WITH W <- 64, RB <- 8, SB <- 4096, BL <- 64, N <- 0, MaskLast <- TRUE, LongIdxBug <- FALSE, ThrReal <- TRUE, bits <- b
VARIABLES l
vars == <<l>>
LayoutOK(e) == LET b == BitsOf(e) IN
    /\ e.rank = P(b)!RankSamples
    /\ (e.has_sel => e.sel_samples = P(b)!SelSamples("id") /\ e.sel_long = P(b)!LongArray("id") /\ e.sel_short = P(b)!ShortArray("id"))
    /\ (e.has_sel0 => e.sel0_samples = P(b)!SelSamples("comp") /\ e.sel0_long = P(b)!LongArray("comp") /\ e.sel0_short = P(b)!ShortArray("comp"))
Verdict == [j \in 1..Len(Rec) |-> LayoutOK(Rec[j])]
TraceInit == l = 1
Event == l <= Len(Rec) /\ Verdict[l] /\ l' = l + 1
TraceNext == Event
TraceSpec == TraceInit /\ [][TraceNext]_vars
=============================================================================
