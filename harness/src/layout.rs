//! Reading the element layout of serialized structures (used to observe concrete parameters such
//! as the low-part width of a sparse vector, and to hand element sequences to TLC).
//!
//! This is a plain walk over 64-bit elements following the field order of the serialized
//! structures; it is used for observation only (the document-derived decoder of C07 lives in
//! tla/Format.tla, not here).

use simple_sds::serialize::Serialize;

pub fn to_bytes<T: Serialize>(x: &T) -> Vec<u8> {
    let mut buf: Vec<u8> = Vec::new();
    x.serialize(&mut buf).unwrap();
    buf
}

pub fn to_elements(bytes: &[u8]) -> Vec<u64> {
    assert!(bytes.len() % 8 == 0, "TOOL-ERROR: serialized size {} is not a multiple of 8", bytes.len());
    bytes.chunks(8).map(|c| u64::from_le_bytes([c[0], c[1], c[2], c[3], c[4], c[5], c[6], c[7]])).collect()
}

pub struct Cursor<'a> {
    pub data: &'a [u64],
    pub pos: usize,
}

#[derive(Clone, Debug)]
pub struct RawL { pub len: usize, pub words: Vec<u64> }
#[derive(Clone, Debug)]
pub struct IntL { pub len: usize, pub width: usize, pub raw: RawL }
#[derive(Clone, Debug)]
pub struct BitL { pub ones: usize, pub raw: RawL, pub opts: [Option<Vec<u64>>; 3] }

impl IntL {
    pub fn get(&self, i: usize) -> u64 {
        let w = self.width;
        let mut v: u64 = 0;
        for b in 0..w {
            let off = i * w + b;
            if (self.raw.words[off / 64] >> (off % 64)) & 1 == 1 { v |= 1u64 << b; }
        }
        v
    }
    pub fn items(&self) -> Vec<u64> { (0..self.len).map(|i| self.get(i)).collect() }
}

impl<'a> Cursor<'a> {
    pub fn new(data: &'a [u64]) -> Self { Cursor { data, pos: 0 } }
    pub fn elem(&mut self) -> u64 { let v = self.data[self.pos]; self.pos += 1; v }
    pub fn raw(&mut self) -> RawL {
        let len = self.elem() as usize;
        let n = self.elem() as usize;
        let words = self.data[self.pos..self.pos + n].to_vec();
        self.pos += n;
        RawL { len, words }
    }
    pub fn int(&mut self) -> IntL {
        let len = self.elem() as usize;
        let width = self.elem() as usize;
        let raw = self.raw();
        IntL { len, width, raw }
    }
    pub fn opt(&mut self) -> Option<Vec<u64>> {
        let n = self.elem() as usize;
        if n == 0 { return None; }
        let v = self.data[self.pos..self.pos + n].to_vec();
        self.pos += n;
        Some(v)
    }
    pub fn bit(&mut self) -> BitL {
        let ones = self.elem() as usize;
        let raw = self.raw();
        let opts = [self.opt(), self.opt(), self.opt()];
        BitL { ones, raw, opts }
    }
    pub fn done(&self) -> bool { self.pos == self.data.len() }
}

/// (universe, high, low) of a serialized sparse vector.
pub fn sparse_layout(elems: &[u64]) -> (usize, BitL, IntL) {
    let mut c = Cursor::new(elems);
    let len = c.elem() as usize;
    let high = c.bit();
    let low = c.int();
    assert!(c.done(), "TOOL-ERROR: trailing elements in sparse vector");
    (len, high, low)
}

/// (len, ones, samples, data) of a serialized run-length vector.
pub fn rl_layout(elems: &[u64]) -> (usize, usize, IntL, IntL) {
    let mut c = Cursor::new(elems);
    let len = c.elem() as usize;
    let ones = c.elem() as usize;
    let samples = c.int();
    let data = c.int();
    assert!(c.done(), "TOOL-ERROR: trailing elements in rl vector");
    (len, ones, samples, data)
}

/// Select support layout (samples, long, short) from the elements of the optional structure.
pub fn select_layout(elems: &[u64]) -> (IntL, IntL, IntL) {
    let mut c = Cursor::new(elems);
    let s = c.int();
    let l = c.int();
    let sh = c.int();
    (s, l, sh)
}
