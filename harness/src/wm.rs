//! Wavelet matrix and its core: replay of generated cases and recording of large instances.

use crate::common::*;
use serde_json::{json, Value};
use simple_sds::ops::{Access, Vector, VectorIndex};
use simple_sds::wavelet_matrix::wm_core::WMCore;
use simple_sds::wavelet_matrix::WaveletMatrix;

pub const PANIC_TOKEN: i64 = -8;

pub fn build(vals: &[u64], ty: &str) -> Option<(WaveletMatrix, WMCore)> {
    let max = vals.iter().copied().max().unwrap_or(0);
    match ty {
        "u8" if max <= u8::MAX as u64 => { let v: Vec<u8> = vals.iter().map(|x| *x as u8).collect(); Some((WaveletMatrix::from(v.clone()), WMCore::from(v))) },
        "u16" if max <= u16::MAX as u64 => { let v: Vec<u16> = vals.iter().map(|x| *x as u16).collect(); Some((WaveletMatrix::from(v.clone()), WMCore::from(v))) },
        "u32" if max <= u32::MAX as u64 => { let v: Vec<u32> = vals.iter().map(|x| *x as u32).collect(); Some((WaveletMatrix::from(v.clone()), WMCore::from(v))) },
        "u64" => { let v: Vec<u64> = vals.to_vec(); Some((WaveletMatrix::from(v.clone()), WMCore::from(v))) },
        "usize" => { let v: Vec<usize> = vals.iter().map(|x| *x as usize).collect(); Some((WaveletMatrix::from(v.clone()), WMCore::from(v))) },
        _ => None,
    }
}

pub const TYPES: [&str; 5] = ["u8", "u16", "u32", "u64", "usize"];

fn pair_or_panic<F: FnOnce() -> Value>(f: F) -> Value {
    match guarded(f) { Ok(v) => v, Err(msg) => { crate::bv::LAST_PANIC.with(|p| *p.borrow_mut() = msg); json!([PANIC_TOKEN, PANIC_TOKEN]) } }
}
fn int_or_panic<F: FnOnce() -> Value>(f: F) -> Value {
    match guarded(f) { Ok(v) => v, Err(msg) => { crate::bv::LAST_PANIC.with(|p| *p.borrow_mut() = msg); json!(PANIC_TOKEN) } }
}

/// One query with an index/rank argument `a` and a value `v`.
pub fn query(wm: &WaveletMatrix, core: &WMCore, op: &str, a: usize, v: u64) -> Value {
    match op {
        "get" => int_or_panic(|| enc(wm.get(a) as usize)),
        "contains" => int_or_panic(|| json!(wm.contains(v) as usize)),
        "rank" => int_or_panic(|| enc(wm.rank(a, v))),
        "sel" => int_or_panic(|| enc_opt(wm.select(a, v))),
        "seli" => pair_or_panic(|| enc_pair(wm.select_iter(a, v).next())),
        "inv" => pair_or_panic(|| match wm.inverse_select(a) { Some((r, x)) => json!([enc(r), enc(x as usize)]), None => json!([-1, -1]) }),
        "pred" => pair_or_panic(|| enc_pair(wm.predecessor(a, v).next())),
        "succ" => pair_or_panic(|| enc_pair(wm.successor(a, v).next())),
        "down" => pair_or_panic(|| match core.map_down(a) { Some((i, x)) => json!([enc(i), enc(x as usize)]), None => json!([-1, -1]) }),
        "down_with" => int_or_panic(|| enc(core.map_down_with(a, v))),
        "down_with2" => pair_or_panic(|| { let (x, y) = core.map_down_with_two_positions(a, a / 2, v); json!([enc(x), enc(y)]) }),
        "up_with" => int_or_panic(|| enc_opt(core.map_up_with(a, v))),
        _ => panic!("TOOL-ERROR: unknown wm query {}", op),
    }
}

pub fn iter_items(wm: &WaveletMatrix, v: u64) -> Value {
    match guarded(|| Value::Array(wm.value_iter(v).map(|(r, i)| json!([enc(r), enc(i)])).collect())) {
        Ok(x) => x,
        Err(_) => json!([[PANIC_TOKEN, PANIC_TOKEN]]),
    }
}

fn expand(arg: &Value, len: usize) -> Vec<usize> {
    if arg.as_i64() == Some(-1) {
        let mut v: Vec<usize> = HUGE_TOKENS.iter().map(|t| t.1).collect();
        v.push(2 * len + 9);
        v
    } else { vec![dec_arg(arg)] }
}

thread_local! { pub static SUBSETS: std::cell::Cell<bool> = std::cell::Cell::new(false); }

/// The file of a wavelet matrix core in which the bitvector of every level carries the subset of support structures
/// chosen by `subset(level)` (bit 0 rank, bit 1 select, bit 2 select_zero) instead of all of them: the document makes every
/// support structure optional, and a plain bitvector with any subset enabled is a structure the library writes.
fn core_file_with_subsets(core: &WMCore, subset: &dyn Fn(usize) -> u8) -> Vec<u8> {
    use simple_sds::bit_vector::BitVector;
    use simple_sds::raw_vector::{AccessRaw, RawVector};
    use simple_sds::ops::{Rank, Select, SelectZero};
    let full = crate::layout::to_bytes(core);
    let elems = crate::layout::to_elements(&full);
    let mut cur = crate::layout::Cursor::new(&elems);
    let width = cur.elem();
    let mut out: Vec<u8> = width.to_le_bytes().to_vec();
    for level in 0..width as usize {
        let l = cur.bit();
        let mut raw = RawVector::with_len(l.raw.len, false);
        for i in 0..l.raw.len { if (l.raw.words[i / 64] >> (i % 64)) & 1 == 1 { raw.set_bit(i, true); } }
        let mut b = BitVector::from(raw);
        let s = subset(level);
        if s & 1 != 0 { b.enable_rank(); }
        if s & 2 != 0 { b.enable_select(); }
        if s & 4 != 0 { b.enable_select_zero(); }
        out.extend_from_slice(&crate::layout::to_bytes(&b));
    }
    assert!(cur.done(), "TOOL-ERROR: trailing elements in a wavelet matrix core");
    out
}

/// C19 / C07: cores and matrices whose levels carry every uniform subset of supports and two per-level mixtures load, equal the
/// original and answer like it.
fn replay_subsets(vals: &[u64], case: &Value, wm: &WaveletMatrix, core: &WMCore, ckey: u64, tally: &mut Tally) {
    use simple_sds::serialize::Serialize;
    let len = vals.len();
    let wm_bytes = crate::layout::to_bytes(wm);
    let core_size = core.size_in_bytes();
    let choices: Vec<(String, Box<dyn Fn(usize) -> u8>)> = (0..8u8).map(|s| (format!("every level with subset {}", s), Box::new(move |_l: usize| s) as Box<dyn Fn(usize) -> u8>))
        .chain([("level l with subset (3l + 1) mod 8".to_string(), Box::new(|l: usize| ((3 * l + 1) % 8) as u8) as Box<dyn Fn(usize) -> u8>),
                ("level l with subset (5l + 3) mod 8".to_string(), Box::new(|l: usize| ((5 * l + 3) % 8) as u8) as Box<dyn Fn(usize) -> u8>),
                ("level 0 with every support, the other levels with none".to_string(), Box::new(|l: usize| if l == 0 { 7u8 } else { 0 }) as Box<dyn Fn(usize) -> u8>),
                ("level 0 with no support, the other levels with every one".to_string(), Box::new(|l: usize| if l == 0 { 0u8 } else { 7 }) as Box<dyn Fn(usize) -> u8>),
                ("the last level with no support, the other levels with every one".to_string(), Box::new(|l: usize| if l + 1 == 64 { 0u8 } else { 7 - (l % 2) as u8 * 7 }) as Box<dyn Fn(usize) -> u8>)]).collect();
    for (ci, (what, f)) in choices.iter().enumerate() {
        let ctx = |op: &str| json!({"kind": "wm", "vals": case["vals"], "type": "u64", "op": op, "supports in the file": what});
        let r = guarded(|| {
            let cfile = core_file_with_subsets(core, f.as_ref());
            let mut out: Vec<(&'static str, Value, Value)> = Vec::new();
            let mut c = std::io::Cursor::new(&cfile);
            match WMCore::load(&mut c) {
                Ok(lc) => {
                    out.push(("core file with these supports: load consumes the file and == the original", json!([cfile.len(), true]), json!([c.position(), lc == *core])));
                    let maxv = 1u64 << core.width().min(4);
                    let a: Vec<Value> = (0..maxv).map(|v| json!((0..=len + 1).map(|i| query(wm, &lc, "up_with", i, v)).collect::<Vec<Value>>())).collect();
                    let b: Vec<Value> = (0..maxv).map(|v| json!((0..=len + 1).map(|i| query(wm, core, "up_with", i, v)).collect::<Vec<Value>>())).collect();
                    out.push(("loaded core: map_up_with answers as the original", json!(b), json!(a)));
                    let a: Vec<Value> = (0..=len).map(|i| query(wm, &lc, "down", i, 0)).collect();
                    let b: Vec<Value> = (0..=len).map(|i| query(wm, core, "down", i, 0)).collect();
                    out.push(("loaded core: map_down answers as the original", json!(b), json!(a)));
                },
                Err(e) => out.push(("core file with these supports loads", json!("ok"), json!(e.to_string()))),
            }
            let mut wfile = wm_bytes[..8].to_vec();
            wfile.extend_from_slice(&cfile);
            wfile.extend_from_slice(&wm_bytes[8 + core_size..]);
            let mut c = std::io::Cursor::new(&wfile);
            match WaveletMatrix::load(&mut c) {
                Ok(lw) => {
                    out.push(("matrix file with these supports: load consumes the file and == the original", json!([wfile.len(), true]), json!([c.position(), lw == *wm])));
                    let maxv = 1u64 << wm.width().min(4);
                    for op in ["rank", "sel", "pred", "succ"] {
                        let a: Vec<Value> = (0..maxv).map(|v| json!((0..=len + 1).map(|i| query(&lw, core, op, i, v)).collect::<Vec<Value>>())).collect();
                        let b: Vec<Value> = (0..maxv).map(|v| json!((0..=len + 1).map(|i| query(wm, core, op, i, v)).collect::<Vec<Value>>())).collect();
                        out.push(("loaded matrix answers as the original", json!([op, b]), json!([op, a])));
                    }
                    let a: Vec<Value> = (0..maxv).map(|v| iter_items(&lw, v)).collect();
                    let b: Vec<Value> = (0..maxv).map(|v| iter_items(wm, v)).collect();
                    out.push(("loaded matrix: value_iter as the original", json!(b), json!(a)));
                },
                Err(e) => out.push(("matrix file with these supports loads", json!("ok"), json!(e.to_string()))),
            }
            out
        });
        match r {
            Ok(list) => for (j, (op, exp, got)) in list.iter().enumerate() { tally.check(hkey(&[ckey, 700 + ci as u64, j as u64]), len > 0, &|| ctx(op), exp, got); },
            Err(msg) => { tally.check(hkey(&[ckey, 700 + ci as u64]), true, &|| ctx("panic"), &json!("no panic"), &json!(format!("PANIC: {}", msg))); },
        }
    }
}

pub fn replay_case(case: &Value, tally: &mut Tally) {
    tally.cases += 1;
    let vals: Vec<u64> = case["vals"].as_array().unwrap().iter().map(|x| x.as_u64().unwrap()).collect();
    let len = vals.len();
    let args = case["args"].as_array().unwrap();
    let ckey = hstr(&case["vals"].to_string());
    for ty in TYPES.iter() {
        let built = match guarded(|| build(&vals, ty)) {
            Ok(Some(b)) => b,
            Ok(None) => continue,
            Err(msg) => { tally.check(hkey(&[ckey, hstr(ty)]), true, &|| json!({"kind": "wm", "vals": case["vals"], "type": ty, "op": "build"}), &json!("ok"), &json!(format!("PANIC: {}", msg))); continue; },
        };
        let (wm, core) = (&built.0, &built.1);
        if SUBSETS.with(|c| c.get()) {
            if *ty == "u64" { replay_subsets(&vals, case, wm, core, ckey, tally); }
            continue;
        }
        let ctx = |op: &str, a: &Value, v: u64| json!({"kind": "wm", "vals": case["vals"], "type": ty, "op": op, "arg": a, "value": v});
        let nt = len > 0;
        tally.check(hkey(&[ckey, 1]), nt, &|| ctx("len", &json!(0), 0), &json!(len), &json!(wm.len()));
        tally.check(hkey(&[ckey, 2]), nt, &|| ctx("width", &json!(0), 0), &case["width"], &json!(wm.width()));
        tally.check(hkey(&[ckey, 3]), nt, &|| ctx("core.len/width", &json!(0), 0), &json!([len, case["width"]]), &json!([core.len(), core.width()]));
        // Content through get and iter.
        let items: Vec<u64> = match guarded(|| wm.iter().collect::<Vec<u64>>()) { Ok(v) => v, Err(_) => vec![u64::MAX] };
        tally.check(hkey(&[ckey, 4]), nt, &|| ctx("iter", &json!(0), 0), &case["vals"], &json!(items));
        // a partly consumed iterator skipping by huge amounts: None, and it stays exhausted
        let skipped = guarded_val(|| {
            let mut out = Vec::new();
            for k in [usize::MAX, usize::MAX - 1, 1usize << 63] {
                let mut it = wm.iter();
                let first = it.next();
                let a = it.nth(k);
                let b = it.next();
                let mut it2 = wm.iter();
                let _ = it2.next_back();
                let c = it2.nth_back(k);
                out.push(json!([first.is_some(), a.is_none(), b.is_none(), it.len(), c.is_none(), it2.len()]));
            }
            Value::Array(out)
        });
        // an iterator cloned mid-way (after steps from both ends) yields exactly what the original still has to yield
        let cloned = guarded_val(|| {
            let mut out = Vec::new();
            for (f, b) in [(0usize, 1usize), (1, 1), (1, 2), (2, 0)] {
                let mut it = wm.iter();
                for _ in 0..f { it.next(); }
                for _ in 0..b { it.next_back(); }
                let c = it.clone();
                let (lc, li) = (c.len(), it.len());
                let rest_c: Vec<u64> = c.collect();
                let rest_i: Vec<u64> = it.collect();
                let lo = f.min(vals.len());
                let hi = vals.len().saturating_sub(b).max(lo);
                out.push(json!([rest_c == vals[lo..hi].to_vec(), rest_i == rest_c, lc == hi - lo, li == lc]));
            }
            Value::Array(out)
        });
        tally.check(hkey(&[ckey, 17]), nt, &|| ctx("iter: clone after steps from both ends", &json!(0), 0), &json!([[true, true, true, true], [true, true, true, true], [true, true, true, true], [true, true, true, true]]), &cloned);
        // the owning iterator: items, and its exact length after every step
        let owned = guarded_val(|| {
            let mut it = wm.clone().into_iter();
            let mut lens = vec![it.len()];
            let mut items = Vec::new();
            while let Some(x) = it.next() { items.push(x); lens.push(it.len()); if lens.len() > vals.len() + 3 { break; } }
            lens.push(it.size_hint().0);
            json!([items, lens])
        });
        let exp_lens: Vec<usize> = (0..=vals.len()).rev().chain(std::iter::once(0)).collect();
        tally.check(hkey(&[ckey, 6]), nt, &|| ctx("into_iter: items and exact length after every next()", &json!(0), 0), &json!([vals, exp_lens]), &owned);
        let fs = !vals.is_empty();
        tally.check(hkey(&[ckey, 5]), nt, &|| ctx("iter: next / next_back, then nth / nth_back(huge)", &json!(0), 0), &json!([[fs, true, true, 0, true, 0], [fs, true, true, 0, true, 0], [fs, true, true, 0, true, 0]]), &skipped);
        for i in 0..len {
            tally.check(hkey(&[ckey, 5, i as u64]), nt, &|| ctx("get", &json!(i), 0), &json!(vals[i]), &query(wm, core, "get", i, 0));
        }
        for (j, arg) in args.iter().enumerate() {
            for a in expand(arg, len) {
                let aj = json!(a.to_string());
                tally.check(hkey(&[ckey, 6, a as u64]), nt, &|| ctx("inverse_select", &aj, 0), &case["inv"][j], &query(wm, core, "inv", a, 0));
                tally.check(hkey(&[ckey, 7, a as u64]), nt, &|| ctx("map_down", &aj, 0), &case["down"][j], &query(wm, core, "down", a, 0));
            }
        }
        for pv in case["perval"].as_array().unwrap() {
            let v = match pv["v"].as_i64() { Some(x) if x < 0 => u64::MAX, _ => pv["v"].as_u64().unwrap() };
            tally.check(hkey(&[ckey, 8, v]), nt, &|| ctx("contains", &json!(0), v), &pv["contains"], &query(wm, core, "contains", 0, v));
            tally.check(hkey(&[ckey, 9, v]), nt, &|| ctx("value_iter", &json!(0), v), &pv["iter"], &iter_items(wm, v));
            for (j, arg) in args.iter().enumerate() {
                for a in expand(arg, len) {
                    let aj = json!(a.to_string());
                    for (code, op) in [(10u64, "rank"), (11, "sel"), (12, "pred"), (13, "succ"), (14, "down_with"), (15, "up_with")] {
                        let got = query(wm, core, op, a, v);
                        if !tally.check(hkey(&[ckey, code, a as u64, v]), nt, &|| ctx(op, &aj, v), &pv[op][j], &got) && got.to_string().contains("-8") {
                            crate::bv::LAST_PANIC.with(|p| tally.notes.push(json!(format!("panic: {}", p.borrow()))));
                        }
                    }
                    // select_iter starts at (r, select(r)).
                    let exp = if pv["sel"][j].as_i64() == Some(-1) { json!([-1, -1]) } else { json!([enc(a), pv["sel"][j]]) };
                    tally.check(hkey(&[ckey, 16, a as u64, v]), nt, &|| ctx("select_iter", &aj, v), &exp, &query(wm, core, "seli", a, v));
                    // map_down_with_two_positions agrees with two single mappings.
                    let two = query(wm, core, "down_with2", a, v);
                    let one = json!([query(wm, core, "down_with", a, v), query(wm, core, "down_with", a / 2, v)]);
                    tally.check(hkey(&[ckey, 17, a as u64, v]), nt, &|| ctx("map_down_with_two_positions", &aj, v), &one, &two);
                }
            }
        }
    }
    if len >= 3 { tally.sample(json!({"vals": case["vals"], "values_queried": case["perval"].as_array().unwrap().len()})); }
}

//-----------------------------------------------------------------------------

fn zipf(rng: &mut Rng, sigma: usize) -> u64 {
    // crude skew: value k with probability about 2^-(k+1), folded into the alphabet
    let mut k = 0;
    while k + 1 < sigma && rng.chance(1, 2) { k += 1; }
    k as u64
}

pub fn record_wm(seed: u64, thorough: bool, path: &str) -> Value {
    let mut rng = Rng::new(seed);
    let mut out = TraceOut::new();
    let mut queries = 0usize;
    let objects = if thorough { 24 } else { 6 };
    for o in 0..objects {
        let width = if o < 16 { o % 16 + 1 } else { rng.range(1, 16) };
        let sigma = 1usize << width;
        let len = if thorough { rng.range(200, 3000) } else { rng.range(150, 500) };
        let mode = o % 4;
        let present: Vec<u64> = (0..sigma as u64).filter(|_| rng.chance(2, 3)).collect();
        let vals: Vec<u64> = (0..len).map(|_| match mode {
            0 => rng.below(sigma) as u64,
            1 => zipf(&mut rng, sigma),
            2 => if present.is_empty() { 0 } else { *rng.pick(&present) },
            _ => if rng.chance(9, 10) { (sigma - 1) as u64 } else { rng.below(sigma) as u64 },
        }).collect();
        // the item type rotates over the five source types; a type too narrow for the alphabet is replaced by the next wider one
        let ty = match TYPES[o % 5] { "u8" if width > 8 => "u16", t => t };
        let (wm, core) = match guarded(|| build(&vals, ty)) { Ok(Some(b)) => b, Ok(None) => panic!("TOOL-ERROR: item type {} cannot hold the alphabet of width {}", ty, width), Err(_) => { out.push(json!({"e": "def", "vals": vals, "type": ty, "built": "PANIC"})); continue; } };
        out.push(json!({"e": "def", "vals": vals, "type": ty, "built": "ok", "obs": [wm.len(), wm.width(), core.len(), core.width()]}));
        let d = out.lines.len();
        let nq = if thorough { 40 } else { 25 };
        let mut idx: Vec<usize> = vec![0, 1, len - 1, len, len + 1, 2 * len];
        for _ in 0..nq { idx.push(rng.below(len + 2)); }
        let huge: Vec<usize> = HUGE_TOKENS.iter().map(|t| t.1).collect();
        let mut values: Vec<u64> = vec![0, 1, (sigma - 1) as u64, sigma as u64, (sigma + 1) as u64, vals[0], vals[len / 2]];
        for _ in 0..6 { values.push(rng.below(sigma) as u64); }
        values.sort(); values.dedup();
        for op in ["inv", "down"] {
            let mut all = idx.clone(); all.extend(huge.iter());
            let rs: Vec<Value> = all.iter().map(|a| query(&wm, &core, op, *a, 0)).collect();
            out.push(json!({"e": "q", "d": d, "op": op, "v": 0, "a": all.iter().map(|a| enc_arg(*a)).collect::<Vec<Value>>(), "r": rs}));
            queries += all.len();
        }
        for v in values.iter() {
            for op in ["rank", "sel", "seli", "pred", "succ", "down_with", "up_with"] {
                let mut all = idx.clone(); all.extend(huge.iter());
                let rs: Vec<Value> = all.iter().map(|a| query(&wm, &core, op, *a, *v)).collect();
                out.push(json!({"e": "q", "d": d, "op": op, "v": v, "a": all.iter().map(|a| enc_arg(*a)).collect::<Vec<Value>>(), "r": rs}));
                queries += all.len();
            }
            out.push(json!({"e": "q", "d": d, "op": "contains", "v": v, "a": [0], "r": [query(&wm, &core, "contains", 0, *v)]}));
            out.push(json!({"e": "iter", "d": d, "v": v, "items": iter_items(&wm, *v)}));
        }
        let items: Vec<u64> = wm.iter().collect();
        out.push(json!({"e": "items", "d": d, "items": items}));
    }
    // A long vector whose levels have long select superblocks (>= 83 521 positions spanned by 4096 occurrences):
    // a few rare symbols among frequent ones, dense at the start and sparse afterwards, and the reverse.
    for rep in 0..(if thorough { 4 } else { 2 }) {
        let len = 120_000 + rng.below(30_000);
        let vals: Vec<u64> = if rep % 2 == 0 {
            // A: 30 000 items over the whole alphabet (several full, short superblocks of every side), then the symbols 1 and 4
            //    become rare: the last superblock of their side is long and follows short ones.
            (0..len).map(|i| if i < 30_000 { *rng.pick(&[1u64, 4, 9, 12, 13]) } else if rng.chance(1, 9000) { *rng.pick(&[1u64, 4]) } else { *rng.pick(&[9u64, 12, 13]) }).collect()
        } else {
            // B: the symbols 1 and 4 occur a handful of times only, the first time far from position 0: a single long
            //    superblock whose start is not 0.
            let first = rng.range(5000, 9000);
            (0..len).map(|i| if i >= first && (i - first) % 23_456 == 0 { if (i / 23_456) % 2 == 0 { 1 } else { 4 } } else { *rng.pick(&[9u64, 12, 13]) }).collect()
        };
        let (wm, core) = match guarded(|| build(&vals, "u8")) { Ok(Some(b)) => b, _ => continue };
        out.push(json!({"e": "def", "vals": vals, "type": "u8", "built": "ok", "obs": [wm.len(), wm.width(), core.len(), core.width()]}));
        let d = out.lines.len();
        for v in [1u64, 4, 9, 13, 2] {
            let count = vals.iter().filter(|x| **x == v).count();
            let mut ranks: Vec<usize> = vec![0, 1, 2, count.saturating_sub(1), count, count + 1, 4095, 4096, 4097, 8191, 8192];
            for _ in 0..12 { ranks.push(rng.below(count + 2)); }
            ranks.sort(); ranks.dedup();
            let mut idx: Vec<usize> = vec![0, 1, 8999, 9000, 9001, len - 1, len, len + 1];
            for _ in 0..10 { idx.push(rng.below(len)); }
            for (op, args) in [("sel", &ranks), ("seli", &ranks), ("rank", &idx), ("pred", &idx), ("succ", &idx), ("up_with", &ranks), ("down_with", &idx)] {
                let rs: Vec<Value> = args.iter().map(|a| query(&wm, &core, op, *a, v)).collect();
                out.push(json!({"e": "q", "d": d, "op": op, "v": v, "a": args.iter().map(|a| enc_arg(*a)).collect::<Vec<Value>>(), "r": rs}));
                queries += args.len();
            }
        }
        let idx: Vec<usize> = (0..20).map(|_| rng.below(len)).collect();
        for op in ["inv", "down"] {
            let rs: Vec<Value> = idx.iter().map(|a| query(&wm, &core, op, *a, 0)).collect();
            out.push(json!({"e": "q", "d": d, "op": op, "v": 0, "a": idx.iter().map(|a| enc_arg(*a)).collect::<Vec<Value>>(), "r": rs}));
        }
    }
    out.write(path);
    json!({"objects": objects, "queries": queries, "events": out.lines.len(), "sample": serde_json::from_str::<Value>(&out.lines[2]).unwrap()})
}
