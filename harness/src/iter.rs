//! Iterators: replay of the transition cover of the Layer A iterator machine (SDSIter) on every
//! iterator type, and recording of random call sequences on large instances.

use crate::bv::{self, AnyBv, Runs};
use crate::common::*;
use serde_json::{json, Value};
use simple_sds::int_vector::IntVector;
use simple_sds::ops::{Access, BitVec, PredSucc, Select, SelectZero, VectorIndex};
use simple_sds::wavelet_matrix::WaveletMatrix;

#[derive(Clone, Debug)]
pub struct Step { pub op: String, pub k: i64, pub res: i64, pub lo: usize, pub hi: usize }

#[derive(Clone, Debug)]
pub struct History { pub n: usize, pub de: bool, pub exact: bool, pub steps: Vec<Step>, pub raw: Value }

pub fn parse_history(v: &Value) -> History {
    let steps = v["steps"].as_array().unwrap().iter().map(|s| Step {
        op: s["c"]["op"].as_str().unwrap().to_string(),
        k: s["c"].get("k").and_then(|x| x.as_i64()).unwrap_or(0),
        res: s["res"].as_i64().unwrap(),
        lo: s["lo"].as_u64().unwrap() as usize,
        hi: s["hi"].as_u64().unwrap() as usize,
    }).collect();
    History { n: v["n"].as_u64().unwrap() as usize, de: v["de"].as_bool().unwrap(), exact: v["exact"].as_bool().unwrap(), steps, raw: v.clone() }
}

/// Optional capabilities of an iterator type.
pub struct Ops<I: Iterator> {
    pub next_back: Option<fn(&mut I) -> Option<I::Item>>,
    pub nth_back: Option<fn(&mut I, usize) -> Option<I::Item>>,
    pub len: Option<fn(&I) -> usize>,
}

pub fn de_ops<I: DoubleEndedIterator + ExactSizeIterator>() -> Ops<I> {
    Ops { next_back: Some(|it| it.next_back()), nth_back: Some(|it, k| it.nth_back(k)), len: Some(|it| it.len()) }
}
pub fn exact_ops<I: ExactSizeIterator>() -> Ops<I> {
    Ops { next_back: None, nth_back: None, len: Some(|it| it.len()) }
}
pub fn fwd_ops<I: Iterator>() -> Ops<I> {
    Ops { next_back: None, nth_back: None, len: None }
}

fn huge_for(salt: usize) -> usize { HUGE_TOKENS[salt % HUGE_TOKENS.len()].1 }

/// Runs one history on a fresh iterator; returns the first disagreement, if any.
/// `refseq` is the reference sequence the iterator ranges over (items already projected to JSON).
pub fn run_history<I, M, C>(make: &M, ops: &Ops<I>, conv: &C, refseq: &[Value], hist: &History, salt: usize) -> Option<Value>
where I: Iterator + Clone, M: Fn() -> I, C: Fn(I::Item) -> Value {
    let r = guarded(|| {
        let mut it = make();
        let item = |x: Option<I::Item>| -> Value { match x { Some(v) => conv(v), None => json!("None") } };
        let expect = |idx: i64| -> Value { if idx < 0 { json!("None") } else { refseq[idx as usize].clone() } };
        for (i, s) in hist.steps.iter().enumerate() {
            let k = if s.k < 0 { huge_for(salt + i) } else { s.k as usize };
            let (got, exp) = match s.op.as_str() {
                "next" => (item(it.next()), expect(s.res)),
                "nth" => (item(it.nth(k)), expect(s.res)),
                "next_back" => (item((ops.next_back.unwrap())(&mut it)), expect(s.res)),
                "nth_back" => (item((ops.nth_back.unwrap())(&mut it, k)), expect(s.res)),
                "len" => (json!((ops.len.unwrap())(&it)), json!(s.res)),
                "clone" => { let c = it.clone(); it = c; (json!(0), json!(0)) },
                op => panic!("TOOL-ERROR: unknown iterator call {}", op),
            };
            if got != exp {
                return Some(json!({"step": i, "call": s.op, "k": k.to_string(), "expected": exp, "got": got}));
            }
            if let Some(len) = ops.len {
                let l = len(&it);
                if l != s.hi - s.lo {
                    return Some(json!({"step": i, "call": format!("len after {}", s.op), "expected": s.hi - s.lo, "got": l}));
                }
            }
        }
        // Drain: the rest of the window in order, then None forever.
        let (lo, hi) = hist.steps.last().map(|s| (s.lo, s.hi)).unwrap_or((0, hist.n));
        for idx in lo..hi {
            let got = item(it.next());
            if got != refseq[idx] { return Some(json!({"step": "drain", "index": idx, "expected": refseq[idx], "got": got})); }
        }
        for _ in 0..2 {
            let got = item(it.next());
            if got != json!("None") { return Some(json!({"step": "after exhaustion", "expected": "None", "got": got})); }
        }
        None
    });
    match r {
        Ok(x) => x,
        Err(msg) => Some(json!({"step": "panic", "expected": "no panic", "got": format!("PANIC: {}", msg)})),
    }
}

pub struct HistSet {
    // by (n, class): class 0 = de+exact, 1 = fwd exact, 2 = fwd non-exact
    pub by: std::collections::HashMap<(usize, u8), Vec<History>>,
}

impl HistSet {
    pub fn load(cases: &[Value]) -> HistSet {
        let mut by: std::collections::HashMap<(usize, u8), Vec<History>> = std::collections::HashMap::new();
        for c in cases {
            let h = parse_history(c);
            let class = if h.de { 0 } else if h.exact { 1 } else { 2 };
            by.entry((h.n, class)).or_default().push(h);
        }
        HistSet { by }
    }
    pub fn get(&self, n: usize, class: u8) -> &[History] {
        self.by.get(&(n, class)).map(|v| v.as_slice()).unwrap_or(&[])
    }
}

/// Applies all histories for the iterator's item count and capability class.
pub fn cover<I, M, C>(tally: &mut Tally, hs: &HistSet, class: u8, what: &dyn Fn() -> Value, make: M, ops: Ops<I>, conv: C, refseq: &[Value], ckey: u64)
where I: Iterator + Clone, M: Fn() -> I, C: Fn(I::Item) -> Value {
    let hists = hs.get(refseq.len(), class);
    for (j, h) in hists.iter().enumerate() {
        let bad = run_history(&make, &ops, &conv, refseq, h, j);
        tally.evals += 1;
        if refseq.len() > 0 { tally.distinct.insert(hkey(&[ckey, j as u64, class as u64])); }
        if let Some(b) = bad {
            if tally.mismatches.len() < tally.max_mismatches {
                let mut m = what();
                m["kind"] = json!("iter");
                m["history"] = h.raw["steps"].clone();
                m["expected"] = b["expected"].clone();
                m["got"] = b["got"].clone();
                m["at"] = b;
                tally.mismatches.push(m);
            }
        }
    }
}

fn pair(x: (usize, usize)) -> Value { json!([enc(x.0), enc(x.1)]) }

/// Replays the history cover on all iterators of the three bitvector types for one generated content.
pub fn replay_bv_content(case: &Value, hs: &HistSet, tally: &mut Tally) {
    let len = case["len"].as_u64().unwrap() as usize;
    let runs: Runs = bv::parse_runs(&case["runs"]);
    let ones = bv::ones_of(&runs);
    tally.cases += 1;
    // Reference sequences from the generated case (arguments 0..len+1 are listed first).
    let mut bits: Vec<Value> = vec![json!(false); len];
    for p in bv::positions(&runs) { bits[p] = json!(true); }
    let one_seq: Vec<Value> = (0..ones).map(|r| json!([r, case["sel"][r]])).collect();
    let zero_seq: Vec<Value> = (0..(len - ones)).map(|r| json!([r, case["sel0"][r]])).collect();
    let run_seq: Vec<Value> = case["runiter"].as_array().unwrap().iter().map(|x| json!([x[0], x[1]])).collect();
    let ckey = hstr(&format!("{}:{}", len, case["runs"]));
    for kind in ["plain", "sparse", "rl"] {
        let built = match guarded(|| bv::build(kind, bv::routes_for(kind)[0], len, &runs)) { Ok(b) => b, Err(_) => continue };
        let w = |name: &str, start: String| { let n = name.to_string(); let k = kind.to_string(); let c = case.clone(); move || json!({"type": k, "iterator": n, "start": start, "len": c["len"], "runs": c["runs"]}) };
        let key = |s: &str, a: usize| hkey(&[ckey, hstr(kind), hstr(s), a as u64]);
        match &built {
            AnyBv::Plain(b) => {
                cover(tally, hs, 0, &w("iter", "".into()), || b.iter(), de_ops(), |x| json!(x), &bits, key("iter", 0));
                cover(tally, hs, 0, &w("one_iter", "".into()), || b.one_iter(), de_ops(), pair, &one_seq, key("one", 0));
                cover(tally, hs, 0, &w("zero_iter", "".into()), || b.zero_iter(), de_ops(), pair, &zero_seq, key("zero", 0));
                for r in 0..=(ones + 1) {
                    let s = r.min(ones);
                    cover(tally, hs, 0, &w("select_iter", r.to_string()), || b.select_iter(r), de_ops(), pair, &one_seq[s..], key("seli", r));
                }
                for r in 0..=(len - ones + 1) {
                    let s = r.min(len - ones);
                    cover(tally, hs, 0, &w("select_zero_iter", r.to_string()), || b.select_zero_iter(r), de_ops(), pair, &zero_seq[s..], key("sel0i", r));
                }
                for v in 0..=(len + 1) {
                    let ps = case["pred"][v][0].as_i64().unwrap();
                    let ss = case["succ"][v][0].as_i64().unwrap();
                    let pseq = if ps < 0 { &one_seq[ones..] } else { &one_seq[ps as usize..] };
                    let sseq = if ss < 0 { &one_seq[ones..] } else { &one_seq[ss as usize..] };
                    cover(tally, hs, 0, &w("predecessor", v.to_string()), || b.predecessor(v), de_ops(), pair, pseq, key("pred", v));
                    cover(tally, hs, 0, &w("successor", v.to_string()), || b.successor(v), de_ops(), pair, sseq, key("succ", v));
                }
            },
            AnyBv::Sparse(b) => {
                cover(tally, hs, 0, &w("iter", "".into()), || b.iter(), de_ops(), |x| json!(x), &bits, key("iter", 0));
                cover(tally, hs, 0, &w("one_iter", "".into()), || b.one_iter(), de_ops(), pair, &one_seq, key("one", 0));
                cover(tally, hs, 1, &w("zero_iter", "".into()), || b.zero_iter(), exact_ops(), pair, &zero_seq, key("zero", 0));
                for r in 0..=(ones + 1) {
                    let s = r.min(ones);
                    cover(tally, hs, 0, &w("select_iter", r.to_string()), || b.select_iter(r), de_ops(), pair, &one_seq[s..], key("seli", r));
                }
                for r in 0..=(len - ones + 1) {
                    let s = r.min(len - ones);
                    cover(tally, hs, 1, &w("select_zero_iter", r.to_string()), || b.select_zero_iter(r), exact_ops(), pair, &zero_seq[s..], key("sel0i", r));
                }
                for v in 0..=(len + 1) {
                    let ps = case["pred"][v][0].as_i64().unwrap();
                    let ss = case["succ"][v][0].as_i64().unwrap();
                    let pseq = if ps < 0 { &one_seq[ones..] } else { &one_seq[ps as usize..] };
                    let sseq = if ss < 0 { &one_seq[ones..] } else { &one_seq[ss as usize..] };
                    cover(tally, hs, 0, &w("predecessor", v.to_string()), || b.predecessor(v), de_ops(), pair, pseq, key("pred", v));
                    cover(tally, hs, 0, &w("successor", v.to_string()), || b.successor(v), de_ops(), pair, sseq, key("succ", v));
                }
            },
            AnyBv::RL(b) => {
                cover(tally, hs, 1, &w("iter", "".into()), || b.iter(), exact_ops(), |x| json!(x), &bits, key("iter", 0));
                cover(tally, hs, 1, &w("one_iter", "".into()), || b.one_iter(), exact_ops(), pair, &one_seq, key("one", 0));
                cover(tally, hs, 1, &w("zero_iter", "".into()), || b.zero_iter(), exact_ops(), pair, &zero_seq, key("zero", 0));
                cover(tally, hs, 2, &w("run_iter", "".into()), || b.run_iter(), fwd_ops(), pair, &run_seq, key("run", 0));
                for r in 0..=(ones + 1) {
                    let s = r.min(ones);
                    cover(tally, hs, 1, &w("select_iter", r.to_string()), || b.select_iter(r), exact_ops(), pair, &one_seq[s..], key("seli", r));
                }
                for r in 0..=(len - ones + 1) {
                    let s = r.min(len - ones);
                    cover(tally, hs, 1, &w("select_zero_iter", r.to_string()), || b.select_zero_iter(r), exact_ops(), pair, &zero_seq[s..], key("sel0i", r));
                }
                for v in 0..=(len + 1) {
                    let ps = case["pred"][v][0].as_i64().unwrap();
                    let ss = case["succ"][v][0].as_i64().unwrap();
                    let pseq = if ps < 0 { &one_seq[ones..] } else { &one_seq[ps as usize..] };
                    let sseq = if ss < 0 { &one_seq[ones..] } else { &one_seq[ss as usize..] };
                    cover(tally, hs, 1, &w("predecessor", v.to_string()), || b.predecessor(v), exact_ops(), pair, pseq, key("pred", v));
                    cover(tally, hs, 1, &w("successor", v.to_string()), || b.successor(v), exact_ops(), pair, sseq, key("succ", v));
                }
            },
        }
    }
    if len >= 4 { tally.sample(json!({"content": {"len": len, "runs": case["runs"]}, "iterators": "iter/one_iter/zero_iter/run_iter/select_iter/select_zero_iter/predecessor/successor on plain, sparse, rl"})); }
}

/// Replays the history cover on the iterators of IntVector and WaveletMatrix for one generated vector.
pub fn replay_wm_content(case: &Value, hs: &HistSet, tally: &mut Tally) {
    let vals: Vec<u64> = case["vals"].as_array().unwrap().iter().map(|x| x.as_u64().unwrap()).collect();
    let len = vals.len();
    tally.cases += 1;
    let ckey = hstr(&case["vals"].to_string());
    let items: Vec<Value> = vals.iter().map(|x| json!(x)).collect();
    let w = |name: &str, start: String| { let n = name.to_string(); let c = case["vals"].clone(); move || json!({"iterator": n, "start": start, "vals": c}) };
    let iv: IntVector = vals.iter().copied().collect();
    cover(tally, hs, 0, &w("IntVector::iter", "".into()), || iv.iter(), de_ops(), |x| json!(x), &items, hkey(&[ckey, 1]));
    cover(tally, hs, 1, &w("IntVector::into_iter", "".into()), || iv.clone().into_iter(), exact_ops(), |x| json!(x), &items, hkey(&[ckey, 2]));
    let wm = match guarded(|| WaveletMatrix::from(vals.clone())) { Ok(w) => w, Err(_) => return };
    cover(tally, hs, 0, &w("WaveletMatrix::iter", "".into()), || wm.iter(), de_ops(), |x| json!(x), &items, hkey(&[ckey, 3]));
    cover(tally, hs, 1, &w("WaveletMatrix::into_iter", "".into()), || wm.clone().into_iter(), exact_ops(), |x| json!(x), &items, hkey(&[ckey, 4]));
    let args = case["args"].as_array().unwrap();
    for pv in case["perval"].as_array().unwrap() {
        let v = match pv["v"].as_i64() { Some(x) if x < 0 => u64::MAX, _ => pv["v"].as_u64().unwrap() };
        let seq: Vec<Value> = pv["iter"].as_array().unwrap().clone();
        cover(tally, hs, 2, &w("value_iter", v.to_string()), || wm.value_iter(v), fwd_ops(), pair, &seq, hkey(&[ckey, 5, v]));
        for (j, a) in args.iter().enumerate() {
            let a = if a.as_i64() == Some(-1) { usize::MAX } else { dec_arg(a) };
            let start = |x: &Value| -> usize { let r = x[0].as_i64().unwrap(); if r < 0 { seq.len() } else { r as usize } };
            let s = if a >= seq.len() { seq.len() } else { a };
            cover(tally, hs, 2, &w("select_iter", format!("{},{}", a, v)), || wm.select_iter(a, v), fwd_ops(), pair, &seq[s..], hkey(&[ckey, 6, v, a as u64]));
            cover(tally, hs, 2, &w("predecessor", format!("{},{}", a, v)), || wm.predecessor(a, v), fwd_ops(), pair, &seq[start(&pv["pred"][j])..], hkey(&[ckey, 7, v, a as u64]));
            cover(tally, hs, 2, &w("successor", format!("{},{}", a, v)), || wm.successor(a, v), fwd_ops(), pair, &seq[start(&pv["succ"][j])..], hkey(&[ckey, 8, v, a as u64]));
        }
    }
}

//-----------------------------------------------------------------------------
// Recording random call sequences on iterators of large instances.

fn res_item_pair(x: Option<(usize, usize)>) -> Value { match x { Some((a, b)) => json!([1, enc(a), enc(b)]), None => json!([0, 0, 0]) } }
fn res_item_bool(x: Option<bool>) -> Value { match x { Some(b) => json!([1, b as usize, 0]), None => json!([0, 0, 0]) } }
fn res_item_u64(x: Option<u64>) -> Value { match x { Some(b) => json!([1, enc(b as usize), 0]), None => json!([0, 0, 0]) } }

/// Drives one iterator with random calls and logs them.
fn drive<I, C>(out: &mut TraceOut, rng: &mut Rng, mut it: I, ops: Ops<I>, conv: C, calls: usize, approx_len: usize) -> usize
where I: Iterator + Clone, C: Fn(Option<I::Item>) -> Value {
    let mut done = 0;
    for _ in 0..calls {
        let k = match rng.below(8) {
            0 => 0, 1 => 1, 2 => 2,
            3 => rng.below(approx_len + 2),
            4 => rng.below(70),
            5 => approx_len / 2,
            6 => huge_for(rng.below(6)),
            _ => rng.below(5000),
        };
        let choice = rng.below(10);
        let (c, res): (Value, Value) = match choice {
            0 | 1 | 2 => (json!({"op": "next"}), match guarded(|| conv(it.next())) { Ok(v) => v, Err(_) => json!([8, 0, 0]) }),
            3 | 4 => (json!({"op": "nth", "k": enc_arg_small(k)}), match guarded(|| conv(it.nth(k))) { Ok(v) => v, Err(_) => json!([8, 0, 0]) }),
            5 | 6 if ops.next_back.is_some() => (json!({"op": "next_back"}), match guarded(|| conv((ops.next_back.unwrap())(&mut it))) { Ok(v) => v, Err(_) => json!([8, 0, 0]) }),
            7 if ops.nth_back.is_some() => (json!({"op": "nth_back", "k": enc_arg_small(k)}), match guarded(|| conv((ops.nth_back.unwrap())(&mut it, k))) { Ok(v) => v, Err(_) => json!([8, 0, 0]) }),
            8 if ops.len.is_some() => (json!({"op": "len"}), match guarded(|| (ops.len.unwrap())(&it)) { Ok(n) => json!([2, enc(n), 0]), Err(_) => json!([8, 0, 0]) }),
            9 => { let c = it.clone(); it = c; (json!({"op": "clone"}), json!([3, 0, 0])) },
            _ => continue,
        };
        let len = match ops.len { Some(f) => match guarded(|| f(&it)) { Ok(n) => enc(n), Err(_) => json!(-8) }, None => json!(0) };
        out.push(json!({"e": "it_call", "c": c, "res": res, "len": len}));
        done += 1;
        if res[0] == json!(8) || len == json!(-8) { break; }
    }
    done
}

fn enc_arg_small(k: usize) -> Value {
    if (k as u64) <= TLC_MAX { json!(k) } else { enc_arg(k) }
}

fn new_event(kind: &str, via: &str, arg: usize, v: u64, de: bool, exact: bool, what: &str) -> Value {
    json!({"e": "it_new", "kind": kind, "via": via, "arg": enc_arg_small_or_token(arg), "v": v, "de": de, "exact": exact, "what": what})
}

fn enc_arg_small_or_token(a: usize) -> Value {
    if (a as u64) <= TLC_MAX { json!(a) } else { enc_arg(a) }
}

pub fn record_iter(seed: u64, thorough: bool, path: &str) -> Value {
    let mut rng = Rng::new(seed);
    let mut out = TraceOut::new();
    let mut calls = 0usize;
    let mut iters = 0usize;
    let per = if thorough { 40 } else { 30 };
    // Bitvector contents: a long sparse one (long select superblocks), a clustered one, a dense one.
    let mut contents: Vec<(usize, Runs)> = Vec::new();
    let mut regs = bv::plain_regimes(&mut rng, false);
    regs.truncate(if thorough { 9 } else { 5 });
    for (_, len, runs) in regs { contents.push((len, runs)); }
    for (_, len, runs) in bv::rl_regimes(&mut rng, false).into_iter().take(3) { if len < (1 << 22) { contents.push((len, runs)); } }
    for (len, runs) in contents.iter() {
        let (len, ones) = (*len, bv::ones_of(runs));
        out.push(json!({"e": "def", "len": len, "runs": bv::runs_json(runs), "cum": bv::cum_json(runs)}));
        for kind in ["plain", "sparse", "rl"] {
            if kind != "rl" && ones > (1 << 20) { continue; }
            let built = match guarded(|| bv::build(kind, bv::routes_for(kind)[0], len, runs)) { Ok(b) => b, Err(_) => continue };
            let reps = if thorough { 3 } else { 2 };
            for _ in 0..reps {
                let r = if rng.chance(1, 4) { ones + rng.below(3) } else { rng.below(ones + 1) };
                let rz = if rng.chance(1, 4) { len - ones + rng.below(3) } else { rng.below(len - ones + 1) };
                let v = match rng.below(5) { 0 => len + rng.below(3), 1 => huge_for(rng.below(6)), _ => rng.below(len + 1) };
                macro_rules! go {
                    ($b:expr, $bits_ops:expr, $one_ops:expr, $zero_ops:expr, $de_bits:expr, $de_one:expr, $de_zero:expr) => {{
                        out.push(new_event("bits", "begin", 0, 0, $de_bits, true, kind)); calls += drive(&mut out, &mut rng, $b.iter(), $bits_ops, res_item_bool, per, len); iters += 1;
                        out.push(new_event("one", "begin", 0, 0, $de_one, true, kind)); calls += drive(&mut out, &mut rng, $b.one_iter(), $one_ops, res_item_pair, per, ones); iters += 1;
                        out.push(new_event("zero", "begin", 0, 0, $de_zero, true, kind)); calls += drive(&mut out, &mut rng, $b.zero_iter(), $zero_ops, res_item_pair, per, len - ones); iters += 1;
                        out.push(new_event("one", "select", r, 0, $de_one, true, kind)); calls += drive(&mut out, &mut rng, $b.select_iter(r), $one_ops, res_item_pair, per, ones); iters += 1;
                        out.push(new_event("zero", "select", rz, 0, $de_zero, true, kind)); calls += drive(&mut out, &mut rng, $b.select_zero_iter(rz), $zero_ops, res_item_pair, per, len - ones); iters += 1;
                        out.push(new_event("one", "pred", v, 0, $de_one, true, kind)); calls += drive(&mut out, &mut rng, $b.predecessor(v), $one_ops, res_item_pair, per, ones); iters += 1;
                        out.push(new_event("one", "succ", v, 0, $de_one, true, kind)); calls += drive(&mut out, &mut rng, $b.successor(v), $one_ops, res_item_pair, per, ones); iters += 1;
                    }};
                }
                match &built {
                    AnyBv::Plain(b) => go!(b, de_ops(), de_ops(), de_ops(), true, true, true),
                    AnyBv::Sparse(b) => go!(b, de_ops(), de_ops(), exact_ops(), true, true, false),
                    AnyBv::RL(b) => {
                        go!(b, exact_ops(), exact_ops(), exact_ops(), false, false, false);
                        out.push(new_event("runs", "begin", 0, 0, false, false, kind));
                        calls += drive(&mut out, &mut rng, b.run_iter(), fwd_ops(), res_item_pair, per, runs.len());
                        iters += 1;
                    },
                }
            }
        }
    }
    // Integer vectors and wavelet matrices.
    for o in 0..(if thorough { 8 } else { 3 }) {
        let width = rng.range(1, 10);
        let len = rng.range(100, 1500);
        let vals: Vec<u64> = (0..len).map(|_| if o % 2 == 0 { rng.below(1 << width) as u64 } else { (rng.below(1 << width) & rng.below(1 << width)) as u64 }).collect();
        out.push(json!({"e": "defvec", "vals": vals}));
        let iv: IntVector = vals.iter().copied().collect();
        let wm = WaveletMatrix::from(vals.clone());
        out.push(new_event("items", "begin", 0, 0, true, true, "IntVector::iter")); calls += drive(&mut out, &mut rng, iv.iter(), de_ops(), res_item_u64, per, len); iters += 1;
        out.push(new_event("items", "begin", 0, 0, false, true, "IntVector::into_iter")); calls += drive(&mut out, &mut rng, iv.clone().into_iter(), exact_ops(), res_item_u64, per, len); iters += 1;
        out.push(new_event("items", "begin", 0, 0, true, true, "WaveletMatrix::iter")); calls += drive(&mut out, &mut rng, wm.iter(), de_ops(), res_item_u64, per, len); iters += 1;
        out.push(new_event("items", "begin", 0, 0, false, true, "WaveletMatrix::into_iter")); calls += drive(&mut out, &mut rng, wm.clone().into_iter(), exact_ops(), res_item_u64, per, len); iters += 1;
        for _ in 0..4 {
            let v = if rng.chance(1, 5) { 1u64 << width } else { vals[rng.below(len)] };
            let a = match rng.below(4) { 0 => huge_for(rng.below(6)), 1 => len + rng.below(2), _ => rng.below(len) };
            out.push(new_event("value", "begin", 0, v, false, false, "value_iter")); calls += drive(&mut out, &mut rng, wm.value_iter(v), fwd_ops(), res_item_pair, per, 50); iters += 1;
            out.push(new_event("value", "select", a.min(len + 5), v, false, false, "select_iter")); calls += drive(&mut out, &mut rng, wm.select_iter(a.min(len + 5), v), fwd_ops(), res_item_pair, per, 50); iters += 1;
            out.push(new_event("value", "pred", a, v, false, false, "predecessor")); calls += drive(&mut out, &mut rng, wm.predecessor(a, v), fwd_ops(), res_item_pair, per, 50); iters += 1;
            out.push(new_event("value", "succ", a, v, false, false, "successor")); calls += drive(&mut out, &mut rng, wm.successor(a, v), fwd_ops(), res_item_pair, per, 50); iters += 1;
        }
    }
    out.write(path);
    json!({"iterators": iters, "queries": calls, "events": out.lines.len(), "sample": serde_json::from_str::<Value>(&out.lines[2]).unwrap()})
}
