//! Buffered file writers (C12) and their failure reporting (C14).

use crate::common::*;
use crate::layout::to_bytes;
use crate::vec::set_to_u64;
use serde_json::{json, Value};
use simple_sds::int_vector::{IntVector, IntVectorWriter};
use simple_sds::ops::{Push, Vector};
use simple_sds::raw_vector::{PushRaw, RawVector, RawVectorWriter};
use std::path::PathBuf;

thread_local! { static EXTEND_TURN: std::cell::Cell<usize> = std::cell::Cell::new(0); }

pub enum AnyWriter { Raw(RawVectorWriter), Int(IntVectorWriter) }
pub enum Mirror { Raw(RawVector), Int(IntVector) }

fn scratch(name: &str) -> PathBuf {
    simple_sds::serialize::temp_file_name(name)
}

pub fn open(cfg: &Value, path: &PathBuf) -> std::io::Result<(AnyWriter, Mirror)> {
    let buf = cfg["buf"].as_u64().unwrap() as usize;
    if cfg["kind"] == json!("raw") {
        let mut header: Vec<u64> = Vec::new();
        let w = if cfg.get("default_buf").is_some() { RawVectorWriter::new(path, &mut header)? } else { RawVectorWriter::with_buf_len(path, &mut header, buf)? };
        Ok((AnyWriter::Raw(w), Mirror::Raw(RawVector::new())))
    } else {
        let width = cfg["width"].as_u64().unwrap() as usize;
        let w = if cfg.get("default_buf").is_some() { IntVectorWriter::new(path, width)? } else { IntVectorWriter::with_buf_len(path, width, buf)? };
        Ok((AnyWriter::Int(w), Mirror::Int(IntVector::new(width).unwrap())))
    }
}

impl AnyWriter {
    pub fn call(&mut self, m: &mut Mirror, c: &Value) -> Value {
        let op = c["op"].as_str().unwrap();
        let r = guarded(|| match (&mut *self, &mut *m) {
            (AnyWriter::Raw(w), Mirror::Raw(v)) => match op {
                "push_bit" => { let b = c["b"].as_bool().unwrap(); w.push_bit(b); v.push_bit(b); "ok" },
                "push_int" => { let (x, n) = (set_to_u64(&c["v"]), c["w"].as_u64().unwrap() as usize); unsafe { w.push_int(x, n); v.push_int(x, n); } "ok" },
                "close" => if w.close().is_ok() { "ok" } else { "err" },
                _ => panic!("TOOL-ERROR: unknown raw writer call {}", op),
            },
            (AnyWriter::Int(w), Mirror::Int(v)) => match op {
                "push" => { let x = set_to_u64(&c["v"]); w.push(x); v.push(x); "ok" },
                "extend" => {
                    let xs: Vec<u64> = c["vs"].as_array().unwrap().iter().map(set_to_u64).collect();
                    // alternately through an exact-size iterator and through one whose size_hint has lower bound 0
                    let turn = EXTEND_TURN.with(|t| { t.set(t.get() + 1); t.get() });
                    if turn % 5 == 4 {
                        // the source iterator fails AFTER it has yielded every item, and the caller handles the failure: the writer holds the items
                        struct ThenPanic(std::vec::IntoIter<u64>);
                        impl Iterator for ThenPanic { type Item = u64; fn next(&mut self) -> Option<u64> { match self.0.next() { Some(x) => Some(x), None => panic!("the source of extend() failed") } } }
                        let src = ThenPanic(xs.clone().into_iter());
                        let _ = std::panic::catch_unwind(std::panic::AssertUnwindSafe(|| w.extend(src)));
                    }
                    else if turn % 2 == 0 { w.extend(xs.clone()); } else { w.extend(xs.clone().into_iter().filter(|_| true)); }
                    if turn % 2 == 0 { v.extend(xs.into_iter().filter(|_| true)); } else { v.extend(xs); }
                    "ok"
                },
                "push_many" => {
                    let n = c["n"].as_u64().unwrap() as usize;
                    let mut x = c["seed"].as_u64().unwrap_or(1);
                    for _ in 0..n { x = x.wrapping_mul(6364136223846793005).wrapping_add(1442695040888963407); w.push(x); v.push(x); }
                    "ok"
                },
                "close" => if w.close().is_ok() { "ok" } else { "err" },
                _ => panic!("TOOL-ERROR: unknown int writer call {}", op),
            },
            _ => panic!("TOOL-ERROR: writer / mirror mismatch"),
        });
        match r { Ok(s) => json!(s), Err(_) => json!("panic") }
    }
    pub fn observe(&self) -> Value {
        match self { AnyWriter::Raw(w) => json!({"len": w.len(), "is_open": w.is_open()}), AnyWriter::Int(w) => json!({"len": w.len(), "is_open": w.is_open()}) }
    }
}

impl Mirror {
    pub fn bytes(&self) -> Vec<u8> { match self { Mirror::Raw(v) => to_bytes(v), Mirror::Int(v) => to_bytes(v) } }
    /// Projected content: bit length and set positions.
    pub fn content(&self, kind: &Value, width: &Value) -> Value {
        let raw: &RawVector = match self { Mirror::Raw(v) => v, Mirror::Int(v) => v.as_ref() };
        use simple_sds::raw_vector::AccessRaw;
        json!({"kind": kind, "width": width, "len": raw.len(), "ones": (0..raw.len()).filter(|i| raw.bit(*i)).collect::<Vec<usize>>()})
    }
}

pub fn replay_case(case: &Value, tally: &mut Tally) {
    tally.cases += 1;
    let cfg = &case["cfg"];
    let ckey = hstr(&format!("{}{}", cfg, case["ending"]));
    let calls: Vec<Value> = case["steps"].as_array().unwrap().iter().map(|s| { let mut c = s["c"].clone(); if let Some(v) = c.get("v") { c["v"] = json!(format!("{:#x}", set_to_u64(v))); } c }).collect();
    let ctx = |i: i64, what: &str| json!({"kind": "writer", "cfg": cfg, "ending": case["ending"], "calls": calls, "step": i, "what": what});
    let path = scratch("verif-writer");
    // the file exists already and is longer than what will be written: the writer must replace it
    let _ = std::fs::write(&path, vec![0xFFu8; 4096 + 24]);
    // every third case through the constructors with the default buffer size (the buffer size is not observable)
    let mut cfg_new = cfg.clone();
    // (chosen by a hash of the case: the three endings of one history are adjacent in the case file, a counter would alias with them)
    if hstr(&case.to_string()) % 3 == 0 { cfg_new["default_buf"] = json!(1); }
    let cfg_open = &cfg_new;
    let (mut w, mut m) = match open(cfg_open, &path) { Ok(x) => x, Err(e) => { tally.check(ckey, true, &|| ctx(-1, "open"), &json!("ok"), &json!(e.to_string())); return; } };
    let mut key = ckey;
    for (i, s) in case["steps"].as_array().unwrap().iter().enumerate() {
        key = hkey(&[key, hstr(&s["c"]["op"].to_string()), i as u64]);
        let res = w.call(&mut m, &s["c"]);
        if !tally.check(key, true, &|| ctx(i as i64, "result"), &s["res"], &res) { let _ = std::fs::remove_file(&path); return; }
        if !tally.check(hkey(&[key, 1]), true, &|| ctx(i as i64, "len() and is_open() after the call"), &s["obs"], &w.observe()) { let _ = std::fs::remove_file(&path); return; }
    }
    // "drop" ending: dropping an open writer closes it (otherwise a no-op) - at the end of a scope, or while a panic unwinds through its owner
    if hstr(&case.to_string()) % 2 == 0 { let _ = std::panic::catch_unwind(std::panic::AssertUnwindSafe(move || { let _owner = w; panic!("unwinding through the owner of a writer") })); }
    else { drop(w); }
    let file = std::fs::read(&path).unwrap_or_default();
    let _ = std::fs::remove_file(&path);
    // the in-memory vector holds what the specification says was pushed (C05's business, kept as a tripwire) ...
    tally.check(hkey(&[key, 2]), true, &|| ctx(99, "content of the mirror vector (tripwire)"), &case["file"], &m.content(&cfg["kind"], &cfg["width"]));
    // ... and the file is byte-identical to its serialization
    let same = file == m.bytes();
    let detail = if same { json!(true) } else { json!({"file_bytes": file.len(), "vector_bytes": m.bytes().len(), "first_difference": file.iter().zip(m.bytes().iter()).position(|(a, b)| a != b)}) };
    tally.check(hkey(&[key, 3]), true, &|| ctx(99, "file is byte-identical to serializing the in-memory vector"), &json!(true), &detail);
    if case["steps"].as_array().unwrap().len() >= 3 { tally.sample(json!({"cfg": cfg, "ending": case["ending"], "pushes": case["steps"].as_array().unwrap().len()})); }
}

//-----------------------------------------------------------------------------

pub fn record_writer(seed: u64, thorough: bool, path: &str) -> Value {
    let mut rng = Rng::new(seed);
    let mut out = TraceOut::new();
    let runs = if thorough { 120 } else { 30 };
    let mut pushes = 0usize;
    for r in 0..runs {
        let raw = r % 3 == 0;
        let width = if raw { 0 } else { if r % 5 == 0 { *rng.pick(&[1usize, 7, 31, 32, 33, 63, 64]) } else { rng.range(1, 64) } };
        let buf = match rng.below(6) { 0 => 0, 1 => rng.range(1, 63), 2 => 64, 3 => rng.range(65, 300), 4 => 4096, _ => rng.range(1, 2000) };
        let mut cfg = json!({"kind": if raw { "raw" } else { "int" }, "width": width, "buf": buf});
        if r % 11 == 10 { cfg["default_buf"] = json!(1); }
        let fname = scratch("verif-rec-writer");
        let _ = std::fs::write(&fname, vec![0xFFu8; 8192 + 8]);
        let (mut w, mut m) = match open(&cfg, &fname) { Ok(x) => x, Err(_) => continue };
        out.push(json!({"e": "w_new", "cfg": cfg, "obs": w.observe()}));
        let n = match rng.below(4) { 0 => rng.below(5), 1 => rng.below(100), _ => rng.below(if thorough { 5000 } else { 1500 }) };
        let mut bits = 0usize;
        for _ in 0..n {
            let c = if raw {
                if rng.chance(1, 3) { json!({"op": "push_bit", "b": rng.chance(1, 2)}) } else { let w = rng.range(0, 64); json!({"op": "push_int", "v": crate::vec::u64_to_set(rng.next()), "w": w}) }
            } else if rng.chance(1, 10) {
                json!({"op": "extend", "vs": (0..rng.range(0, 4)).map(|_| crate::vec::u64_to_set(rng.next())).collect::<Vec<Value>>()})
            } else { json!({"op": "push", "v": crate::vec::u64_to_set(rng.next())}) };
            let res = w.call(&mut m, &c);
            bits += 1;
            // pushes are logged compactly: op, width and the result / observation (the pushed values are in the mirror content)
            out.push(json!({"e": "w_call", "c": c, "res": res, "obs": w.observe()}));
            pushes += 1;
        }
        let _ = bits;
        // with the default 8 MiB buffer a flush needs more than a megabyte of data: bulk pushes
        if cfg.get("default_buf").is_some() && !raw {
            let n = rng.range(8_500_000, 10_000_000) / width.max(1);     // a little more than one buffer of 8 Mi bits
            let c = json!({"op": "push_many", "n": n, "seed": rng.next() >> 40});
            let res = w.call(&mut m, &c);
            out.push(json!({"e": "w_call", "c": c, "res": res, "obs": w.observe()}));
            pushes += n;
        }
        let ending = ["close", "close_twice", "drop"][rng.below(3)];
        if ending != "drop" {
            let res = w.call(&mut m, &json!({"op": "close"}));
            out.push(json!({"e": "w_call", "c": {"op": "close"}, "res": res, "obs": w.observe()}));
            if ending == "close_twice" {
                let res = w.call(&mut m, &json!({"op": "close"}));
                out.push(json!({"e": "w_call", "c": {"op": "close"}, "res": res, "obs": w.observe()}));
            }
        }
        drop(w);
        let file = std::fs::read(&fname).unwrap_or_default();
        let _ = std::fs::remove_file(&fname);
        let mb = m.bytes();
        let content = m.content(&cfg["kind"], &cfg["width"]);
        out.push(json!({"e": "w_end", "ending": ending, "file_eq_vector": file == mb, "file_bytes": file.len(), "content_len": content["len"], "content_ones": if content["ones"].as_array().unwrap().len() <= 3000 && cfg.get("default_buf").is_none() { content["ones"].clone() } else { json!([]) },
                        "ones_logged": content["ones"].as_array().unwrap().len() <= 3000 && cfg.get("default_buf").is_none()}));
    }
    out.write(path);
    json!({"writers": runs, "queries": pushes, "events": out.lines.len(), "sample": serde_json::from_str::<Value>(&out.lines[1]).unwrap()})
}

//-----------------------------------------------------------------------------
// C14: writers whose file cannot grow beyond a limit (RLIMIT_FSIZE, SIGXFSZ ignored => EFBIG).

fn set_fsize_limit(limit: Option<u64>) {
    unsafe {
        let mut rl = libc::rlimit { rlim_cur: 0, rlim_max: 0 };
        libc::getrlimit(libc::RLIMIT_FSIZE, &mut rl);
        rl.rlim_cur = match limit { Some(l) => l.min(rl.rlim_max), None => rl.rlim_max };
        libc::setrlimit(libc::RLIMIT_FSIZE, &rl);
    }
}

pub fn record_wlimit(seed: u64, thorough: bool, path: &str) -> Value {
    unsafe { libc::signal(libc::SIGXFSZ, libc::SIG_IGN); }
    let mut rng = Rng::new(seed);
    let mut out = TraceOut::new();
    let mut runs = 0usize;
    let configs: Vec<(usize, usize, usize)> = if thorough {
        vec![(1, 64, 900), (13, 64, 300), (64, 64, 60), (13, 256, 400), (64, 256, 100), (0, 64, 0), (0, 128, 0), (33, 1, 50)]
    } else { vec![(13, 64, 120), (64, 256, 70), (0, 64, 0)] };
    for (width, buf, n) in configs {
        // the pushes (the same for every limit)
        let raw = width == 0;
        let cfg = json!({"kind": if raw { "raw" } else { "int" }, "width": width, "buf": buf});
        let calls: Vec<Value> = if raw {
            (0..(if thorough { 150 } else { 60 })).map(|i| if i % 3 == 0 { json!({"op": "push_bit", "b": i % 2 == 0}) } else { json!({"op": "push_int", "v": crate::vec::u64_to_set(rng.next()), "w": 1 + (i * 7) % 64}) }).collect()
        } else { (0..n).map(|_| json!({"op": "push", "v": crate::vec::u64_to_set(rng.next())})).collect() };
        // final size without a limit
        let probe = scratch("verif-wlimit");
        let final_size = {
            let (mut w, mut m) = open(&cfg, &probe).unwrap();
            for c in calls.iter() { w.call(&mut m, c); }
            w.call(&mut m, &json!({"op": "close"}));
            m.bytes().len()
        };
        let _ = std::fs::remove_file(&probe);
        let mut limit = 0usize;
        while limit <= final_size + 8 {
            let fname = scratch("verif-wlimit");
            set_fsize_limit(Some(limit as u64));
            let mut ctor = "ok"; let mut pushed_ok = 0usize; let mut push_panicked = false; let mut close = "not reached"; let mut close_again = "not reached"; let mut mirror_bytes: Vec<u8> = Vec::new();
            match guarded(|| open(&cfg, &fname)) {
                Ok(Ok((mut w, mut m))) => {
                    for c in calls.iter() {
                        let r = w.call(&mut m, c);
                        if r == json!("panic") { push_panicked = true; break; }
                        pushed_ok += 1;
                    }
                    let mut do_close = |w: &mut AnyWriter, m: &mut Mirror| match w.call(m, &json!({"op": "close"})).as_str() { Some("ok") => "ok", Some("err") => "err", _ => "panic" };
                    if !push_panicked {
                        close = do_close(&mut w, &mut m);
                        // a failed close leaves the writer open: closing again (the limit still holds) must not turn into a success
                        if close == "err" { close_again = do_close(&mut w, &mut m); }
                    } else {
                        // the caller caught the documented panic and closes the writer
                        close_again = do_close(&mut w, &mut m);
                    }
                    mirror_bytes = m.bytes();
                    let _ = guarded(|| drop(w));
                },
                Ok(Err(_)) => { ctor = "err"; },
                Err(_) => { ctor = "panic"; },
            }
            set_fsize_limit(None);
            let file = std::fs::read(&fname).unwrap_or_default();
            let _ = std::fs::remove_file(&fname);
            out.push(json!({"e": "wl", "cfg": cfg, "limit": limit, "final_size": final_size, "ctor": ctor, "pushes": calls.len(), "pushed_ok": pushed_ok,
                            "push_panicked": push_panicked, "close": close, "close_again": close_again, "file_complete": !mirror_bytes.is_empty() && file == mirror_bytes && pushed_ok == calls.len()}));
            runs += 1;
            limit += 8;
        }
    }
    set_fsize_limit(None);
    // serialize::serialize_to on a file that cannot take the whole structure: every limit below the size, and /dev/full
    {
        use simple_sds::serialize::{self, Serialize};
        use simple_sds::ops::{Rank, Select, SelectZero};
        use simple_sds::raw_vector::AccessRaw;
        let mut iv = IntVector::new(13).unwrap();
        for _ in 0..45 { iv.push(rng.next() & 0x1FFF); }
        let mut bv = { let mut r = RawVector::with_len(if thorough { 1 << 17 } else { 20000 }, false); for i in (0..r.len()).step_by(7) { r.set_bit(i, true); } simple_sds::bit_vector::BitVector::from(r) };
        bv.enable_rank(); bv.enable_select(); bv.enable_select_zero();
        let text = String::from("size limits and short tails: ñandú €");
        let small: Vec<u64> = vec![1, 2, 3];
        macro_rules! sweep { ($x:expr, $name:expr, $step:expr) => {{
            let size = $x.size_in_bytes();
            let mut limit = 0usize;
            while limit <= size + 8 {
                let fname = scratch("verif-serialize-to");
                set_fsize_limit(Some(limit as u64));
                let res = guarded(|| serialize::serialize_to(&$x, &fname));
                set_fsize_limit(None);
                let on_disk = std::fs::metadata(&fname).map(|m| m.len() as usize).unwrap_or(0);
                let _ = std::fs::remove_file(&fname);
                out.push(json!({"e": "st", "what": $name, "limit": limit, "size": size, "result": match res { Ok(Ok(())) => "ok", Ok(Err(_)) => "err", Err(_) => "panic" }, "file_complete": on_disk == size}));
                runs += 1;
                limit += $step;
            }
            if std::path::Path::new("/dev/full").exists() {
                let res = guarded(|| serialize::serialize_to(&$x, "/dev/full"));
                out.push(json!({"e": "st", "what": $name, "limit": 0, "size": size, "result": match res { Ok(Ok(())) => "ok", Ok(Err(_)) => "err", Err(_) => "panic" }, "file_complete": false}));
                runs += 1;
            }
        }} }
        sweep!(iv, "IntVector", 8);
        sweep!(text, "String", 8);
        sweep!(small, "Vec<u64>", 8);
        sweep!(bv, "BitVector with supports", if thorough { 512 } else { 256 });
    }
    set_fsize_limit(None);
    out.write(path);
    json!({"runs": runs, "queries": runs, "events": out.lines.len(), "sample": serde_json::from_str::<Value>(&out.lines[out.lines.len() / 2]).unwrap()})
}
