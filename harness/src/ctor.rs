//! Constructor and builder-entry totality (C09): defined success / refusal for extreme arguments.

use crate::common::*;
use serde_json::{json, Value};
use simple_sds::int_vector::{IntVector, IntVectorWriter};
use simple_sds::rl_vector::RLBuilder;
use simple_sds::sparse_vector::SparseBuilder;

pub fn ext(v: &Value) -> usize {
    if let Some(n) = v.get("n") { n.as_u64().unwrap() as usize } else { usize::MAX - v["mm"].as_u64().unwrap() as usize }
}

pub fn replay_case(case: &Value, tally: &mut Tally) {
    tally.cases += 1;
    let c = &case["c"];
    let op = c["op"].as_str().unwrap();
    let got = guarded(|| -> &'static str {
        match op {
            "IntVector::new" => if IntVector::new(ext(&c["w"])).is_ok() { "ok" } else { "err" },
            "IntVector::with_len" => if IntVector::with_len(3, ext(&c["w"]), 5).is_ok() { "ok" } else { "err" },
            "IntVector::with_capacity" => if IntVector::with_capacity(3, ext(&c["w"])).is_ok() { "ok" } else { "err" },
            "IntVectorWriter::new" | "IntVectorWriter::with_buf_len" => {
                let name = simple_sds::serialize::temp_file_name("verif-ctor");
                let r = if op == "IntVectorWriter::new" { IntVectorWriter::new(&name, ext(&c["w"])) } else { IntVectorWriter::with_buf_len(&name, ext(&c["w"]), 16) };
                let ok = r.is_ok();
                drop(r);
                let _ = std::fs::remove_file(&name);
                if ok { "ok" } else { "err" }
            },
            "SparseBuilder::new" => match SparseBuilder::new(ext(&c["n"]), ext(&c["m"])) {
                Err(_) => "err",
                Ok(mut b) => {
                    let (n, m) = (ext(&c["n"]), ext(&c["m"]));
                    if n > (1usize << 40) && m >= 1 && m <= 100 {
                        // a builder at the top of the range is usable: the last m positions are accepted and the vector holds them
                        use simple_sds::ops::{BitVec, Select};
                        use simple_sds::sparse_vector::SparseVector;
                        use std::convert::TryFrom;
                        for p in (n - m)..n { if b.try_set(p).is_err() { return "err-set"; } }
                        match SparseVector::try_from(b) {
                            Ok(v) => if v.len() == n && v.count_ones() == m && v.one_iter().map(|x| x.1).eq((n - m)..n) { "ok" } else { "wrong-content" },
                            Err(_) => "err-build",
                        }
                    } else { "ok" }
                },
            },
            "RLBuilder::try_set" => {
                let mut b = RLBuilder::new();
                b.set_len(ext(&c["len0"]));
                let before = (b.len(), b.count_ones());
                let r = b.try_set(ext(&c["start"]), ext(&c["len"]));
                if r.is_err() && (b.len(), b.count_ones()) != before { "err-but-changed" } else if r.is_ok() { "ok" } else { "err" }
            },
            _ => panic!("TOOL-ERROR: unknown constructor case {}", op),
        }
    });
    let got = match got { Ok(s) => json!(s), Err(msg) => json!(format!("PANIC: {}", msg)) };
    tally.check(hstr(&c.to_string()), true, &|| json!({"kind": "ctor", "c": c}), &case["exp"], &got);
    tally.sample(case.clone());
}
