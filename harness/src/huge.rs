//! Sparse and run-length bitvectors with universes up to usize::MAX: recorded traces in which every
//! number is a U64 limb triple (validated by TraceBV64 against BVRef64).

use crate::bv::{self, AnyBv, Runs};
use crate::common::*;
use serde_json::{json, Value};
use simple_sds::ops::{BitVec, PredSucc, Rank, Select, SelectZero};

pub fn l64(x: usize) -> Value { json!([x & 0xFF_FFFF, (x >> 24) & 0xFF_FFFF, x >> 48]) }
pub fn none64() -> Value { json!([-1, -1, -1]) }
fn opt64(x: Option<usize>) -> Value { x.map(l64).unwrap_or_else(none64) }
fn pair64(x: Option<(usize, usize)>) -> Value { match x { Some((a, b)) => json!([l64(a), l64(b)]), None => json!([none64(), none64()]) } }
fn panic64(pair: bool) -> Value { if pair { json!([[-8, -8, -8], [-8, -8, -8]]) } else { json!([-8, -8, -8]) } }

fn query_generic<'a, T>(bv: &'a T, op: &str, a: usize) -> Value
where T: BitVec<'a> + Rank<'a> + Select<'a> + SelectZero<'a> + PredSucc<'a> {
    match op {
        "get" => l64(bv.get(a) as usize),
        "rank" => l64(bv.rank(a)),
        "rank0" => l64(bv.rank_zero(a)),
        "sel" => opt64(bv.select(a)),
        "sel0" => opt64(bv.select_zero(a)),
        "seli" => pair64(bv.select_iter(a).next()),
        "sel0i" => pair64(bv.select_zero_iter(a).next()),
        "pred" => pair64(bv.predecessor(a).next()),
        "succ" => pair64(bv.successor(a).next()),
        _ => panic!("TOOL-ERROR: unknown query {}", op),
    }
}

fn query(bv: &AnyBv, op: &str, a: usize) -> Value {
    let r = guarded(|| match bv { AnyBv::Plain(b) => query_generic(b, op, a), AnyBv::Sparse(b) => query_generic(b, op, a), AnyBv::RL(b) => query_generic(b, op, a) });
    match r { Ok(v) => v, Err(_) => panic64(bv::is_pair_op(op)) }
}

fn runs64(runs: &Runs) -> Value { Value::Array(runs.iter().map(|(s, l)| json!([l64(*s), l64(*l)])).collect()) }

fn record_one(out: &mut TraceOut, rng: &mut Rng, label: &str, kind: &str, route: &str, len: usize, runs: &Runs, stats: &mut Value) {
    let ones: usize = bv::ones_of(runs);
    let built = guarded(|| bv::build(kind, route, len, runs));
    let obj = match built {
        Ok(b) => b,
        Err(msg) => { out.push(json!({"e": "def", "label": label, "t": kind, "route": route, "len": l64(len), "runs": runs64(runs), "built": format!("PANIC: {}", msg), "obs": []})); return; },
    };
    // every call into the library is guarded: a panic of the code under test is data (a rejected event), never a failure of the harness
    let counts = guarded(|| match &obj { AnyBv::Sparse(b) => (b.len(), b.count_ones(), b.count_zeros()), AnyBv::RL(b) => (b.len(), b.count_ones(), b.count_zeros()), AnyBv::Plain(b) => (b.len(), b.count_ones(), b.count_zeros()) });
    let (olen, oones, ozeros) = match counts {
        Ok(c) => c,
        Err(msg) => { out.push(json!({"e": "def", "label": label, "t": kind, "route": route, "len": l64(len), "runs": runs64(runs), "built": format!("PANIC in len / count_ones / count_zeros: {}", msg), "obs": []})); return; },
    };
    out.push(json!({"e": "def", "label": label, "t": kind, "route": route, "len": l64(len), "runs": runs64(runs), "built": "ok", "obs": [l64(olen), l64(oones), l64(ozeros)]}));
    if let AnyBv::Sparse(sv) = &obj {
        let elems = crate::layout::to_elements(&crate::layout::to_bytes(sv));
        let (_, _, low) = crate::layout::sparse_layout(&elems);
        let key = format!("w{}", low.width);
        stats["widths"][&key] = json!(stats["widths"][&key].as_u64().unwrap_or(0) + 1);
    }
    if let AnyBv::RL(rv) = &obj {
        let items = guarded(|| { let mut it = rv.run_iter(); let mut v = Vec::new(); while let Some((s, l)) = it.next() { v.push(json!([l64(s), l64(l), l64(it.offset()), l64(it.rank()), l64(it.rank_zero())])); if v.len() > 100_000 { break; } } v });
        match items {
            Ok(items) => out.push(json!({"e": "runs", "items": items})),
            // a panic while iterating: an event no specification accepts
            Err(msg) => { out.push(json!({"e": "panic", "what": format!("run_iter: {}", msg)})); return; },
        }
    }
    // arguments: around every run edge, the ends of the universe, powers of two, the extremes
    let mut pos: Vec<usize> = vec![0, 1, len.saturating_sub(1), len, len.saturating_add(1), 1 << 63, usize::MAX - 1, usize::MAX, (1 << 63) - 1, (1usize << 32) + 1];
    for (s, l) in runs.iter().take(40).chain(runs.iter().rev().take(10)) { pos.extend([s.saturating_sub(1), *s, s + 1, s + l - 1, s + l, (s + l).saturating_add(1)]); }
    for _ in 0..20 { pos.push(rng.next() as usize % len.max(1)); }
    pos.sort(); pos.dedup();
    let zeros = len - ones;
    let mut ranks: Vec<usize> = vec![0, 1, ones.saturating_sub(1), ones, ones.saturating_add(1), 1 << 63, usize::MAX];
    let mut zranks: Vec<usize> = vec![0, 1, zeros.saturating_sub(1), zeros, zeros.saturating_add(1), 1 << 63, usize::MAX];
    let mut cum = 0usize;
    for (s, l) in runs.iter().take(30) { ranks.extend([cum, cum + l - 1, cum + l]); zranks.extend([(s - cum).saturating_sub(1), s - cum, s - cum + 1]); cum += l; }
    for _ in 0..10 { ranks.push(rng.next() as usize % ones.max(1)); zranks.push(rng.next() as usize % zeros.max(1)); }
    ranks.sort(); ranks.dedup(); zranks.sort(); zranks.dedup();
    let mut emit = |op: &str, args: &Vec<usize>, limit: Option<usize>| {
        let all: Vec<usize> = args.iter().copied().filter(|a| limit.map(|l| *a < l).unwrap_or(true)).collect();
        for chunk in all.chunks(64) {
            let rs: Vec<Value> = chunk.iter().map(|a| query(&obj, op, *a)).collect();
            out.push(json!({"e": "q", "op": op, "a": chunk.iter().map(|a| l64(*a)).collect::<Vec<Value>>(), "r": rs}));
        }
        stats["queries"] = json!(stats["queries"].as_u64().unwrap_or(0) + all.len() as u64);
    };
    emit("get", &pos, Some(len));
    emit("rank", &pos, None);
    emit("rank0", &pos, Some(len.saturating_add(1)));
    emit("pred", &pos, None);
    emit("succ", &pos, None);
    emit("sel", &ranks, None);
    emit("seli", &ranks, None);
    emit("sel0", &zranks, None);
    emit("sel0i", &zranks, None);
    stats["objects"] = json!(stats["objects"].as_u64().unwrap_or(0) + 1);
}

fn spread(rng: &mut Rng, n: usize, m: usize, w_hint: usize) -> Runs {
    let mut set = std::collections::BTreeSet::new();
    set.insert(0usize); set.insert(n - 1);
    let b = if w_hint < 64 { 1usize << w_hint } else { usize::MAX };
    let k = (rng.next() as usize) % (n / b.max(1)).max(1);
    for p in [k.saturating_mul(b), k.saturating_mul(b).saturating_add(1), k.saturating_mul(b).saturating_sub(1)] { if p < n { set.insert(p); } }
    while set.len() < m { set.insert(rng.next() as usize % n); }
    let v: Runs = set.into_iter().take(m.max(1)).map(|p| (p, 1)).collect();
    bv::normalize(n, v)
}

pub fn record_huge(seed: u64, thorough: bool, path: &str, only: &str) -> Value {
    let mut rng = Rng::new(seed);
    let mut out = TraceOut::new();
    let mut stats = json!({"objects": 0, "queries": 0, "widths": {}});
    // Sparse: universes up to usize::MAX with few ones (low-part widths up to 63).
    let universes: Vec<usize> = if thorough { vec![1 << 32, (1 << 40) + 3, 1 << 48, (1 << 56) - 1, 1 << 62, (1 << 63) + 1, usize::MAX - 12345, usize::MAX] } else { vec![(1 << 40) + 3, 1 << 62, (1 << 63) + 1, usize::MAX] };
    let counts: Vec<usize> = if thorough { vec![1, 2, 3, 5, 17, 100, 1000] } else { vec![1, 3, 17, 300] };
    if only == "conv" {
        // C11 at the top of the range: the same contents reached by CONVERSION - a sparse vector made from a run-length one and
        // the other way round (few set bits, lengths up to usize::MAX; gaps that need 22 code units)
        let mut contents: Vec<(String, usize, Runs)> = Vec::new();
        for n in universes.iter() { for m in [1usize, 3, 17] {
            let w = ((*n as f64) * std::f64::consts::LN_2 / (m as f64)).log2().round().max(1.0) as usize;
            contents.push((format!("C.n{}.m{}", n, m), *n, spread(&mut rng, *n, m, w)));
        } }
        contents.push(("C.max".into(), usize::MAX, vec![(0, 1), (usize::MAX - 1, 1)]));
        contents.push(("C.over63".into(), (1 << 63) + 10, vec![(5, 1), ((1 << 63) + 7, 1)]));
        contents.push(("C.63".into(), 1 << 63, vec![(3, 10), ((1 << 63) - 2, 2)]));
        // (no empty vector here: with no set bit the sparse builder keeps 1-bit low parts and needs universe / 2 bits of memory)
        for (label, len, runs) in contents.iter() {
            let runs = bv::normalize(*len, runs.clone());
            record_one(&mut out, &mut rng, label, "sparse", "from_rl", *len, &runs, &mut stats);
            record_one(&mut out, &mut rng, label, "rl", "from_sparse", *len, &runs, &mut stats);
        }
        out.write(path);
        return json!({"objects": stats["objects"], "queries": stats["queries"], "events": out.lines.len(), "sample": serde_json::from_str::<Value>(&out.lines[0]).unwrap()});
    }
    for n in universes.iter().filter(|_| only != "rl") {
        for m in counts.iter() {
            let w = ((*n as f64) * std::f64::consts::LN_2 / (*m as f64)).log2().round().max(1.0) as usize;
            let runs = spread(&mut rng, *n, *m, w);
            let route = ["builder", "try_set", "extend"][(*m % 3 + *n % 3) % 3];
            record_one(&mut out, &mut rng, &format!("S.n{}.m{}", n, m), "sparse", route, *n, &runs, &mut stats);
        }
    }
    // Run-length: values needing up to 22 code units, total length up to usize::MAX.
    let mut rl: Vec<(String, usize, Runs)> = Vec::new();
    rl.push(("L2.longruns".into(), usize::MAX, vec![(5, 1 << 60), ((1 << 61) + 7, 1 << 62), ((1 << 63) + 9, (1 << 62) + 1)]));
    rl.push(("L3.max".into(), usize::MAX, vec![(0, 1), (usize::MAX - 1, 1)]));
    rl.push(("L3.allones".into(), usize::MAX, vec![(0, usize::MAX)]));
    rl.push(("L3.over63".into(), (1 << 63) + 5, vec![(3, 10)]));
    rl.push(("L3.63".into(), 1 << 63, vec![(3, 10), ((1 << 63) - 2, 2)]));
    rl.push(("L3.empty".into(), usize::MAX, vec![]));
    // F10 family: block 0 holds only a run starting at position 0; at least 9 blocks
    let mut f10: Runs = vec![(0, (1 << 60) + 1), ((1 << 61) + 1, (1 << 63) + 1)];
    let mut pos = (1usize << 61) + 1 + (1 << 63) + 1 + 5;
    for i in 0..(if thorough { 300 } else { 170 }) { f10.push((pos, 1 + i % 3)); pos += 7 + (i % 50) * 1000; }
    rl.push(("L5.f10".into(), pos + 100, f10.clone()));
    let shifted: Runs = f10.iter().map(|(s, l)| (s + 1, *l)).collect();
    rl.push(("L5.f10shifted".into(), pos + 101, shifted));
    // many blocks with huge gaps
    let mut runs: Runs = Vec::new();
    let mut p = rng.range(0, 3);
    for i in 0..(if thorough { 400 } else { 150 }) { let l = 1usize << (i % 40); let l = l + rng.below(l); runs.push((p, l)); p = p + l + (1usize << ((i * 7) % 45)) + 1; }
    rl.push(("L2.manyblocks".into(), p + 17, runs));
    for (label, len, runs) in rl.iter().filter(|_| only != "sparse") {
        let runs = bv::normalize(*len, runs.clone());
        for route in if runs.len() < 50 { vec!["runs", "split", "set_len_steps"] } else { vec!["runs", "set_len_steps"] } {
            record_one(&mut out, &mut rng, label, "rl", route, *len, &runs, &mut stats);
        }
    }
    out.write(path);
    stats["events"] = json!(out.lines.len());
    stats["sample"] = serde_json::from_str(&out.lines[1]).unwrap();
    stats
}

fn ms_query(sv: &simple_sds::sparse_vector::SparseVector, op: &str, a: usize) -> Value {
    let pair = bv::is_pair_op(op);
    let r = guarded(|| match op {
        "get" => l64(sv.get(a) as usize),
        "rank" => l64(sv.rank(a)),
        "sel" => opt64(sv.select(a)),
        "seli" => pair64(sv.select_iter(a).next()),
        "pred" => pair64(sv.predecessor(a).next()),
        "succ" => pair64(sv.successor(a).next()),
        _ => panic!("TOOL-ERROR: unknown multiset query {}", op),
    });
    match r { Ok(v) => v, Err(_) => panic64(pair) }
}

/// Multiset sparse vectors over universes up to usize::MAX (validated by TraceMS64 against MSRef64).
pub fn record_huge_ms(seed: u64, thorough: bool, path: &str) -> Value {
    let mut rng = Rng::new(seed);
    let mut out = TraceOut::new();
    let mut stats = json!({"objects": 0, "queries": 0, "widths": {}});
    let universes: Vec<usize> = if thorough { vec![1 << 32, (1 << 40) + 3, 1 << 48, (1 << 56) - 1, 1 << 62, (1 << 63) + 1, usize::MAX - 12345, usize::MAX] } else { vec![(1 << 33) + 3, 1 << 62, (1 << 63) + 1, usize::MAX] };
    let counts: Vec<usize> = if thorough { vec![1, 2, 7, 40, 300, 2000] } else { vec![1, 5, 60, 500] };
    let mut o = 0usize;
    for n in universes.iter() {
        for m in counts.iter() {
            o += 1;
            // distinct values: both ends of the universe, bucket boundaries of the expected low width, random; then multiplicities
            let w = ((*n as f64) * std::f64::consts::LN_2 / (*m as f64)).log2().round().clamp(1.0, 63.0) as usize;
            let mut set = std::collections::BTreeSet::new();
            if o % 2 == 0 { set.insert(0usize); }
            if o % 3 != 0 { set.insert(*n - 1); }
            let k = (rng.next() as usize) % (*n >> w).max(1);
            for p in [k << w, (k << w).saturating_add(1), (k << w).saturating_sub(1)] { if p < *n { set.insert(p); } }
            let distinct = (*m / 3).max(1);
            while set.len() < distinct { set.insert(rng.next() as usize % *n); }
            // never more distinct values than values asked for: a single value in a universe next to 2^64 is the extreme of the width rule
            let mut items: Vec<(usize, usize)> = set.into_iter().take((*m).max(1)).map(|v| (v, 1)).collect();
            let mut total = items.len();
            while total < *m { let k = rng.below(items.len()); let add = rng.range(1, 6).min(*m - total); items[k].1 += add; total += add; }
            let vals: Vec<usize> = items.iter().flat_map(|(v, c)| std::iter::repeat(*v).take(*c)).collect();
            let route = ["set", "try_set", "extend"][o % 3];
            let items_json: Vec<Value> = items.iter().map(|(v, c)| json!([l64(*v), c])).collect();
            let sv = match guarded(|| crate::ms::build(route, *n, &vals)) {
                Ok(Ok(v)) => v,
                _ => { out.push(json!({"e": "def", "universe": l64(*n), "items": items_json, "route": route, "built": "FAILED", "obs": []})); continue; },
            };
            out.push(json!({"e": "def", "universe": l64(*n), "items": items_json, "route": route, "built": "ok",
                            "obs": [l64(sv.len()), l64(sv.count_ones()), l64(sv.count_zeros()), sv.is_multiset()]}));
            let d = out.lines.len();
            {
                let elems = crate::layout::to_elements(&crate::layout::to_bytes(&sv));
                let (_, _, low) = crate::layout::sparse_layout(&elems);
                let key = format!("w{}", low.width);
                stats["widths"][&key] = json!(stats["widths"][&key].as_u64().unwrap_or(0) + 1);
            }
            let mut pos: Vec<usize> = vec![0, 1, n.saturating_sub(1), *n, n.saturating_add(1), 1 << 63, usize::MAX - 1, usize::MAX, (1usize << 32) + 1];
            for (v, _) in items.iter().take(30).chain(items.iter().rev().take(10)) { pos.extend([v.saturating_sub(1), *v, v.saturating_add(1)]); }
            for _ in 0..20 { pos.push(rng.next() as usize % *n); }
            pos.sort(); pos.dedup();
            let mut ranks: Vec<usize> = vec![0, 1, vals.len().saturating_sub(1), vals.len(), vals.len() + 1, 1 << 31, 1 << 63, usize::MAX];
            let mut cum = 0usize;
            for (_, c) in items.iter().take(30) { ranks.extend([cum, cum + c - 1]); cum += c; }
            for _ in 0..10 { ranks.push(rng.below(vals.len() + 1)); }
            ranks.sort(); ranks.dedup();
            for (op, base, lim) in [("get", &pos, Some(*n)), ("rank", &pos, None), ("pred", &pos, None), ("succ", &pos, None), ("sel", &ranks, None), ("seli", &ranks, None)] {
                let all: Vec<usize> = base.iter().copied().filter(|a| lim.map(|l| *a < l).unwrap_or(true)).collect();
                let rs: Vec<Value> = all.iter().map(|a| ms_query(&sv, op, *a)).collect();
                out.push(json!({"e": "q", "d": d, "op": op, "a": all.iter().map(|a| l64(*a)).collect::<Vec<Value>>(), "r": rs}));
                stats["queries"] = json!(stats["queries"].as_u64().unwrap() + all.len() as u64);
            }
            if vals.len() <= 600 {
                let fwd: Vec<Value> = sv.one_iter().map(|(r, p)| json!([l64(r), l64(p)])).collect();
                let mut back: Vec<Value> = sv.one_iter().rev().map(|(r, p)| json!([l64(r), l64(p)])).collect();
                back.reverse();
                out.push(json!({"e": "pairs", "d": d, "fwd": fwd, "back": back}));
            }
            stats["objects"] = json!(stats["objects"].as_u64().unwrap() + 1);
        }
    }
    out.write(path);
    stats["events"] = json!(out.lines.len());
    stats["sample"] = serde_json::from_str(&out.lines[0]).unwrap();
    stats
}

//-----------------------------------------------------------------------------

/// C05 / C01 at a size where 32-bit counters overflow: a raw vector of 2^32 + 64 bits (512 MiB) taken through a short history
/// and the routes into and out of a plain bitvector; every event logs len() and count_ones() for tla/TraceGiant.tla.
pub fn record_giant(seed: u64, _thorough: bool, path: &str) -> Value {
    use simple_sds::bit_vector::BitVector;
    use simple_sds::ops::BitVec;
    use simple_sds::raw_vector::{AccessRaw, PopRaw, PushRaw, RawVector};
    let mut rng = Rng::new(seed);
    let mut out = TraceOut::new();
    let n: usize = (1usize << 32) + 64;
    let ev = |op: &str, extra: Value, len: usize, ones: usize| { let mut e = json!({"op": op, "len": l64(len), "ones": l64(ones)}); for (k, v) in extra.as_object().unwrap() { e[k] = v.clone(); } e };
    let r = guarded(|| {
        let mut events: Vec<Value> = Vec::new();
        let mut v = RawVector::with_len(n, true);
        events.push(ev("with_len", json!({"n": l64(n), "b": 1}), v.len(), v.count_ones()));
        for _ in 0..5 {
            let i = rng.below(n);
            let old = v.bit(i);
            v.set_bit(i, false);
            events.push(ev("set_bit", json!({"old": old as usize, "b": 0}), v.len(), v.count_ones()));
        }
        for b in [true, false, true, true] { v.push_bit(b); events.push(ev("push_bit", json!({"b": b as usize}), v.len(), v.count_ones())); }
        let old = v.pop_bit().unwrap();
        events.push(ev("pop_bit", json!({"old": old as usize}), v.len(), v.count_ones()));
        let m = v.len() + 130;
        v.resize(m, true);
        events.push(ev("grow", json!({"n": l64(m), "b": 1}), v.len(), v.count_ones()));
        let bv = BitVector::from(v);
        events.push({ let mut e = ev("to_plain", json!({}), bv.len(), bv.count_ones()); e["zeros"] = l64(bv.count_zeros()); e });
        let c = bv.clone();
        events.push({ let mut e = ev("clone_plain", json!({}), c.len(), c.count_ones()); e["zeros"] = l64(c.count_zeros()); e });
        drop(c);
        let v = RawVector::from(bv);
        events.push(ev("to_raw", json!({}), v.len(), v.count_ones()));
        let w = v.complement();
        drop(v);
        events.push(ev("complement", json!({}), w.len(), w.count_ones()));
        events
    });
    match r {
        Ok(events) => for e in events { out.push(e); },
        Err(msg) => out.push(json!({"op": "panic", "what": msg, "len": [-8, -8, -8], "ones": [-8, -8, -8]})),
    }
    out.write(path);
    json!({"events": out.lines.len(), "queries": out.lines.len(), "bits": "2^32 + 64", "sample": serde_json::from_str::<Value>(&out.lines[out.lines.len() - 1]).unwrap()})
}
