//! The public support-structure layer below BitVector (RankSupport, SelectSupport<Identity | Complement>,
//! Transformation::{bit, word}): safe functions whose documentation says "may panic" outside their domain.
//! Inside the domain the answers are the Layer A answers of the case; outside - and when a structure built
//! for one bitvector is queried with a shorter parent - the call may panic but must stay inside the buffers
//! (the hooks decide that).

use crate::bv;
use crate::common::*;
use serde_json::{json, Value};
use simple_sds::bit_vector::rank_support::RankSupport;
use simple_sds::bit_vector::select_support::SelectSupport;
use simple_sds::bit_vector::{BitVector, Complement, Identity, Transformation};
use simple_sds::ops::BitVec;
use simple_sds::raw_vector::{AccessRaw, RawVector};

fn expected_word(len: usize, ones: &[usize], k: usize, complement: bool) -> u64 {
    let mut w = 0u64;
    for p in ones.iter().filter(|p| **p / 64 == k) { w |= 1u64 << (*p % 64); }
    if complement {
        w = !w;
        let valid = len.saturating_sub(k * 64).min(64);
        w = if valid == 64 { w } else { w & ((1u64 << valid) - 1) };
    }
    w
}

pub fn replay_case(case: &Value, tally: &mut Tally) {
    let len = case["len"].as_u64().unwrap() as usize;
    let runs = bv::parse_runs(&case["runs"]);
    let ones: Vec<usize> = bv::positions(&runs).collect();
    let zeros = len - ones.len();
    let key = hstr(&format!("{}:{}", len, case["runs"]));
    tally.cases += 1;
    let ctx = |what: &str, a: usize| json!({"kind": "support", "len": len, "runs": case["runs"], "what": what, "arg": a.to_string()});
    let plain = bv::plain_raw(len, &runs);
    let built = guarded(|| (RankSupport::new(&plain), SelectSupport::<Identity>::new(&plain), SelectSupport::<Complement>::new(&plain)));
    let (rs, s1, s0) = match built {
        Ok(t) => t,
        Err(msg) => { tally.check(key, true, &|| ctx("build supports", 0), &json!("ok"), &json!(format!("PANIC: {}", msg))); return; },
    };
    let nontrivial = len > 0;
    // inside the domain: the defined answers
    let zero_pos: Vec<usize> = (0..len).filter(|i| ones.binary_search(i).is_err()).collect();
    for i in 0..len {
        let exp = ones.partition_point(|p| *p < i);
        let got = guarded_val(|| json!(rs.rank(&plain, i)));
        tally.check(hkey(&[key, 1, i as u64]), nontrivial, &|| ctx("RankSupport::rank", i), &json!(exp), &got);
        let got = guarded_val(|| json!([Identity::bit(&plain, i), Complement::bit(&plain, i)]));
        let b = ones.binary_search(&i).is_ok();
        tally.check(hkey(&[key, 2, i as u64]), nontrivial, &|| ctx("Transformation::bit (Identity, Complement)", i), &json!([b, !b]), &got);
    }
    for (r, p) in ones.iter().enumerate() {
        let got = guarded_val(|| json!(s1.select(&plain, r)));
        tally.check(hkey(&[key, 3, r as u64]), nontrivial, &|| ctx("SelectSupport<Identity>::select", r), &json!(p), &got);
    }
    for (r, p) in zero_pos.iter().enumerate() {
        let got = guarded_val(|| json!(s0.select(&plain, r)));
        tally.check(hkey(&[key, 4, r as u64]), nontrivial, &|| ctx("SelectSupport<Complement>::select", r), &json!(p), &got);
    }
    let words = (len + 63) / 64;
    for k in 0..words {
        let got = guarded_val(|| json!([Identity::word(&plain, k).to_string(), Complement::word(&plain, k).to_string()]));
        let exp = json!([expected_word(len, &ones, k, false).to_string(), expected_word(len, &ones, k, true).to_string()]);
        tally.check(hkey(&[key, 5, k as u64]), nontrivial, &|| ctx("Transformation::word (Identity, Complement)", k), &exp, &got);
    }
    let got = guarded_val(|| json!([Identity::count_ones(&plain), Complement::count_ones(&plain)]));
    tally.check(hkey(&[key, 6]), nontrivial, &|| ctx("Transformation::count_ones", 0), &json!([ones.len(), zeros]), &got);
    // outside the domain: may panic, must not leave the buffers (the hooks record every unchecked access)
    let mut far: Vec<usize> = vec![len, len + 1, len + 63, len + 64, len + 65, len + 511, len + 512, 2 * len + 7];
    far.extend(HUGE_TOKENS.iter().map(|t| t.1));
    for a in far.iter() {
        let _ = guarded(|| rs.rank(&plain, *a));
        let _ = guarded(|| Identity::bit(&plain, *a));
        let _ = guarded(|| Complement::bit(&plain, *a));
        tally.evals += 3;
    }
    let mut far_ranks: Vec<usize> = Vec::new();
    for base in [ones.len(), zeros] { far_ranks.extend([base, base + 1, base + 5, base + 63, base + 64, base + 65, base + 4095, base + 4096, base + 4097]); }
    far_ranks.extend(HUGE_TOKENS.iter().map(|t| t.1));
    for r in far_ranks.iter() {
        let _ = guarded(|| s1.select(&plain, *r));
        let _ = guarded(|| s0.select(&plain, *r));
        tally.evals += 2;
    }
    let mut far_words: Vec<usize> = vec![words, words + 1, words + 2, words + 7, len / 64, len / 64 + 1, len / 64 + 2];
    far_words.extend(HUGE_TOKENS.iter().map(|t| t.1));
    for k in far_words.iter() {
        let _ = guarded(|| Identity::word(&plain, *k));
        let _ = guarded(|| Complement::word(&plain, *k));
        tally.evals += 2;
    }
    // structures built for this bitvector, queried with shorter parents (safe functions: any answer or a panic, no stray read)
    for cut in [1usize, 64, 65, len / 2 + 1] {
        if cut > len { continue; }
        let mut raw = RawVector::with_len(len - cut, false);
        for p in ones.iter().filter(|p| **p < len - cut) { raw.set_bit(*p, true); }
        let short = BitVector::from(raw);
        for i in (0..len).step_by((len / 24).max(1)) { let _ = guarded(|| rs.rank(&short, i)); tally.evals += 1; }
        for r in (0..ones.len()).step_by((ones.len() / 24).max(1)) { let _ = guarded(|| s1.select(&short, r)); tally.evals += 1; }
        for r in (0..zeros).step_by((zeros / 24).max(1)) { let _ = guarded(|| s0.select(&short, r)); tally.evals += 1; }
        let _ = short.len();
    }
    if tally.samples.len() < 2 && len > 2 { tally.sample(json!({"len": len, "runs": case["runs"], "supports": "rank, select<Identity>, select<Complement>, transformations"})); }
}
