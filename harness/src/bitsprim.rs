//! Bit-level primitives (C17): replay of generated cases and recording of random calls.

use crate::common::*;
use serde_json::{json, Value};
use simple_sds::bits;

pub fn limbs_to_words(v: &Value) -> Vec<u64> {
    let l: Vec<u64> = v.as_array().unwrap().iter().map(|x| x.as_u64().unwrap()).collect();
    l.chunks(4).map(|c| c[0] | (c[1] << 16) | (c[2] << 32) | (c[3] << 48)).collect()
}

pub fn words_to_limbs(ws: &[u64]) -> Value {
    Value::Array(ws.iter().flat_map(|w| (0..4).map(move |k| json!((w >> (16 * k)) & 0xFFFF))).collect())
}

pub fn replay_case(case: &Value, tally: &mut Tally) {
    tally.cases += 1;
    match case["k"].as_str().unwrap() {
        "rw" => {
            let off = case["off"].as_u64().unwrap() as usize;
            let w = case["w"].as_u64().unwrap() as usize;
            for (i, sub) in case["subs"].as_array().unwrap().iter().enumerate() {
                let bg = limbs_to_words(&sub["bg"]);
                let v = limbs_to_words(&sub["v"])[0];
                let ctx = |what: &str| json!({"kind": "bits", "fn": what, "offset": off, "width": w, "value": format!("{:#x}", v), "background": sub["bg"]});
                let key = hkey(&[off as u64, w as u64, i as u64]);
                let r = guarded(|| {
                    let mut arr = bg.clone();
                    let before = unsafe { bits::read_int(&arr, off, w) };
                    unsafe { bits::write_int(&mut arr, off, v, w); }
                    let after = unsafe { bits::read_int(&arr, off, w) };
                    (words_to_limbs(&[before]), words_to_limbs(&arr), words_to_limbs(&[after]))
                });
                match r {
                    Ok((before, arr, after)) => {
                        tally.check(hkey(&[key, 1]), true, &|| ctx("read_int on the background"), &sub["read_bg"], &before);
                        tally.check(hkey(&[key, 2]), true, &|| ctx("array after write_int (no other bit may change)"), &sub["after"], &arr);
                        tally.check(hkey(&[key, 3]), true, &|| ctx("read_int after write_int = value truncated to the width"), &sub["read"], &after);
                    },
                    Err(m) => { tally.check(key, true, &|| ctx("write_int / read_int"), &json!("no panic"), &json!(format!("PANIC: {}", m))); },
                }
            }
            if w == 33 && off % 64 > 40 { tally.sample(json!({"offset": off, "width": w, "sub_cases": case["subs"].as_array().unwrap().len()})); }
        },
        "sel" => {
            let n = limbs_to_words(&case["word"])[0];
            for (r, exp) in case["ranks"].as_array().unwrap().iter().enumerate() {
                let got = match guarded(|| unsafe { bits::select(n, r) }) { Ok(p) => json!(p), Err(m) => json!(format!("PANIC: {}", m)) };
                tally.check(hkey(&[n, r as u64]), true, &|| json!({"kind": "bits", "fn": "select", "word": format!("{:#x}", n), "rank": r}), exp, &got);
            }
            if n.count_ones() == 5 { tally.sample(json!({"word": format!("{:#x}", n), "ranks": case["ranks"]})); }
        },
        "misc" => {
            for n in 0..=64usize {
                tally.check(hkey(&[1, n as u64]), true, &|| json!({"kind": "bits", "fn": "low_set", "n": n}), &case["low"][n], &words_to_limbs(&[bits::low_set(n)]));
                tally.check(hkey(&[2, n as u64]), true, &|| json!({"kind": "bits", "fn": "high_set", "n": n}), &case["high"][n], &words_to_limbs(&[bits::high_set(n)]));
                tally.check(hkey(&[3, n as u64]), true, &|| json!({"kind": "bits", "fn": "low_set_unchecked", "n": n}), &case["low"][n], &words_to_limbs(&[unsafe { bits::low_set_unchecked(n) }]));
                tally.check(hkey(&[4, n as u64]), true, &|| json!({"kind": "bits", "fn": "high_set_unchecked", "n": n}), &case["high"][n], &words_to_limbs(&[unsafe { bits::high_set_unchecked(n) }]));
            }
            for (i, c) in case["bitlen"].as_array().unwrap().iter().enumerate() {
                let v = limbs_to_words(&c["v"])[0];
                tally.check(hkey(&[5, i as u64]), true, &|| json!({"kind": "bits", "fn": "bit_len", "value": format!("{:#x}", v)}), &c["len"], &json!(bits::bit_len(v)));
            }
            for (i, c) in case["reverse"].as_array().unwrap().iter().enumerate() {
                let v = limbs_to_words(&c["v"])[0];
                let b = c["bits"].as_u64().unwrap() as usize;
                let got = match guarded(|| bits::reverse_low(v, b)) { Ok(x) => words_to_limbs(&[x]), Err(m) => json!(m) };
                tally.check(hkey(&[6, i as u64]), true, &|| json!({"kind": "bits", "fn": "reverse_low", "value": format!("{:#x}", v), "bits": b}), &c["r"], &got);
            }
            let divs: Vec<usize> = case["divs"].as_array().unwrap().iter().map(|x| x.as_u64().unwrap() as usize).collect();
            for c in case["rounding"].as_array().unwrap() {
                let n = c["n"].as_u64().unwrap() as usize;
                let got = json!({"n": n, "words_to_bytes": bits::words_to_bytes(n), "bytes_to_words": bits::bytes_to_words(n), "round_bytes": bits::round_up_to_word_bytes(n),
                                 "words_to_bits": bits::words_to_bits(n), "bits_to_words": bits::bits_to_words(n), "round_bits": bits::round_up_to_word_bits(n),
                                 "split": [bits::split_offset(n).0, bits::split_offset(n).1], "div": divs.iter().map(|d| bits::div_round_up(n, *d)).collect::<Vec<usize>>()});
                tally.check(hkey(&[7, n as u64]), true, &|| json!({"kind": "bits", "fn": "rounding helpers", "n": n}), c, &got);
                let (a, b) = bits::split_offset(n);
                tally.check(hkey(&[8, n as u64]), true, &|| json!({"kind": "bits", "fn": "bit_offset(split_offset(n))", "n": n}), &json!(n), &json!(bits::bit_offset(a, b)));
            }
            let bigdivs: Vec<usize> = case["bigdivs"].as_array().unwrap().iter().map(|x| x.as_u64().unwrap() as usize).collect();
            for (i, c) in case["big"].as_array().unwrap().iter().enumerate() {
                let v = limbs_to_words(&c["v"])[0] as usize;
                // the helpers document the precondition value + n <= usize::MAX (they may panic beyond it)
                let ok = |d: usize| v.checked_add(d).is_some();
                let divs: Vec<Value> = bigdivs.iter().map(|d| if ok(*d) { guarded_val(|| words_to_limbs(&[bits::div_round_up(v, *d) as u64])) } else { json!("precondition") }).collect();
                let exp_divs: Vec<Value> = bigdivs.iter().enumerate().map(|(j, d)| if ok(*d) { c["div"][j].clone() } else { json!("precondition") }).collect();
                tally.check(hkey(&[10, i as u64]), true, &|| json!({"kind": "bits", "fn": "div_round_up on 64-bit values", "value": format!("{:#x}", v), "divisors": bigdivs}), &json!(exp_divs), &json!(divs));
                if ok(63) {
                    tally.check(hkey(&[11, i as u64]), true, &|| json!({"kind": "bits", "fn": "bits_to_words", "value": format!("{:#x}", v)}), &c["bits_to_words"], &guarded_val(|| words_to_limbs(&[bits::bits_to_words(v) as u64])));
                    if c["round_bits_fits"] == json!(true) { tally.check(hkey(&[12, i as u64]), true, &|| json!({"kind": "bits", "fn": "round_up_to_word_bits", "value": format!("{:#x}", v)}), &c["round_bits"], &guarded_val(|| words_to_limbs(&[bits::round_up_to_word_bits(v) as u64]))); }
                }
                if ok(7) {
                    tally.check(hkey(&[13, i as u64]), true, &|| json!({"kind": "bits", "fn": "bytes_to_words", "value": format!("{:#x}", v)}), &c["bytes_to_words"], &guarded_val(|| words_to_limbs(&[bits::bytes_to_words(v) as u64])));
                    if c["round_bytes_fits"] == json!(true) { tally.check(hkey(&[14, i as u64]), true, &|| json!({"kind": "bits", "fn": "round_up_to_word_bytes", "value": format!("{:#x}", v)}), &c["round_bytes"], &guarded_val(|| words_to_limbs(&[bits::round_up_to_word_bytes(v) as u64]))); }
                }
            }
            tally.check(hkey(&[9]), true, &|| json!({"kind": "bits", "fn": "filler_value"}), &json!([0, 1]), &json!([(bits::filler_value(false) == 0) as usize ^ 1, (bits::filler_value(true) == u64::MAX) as usize]));
        },
        k => panic!("TOOL-ERROR: unknown bits case {}", k),
    }
}

pub fn record_bits(seed: u64, thorough: bool, path: &str) -> Value {
    let mut rng = Rng::new(seed);
    let mut out = TraceOut::new();
    let n = if thorough { 12000 } else { 2500 };
    for i in 0..n {
        if i % 2 == 0 {
            let mut arr: Vec<u64> = (0..3).map(|_| match rng.below(4) { 0 => 0, 1 => u64::MAX, _ => rng.next() }).collect();
            let w = rng.range(1, 64);
            let off = rng.below(192 - w + 1);
            let v = match rng.below(4) { 0 => u64::MAX, 1 => 1u64 << rng.below(64), _ => rng.next() };
            let bg = words_to_limbs(&arr);
            let before = unsafe { bits::read_int(&arr, off, w) };
            unsafe { bits::write_int(&mut arr, off, v, w); }
            let after = unsafe { bits::read_int(&arr, off, w) };
            out.push(json!({"e": "rw", "bg": bg, "off": off, "w": w, "v": words_to_limbs(&[v]), "read_bg": words_to_limbs(&[before]), "arr": words_to_limbs(&arr), "read": words_to_limbs(&[after])}));
        } else {
            let word = match rng.below(5) { 0 => 1u64 << rng.below(64), 1 => u64::MAX, 2 => rng.next() & rng.next() & rng.next(), _ => rng.next() };
            let word = if word == 0 { 1 } else { word };
            let r = rng.below(word.count_ones() as usize);
            out.push(json!({"e": "sel", "word": words_to_limbs(&[word]), "rank": r, "pos": unsafe { bits::select(word, r) }}));
        }
    }
    out.write(path);
    json!({"queries": n, "events": out.lines.len(), "sample": serde_json::from_str::<Value>(&out.lines[0]).unwrap()})
}
