//! Shared helpers: JSON number discipline, argument tokens, panic capture, RNG, result accumulator.

use serde_json::{json, Value};
use std::collections::HashSet;
use std::panic::{self, AssertUnwindSafe};

/// Largest integer TLC (and the community Json module) can carry.
pub const TLC_MAX: u64 = (1u64 << 31) - 1;

/// Token for a number that cannot be carried as a TLC integer. Never equal to a defined result.
pub const UNREP: i64 = -9;

/// Encodes a result number for comparison with / validation by TLC.
pub fn enc(x: usize) -> Value {
    if (x as u64) <= TLC_MAX { json!(x) } else { json!(UNREP) }
}

pub fn enc_opt(x: Option<usize>) -> Value {
    match x { Some(v) => enc(v), None => json!(-1) }
}

pub fn enc_pair(x: Option<(usize, usize)>) -> Value {
    match x { Some((a, b)) => json!([enc(a), enc(b)]), None => json!([-1, -1]) }
}

/// Huge-argument tokens: negative integers in the JSON stand for these values.
pub const HUGE_TOKENS: [(i64, usize); 6] = [
    (-1, usize::MAX),
    (-2, usize::MAX - 1),
    (-3, 1usize << 63),
    (-4, (1usize << 63) + 1),
    (-5, 1usize << 32),
    (-6, (1usize << 62) + 12345),
];

/// Decodes an argument: a natural number or a huge token.
pub fn dec_arg(v: &Value) -> usize {
    let x = v.as_i64().unwrap_or_else(|| panic!("TOOL-ERROR: bad argument {}", v));
    if x >= 0 { return x as usize; }
    for (t, val) in HUGE_TOKENS.iter() {
        if *t == x { return *val; }
    }
    panic!("TOOL-ERROR: unknown argument token {}", x);
}

/// Encodes an argument for a trace: literal if it fits, else the token of that value.
pub fn enc_arg(x: usize) -> Value {
    if (x as u64) <= TLC_MAX { return json!(x); }
    for (t, val) in HUGE_TOKENS.iter() {
        if *val == x { return json!(t); }
    }
    panic!("TOOL-ERROR: argument {} is neither small nor a token", x);
}

/// Refuses to write a trace line that contains a bare integer TLC would mangle.
pub fn assert_tlc_safe(v: &Value) {
    match v {
        Value::Number(n) => {
            if let Some(u) = n.as_u64() {
                assert!(u <= TLC_MAX, "TOOL-ERROR: integer {} does not fit TLC", u);
            } else if let Some(i) = n.as_i64() {
                assert!(i >= -(TLC_MAX as i64), "TOOL-ERROR: integer {} does not fit TLC", i);
            } else {
                panic!("TOOL-ERROR: float in trace");
            }
        },
        Value::Array(a) => a.iter().for_each(assert_tlc_safe),
        Value::Object(o) => o.values().for_each(assert_tlc_safe),
        Value::Null => panic!("TOOL-ERROR: null in trace"),
        _ => (),
    }
}

/// Runs `f`, turning a panic into `Err(message)`.
pub fn guarded<R, F: FnOnce() -> R>(f: F) -> Result<R, String> {
    match panic::catch_unwind(AssertUnwindSafe(f)) {
        Ok(r) => Ok(r),
        Err(e) => {
            let msg = if let Some(s) = e.downcast_ref::<&str>() { s.to_string() }
                else if let Some(s) = e.downcast_ref::<String>() { s.clone() }
                else { "panic".to_string() };
            if msg.starts_with("TOOL-ERROR") {
                eprintln!("{}", msg);
                std::process::exit(2);
            }
            Err(msg)
        },
    }
}

/// Like `guarded`, but renders the outcome as a JSON value (`"PANIC: ..."` on panic).
pub fn guarded_val<F: FnOnce() -> Value>(f: F) -> Value {
    match guarded(f) {
        Ok(v) => v,
        Err(msg) => json!(format!("PANIC: {}", msg)),
    }
}

pub fn is_panic(v: &Value) -> bool {
    v.as_str().map(|s| s.starts_with("PANIC")).unwrap_or(false)
}

//-----------------------------------------------------------------------------

/// SplitMix64: small deterministic generator.
pub struct Rng(pub u64);

impl Rng {
    pub fn new(seed: u64) -> Self { Rng(seed.wrapping_mul(0x9E37_79B9_7F4A_7C15).wrapping_add(0x1234_5678_9ABC_DEF1)) }
    pub fn next(&mut self) -> u64 {
        self.0 = self.0.wrapping_add(0x9E37_79B9_7F4A_7C15);
        let mut z = self.0;
        z = (z ^ (z >> 30)).wrapping_mul(0xBF58_476D_1CE4_E5B9);
        z = (z ^ (z >> 27)).wrapping_mul(0x94D0_49BB_1331_11EB);
        z ^ (z >> 31)
    }
    /// Uniform in `0..n` (`n > 0`).
    pub fn below(&mut self, n: usize) -> usize { (self.next() % (n as u64)) as usize }
    pub fn range(&mut self, lo: usize, hi: usize) -> usize { lo + self.below(hi - lo + 1) }
    pub fn chance(&mut self, num: usize, den: usize) -> bool { self.below(den) < num }
    pub fn pick<'a, T>(&mut self, xs: &'a [T]) -> &'a T { &xs[self.below(xs.len())] }
    /// Geometric-ish length with the given mean (at least 1).
    pub fn geo(&mut self, mean: usize) -> usize {
        let u = (self.next() >> 11) as f64 / ((1u64 << 53) as f64);
        let x = -(1.0 - u).ln() * (mean as f64);
        (x as usize).max(1)
    }
}

//-----------------------------------------------------------------------------

/// Accumulates the outcome of a replay run.
pub struct Tally {
    pub cases: usize,
    pub evals: usize,
    pub distinct: HashSet<u64>,
    pub mismatches: Vec<Value>,
    pub samples: Vec<Value>,
    pub notes: Vec<Value>,
    pub max_mismatches: usize,
}

impl Tally {
    pub fn new() -> Self {
        Tally { cases: 0, evals: 0, distinct: HashSet::new(), mismatches: Vec::new(), samples: Vec::new(), notes: Vec::new(), max_mismatches: 20 }
    }

    /// Records one comparison. `key` identifies the (content, call, argument) triple; `nontrivial` says whether it counts.
    pub fn check(&mut self, key: u64, nontrivial: bool, ctx: &dyn Fn() -> Value, expected: &Value, got: &Value) -> bool {
        self.evals += 1;
        if nontrivial { self.distinct.insert(key); }
        if expected != got {
            if self.mismatches.len() < self.max_mismatches {
                let mut c = ctx();
                c["expected"] = expected.clone();
                c["got"] = got.clone();
                self.mismatches.push(c);
            }
            false
        } else { true }
    }

    pub fn sample(&mut self, v: Value) {
        if self.samples.len() < 3 { self.samples.push(v); }
    }

    pub fn finish(self) -> Value {
        json!({
            "cases": self.cases,
            "evaluations": self.evals,
            "distinct_nontrivial": self.distinct.len(),
            "mismatches": self.mismatches,
            "samples": self.samples,
            "notes": self.notes,
        })
    }
}

/// FNV-1a over a list of words, for distinctness keys.
pub fn hkey(parts: &[u64]) -> u64 {
    let mut h: u64 = 0xcbf2_9ce4_8422_2325;
    for p in parts {
        for b in p.to_le_bytes() {
            h ^= b as u64;
            h = h.wrapping_mul(0x0000_0100_0000_01B3);
        }
    }
    h
}

pub fn hstr(s: &str) -> u64 {
    let mut h: u64 = 0xcbf2_9ce4_8422_2325;
    for b in s.bytes() {
        h ^= b as u64;
        h = h.wrapping_mul(0x0000_0100_0000_01B3);
    }
    h
}

/// Writes ndjson lines with the TLC safety check.
pub struct TraceOut {
    pub lines: Vec<String>,
}

impl TraceOut {
    pub fn new() -> Self { TraceOut { lines: Vec::new() } }
    pub fn push(&mut self, v: Value) {
        assert_tlc_safe(&v);
        self.lines.push(serde_json::to_string(&v).unwrap());
    }
    pub fn write(&self, path: &str) {
        let mut s = self.lines.join("\n");
        s.push('\n');
        std::fs::write(path, s).unwrap_or_else(|e| { eprintln!("TOOL-ERROR: cannot write {}: {}", path, e); std::process::exit(2); });
    }
}
