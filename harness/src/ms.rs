//! Multiset sparse vectors (C15): replay of generated cases by the three construction routes,
//! iterator cover over duplicates, recording of large multisets.

use crate::common::*;
use crate::iter::{cover, de_ops, HistSet};
use serde_json::{json, Value};
use simple_sds::ops::{BitVec, PredSucc, Rank, Select};
use simple_sds::sparse_vector::{SparseBuilder, SparseVector};
use std::convert::TryFrom;

pub fn build(route: &str, universe: usize, vals: &[usize]) -> Result<SparseVector, String> {
    match route {
        "set" => {
            let mut b = SparseBuilder::multiset(universe, vals.len());
            for v in vals { b.set(*v); }
            SparseVector::try_from(b).map_err(|e| e.to_string())
        },
        "try_set" => {
            let mut b = SparseBuilder::multiset(universe, vals.len());
            for v in vals { b.try_set(*v).map_err(|e| e.to_string())?; }
            SparseVector::try_from(b).map_err(|e| e.to_string())
        },
        "extend" => {
            let mut b = SparseBuilder::multiset(universe, vals.len());
            b.extend(vals.iter().copied());
            SparseVector::try_from(b).map_err(|e| e.to_string())
        },
        "try_from_iter" => SparseVector::try_from_iter(vals.iter().copied()).map_err(|e| e.to_string()),
        _ => panic!("TOOL-ERROR: unknown multiset route {}", route),
    }
}

pub fn query(sv: &SparseVector, op: &str, a: usize) -> Value {
    let pair = crate::bv::is_pair_op(op);
    let r = guarded(|| match op {
        "len" => enc(sv.len()),
        "ones" => enc(sv.count_ones()),
        "zeros" => enc(sv.count_zeros()),
        "multi" => json!(sv.is_multiset()),
        "get" => json!(sv.get(a) as usize),
        "rank" => enc(sv.rank(a)),
        "sel" => enc_opt(sv.select(a)),
        "seli" => enc_pair(sv.select_iter(a).next()),
        "pred" => enc_pair(sv.predecessor(a).next()),
        "succ" => enc_pair(sv.successor(a).next()),
        _ => panic!("TOOL-ERROR: unknown multiset query {}", op),
    });
    match r { Ok(v) => v, Err(msg) => { crate::bv::LAST_PANIC.with(|p| *p.borrow_mut() = msg); if pair { json!([-8, -8]) } else { json!(-8) } } }
}

pub fn replay_case(case: &Value, hs: Option<&HistSet>, tally: &mut Tally) {
    tally.cases += 1;
    let universe = case["universe"].as_u64().unwrap() as usize;
    let vals: Vec<usize> = case["vals"].as_array().unwrap().iter().map(|x| x.as_u64().unwrap() as usize).collect();
    let ckey = hstr(&format!("{}:{}", universe, case["vals"]));
    if case["sorted"] == json!(false) {
        // Building from an iterator accepts exactly the non-decreasing sequences.
        let r = guarded(|| SparseVector::try_from_iter(vals.iter().copied()).is_ok());
        let got = match r { Ok(b) => json!(if b { "accepted" } else { "refused" }), Err(m) => json!(format!("PANIC: {}", m)) };
        tally.check(ckey, true, &|| json!({"kind": "ms", "op": "try_from_iter", "vals": case["vals"]}), &json!("refused"), &got);
        // try_set refuses the first decreasing value
        let r = guarded(|| { let mut b = SparseBuilder::multiset(universe, vals.len()); vals.iter().all(|v| b.try_set(*v).is_ok()) });
        let got = match r { Ok(b) => json!(if b { "accepted" } else { "refused" }), Err(m) => json!(format!("PANIC: {}", m)) };
        tally.check(hkey(&[ckey, 1]), true, &|| json!({"kind": "ms", "op": "try_set sequence", "vals": case["vals"], "universe": universe}), &json!("refused"), &got);
        return;
    }
    let args = case["args"].as_array().unwrap();
    let mut routes = vec!["set", "try_set", "extend"];
    if case["tfi"] == json!(true) { routes.push("try_from_iter"); }
    for route in routes {
        let ctx = |op: &str, a: &Value| json!({"kind": "ms", "route": route, "universe": universe, "vals": case["vals"], "op": op, "arg": a});
        let sv = match guarded(|| build(route, universe, &vals)) {
            Ok(Ok(v)) => v,
            Ok(Err(e)) => { tally.check(hkey(&[ckey, hstr(route)]), true, &|| ctx("build", &json!(0)), &json!("ok"), &json!(format!("Err: {}", e))); continue; },
            Err(m) => { tally.check(hkey(&[ckey, hstr(route)]), true, &|| ctx("build", &json!(0)), &json!("ok"), &json!(format!("PANIC: {}", m))); continue; },
        };
        let nt = !vals.is_empty();
        tally.check(hkey(&[ckey, 2]), nt, &|| ctx("len", &json!(0)), &json!(universe), &query(&sv, "len", 0));
        tally.check(hkey(&[ckey, 3]), nt, &|| ctx("count_ones", &json!(0)), &case["ones"], &query(&sv, "ones", 0));
        tally.check(hkey(&[ckey, 4]), nt, &|| ctx("count_zeros", &json!(0)), &case["zeros"], &query(&sv, "zeros", 0));
        tally.check(hkey(&[ckey, 5]), nt, &|| ctx("is_multiset", &json!(0)), &case["multi"], &query(&sv, "multi", 0));
        for op in ["get", "rank", "sel", "pred", "succ"] {
            for (j, arg) in args.iter().enumerate() {
                let expected = &case[op][j];
                if expected.as_i64() == Some(-7) { continue; }
                let concrete: Vec<usize> = if arg.as_i64() == Some(-1) { HUGE_TOKENS.iter().map(|t| t.1).chain([2 * universe + 7]).collect() } else { vec![dec_arg(arg)] };
                for a in concrete {
                    let got = query(&sv, op, a);
                    if !tally.check(hkey(&[ckey, hstr(op), a as u64]), nt, &|| ctx(op, &json!(a.to_string())), expected, &got) && got.to_string().contains("-8") {
                        crate::bv::LAST_PANIC.with(|p| tally.notes.push(json!(format!("panic: {}", p.borrow()))));
                    }
                    if op == "sel" {
                        let exp = if expected.as_i64() == Some(-1) { json!([-1, -1]) } else { json!([enc(a), expected]) };
                        tally.check(hkey(&[ckey, hstr("seli"), a as u64]), nt, &|| ctx("select_iter", &json!(a.to_string())), &exp, &query(&sv, "seli", a));
                    }
                }
            }
        }
        // conversion to a plain bitvector: the distinct positions, counted once each
        {
            use simple_sds::bit_vector::BitVector;
            use simple_sds::ops::SelectZero;
            let distinct: Vec<usize> = { let mut d = vals.clone(); d.dedup(); d };
            let got = match guarded(|| {
                let mut b = if route == "set" { BitVector::from(sv.clone()) } else { BitVector::copy_bit_vec(&sv) };
                b.enable_rank(); b.enable_select(); b.enable_select_zero();
                let ones: Vec<usize> = b.one_iter().map(|x| x.1).collect();
                let zeros = b.zero_iter().count();
                let sel: Vec<Value> = (0..=distinct.len()).map(|r| enc_opt(b.select(r))).collect();
                json!([b.len(), b.count_ones(), ones, zeros, sel, b.rank(universe + 1)])
            }) { Ok(v) => v, Err(m) => json!(format!("PANIC: {}", m)) };
            let mut sel: Vec<Value> = distinct.iter().map(|p| json!(p)).collect();
            sel.push(json!(-1));
            let exp = json!([universe, distinct.len(), distinct, universe - distinct.len(), sel, distinct.len()]);
            tally.check(hkey(&[ckey, 15]), nt, &|| ctx("BitVector::from / copy_bit_vec of the multiset: [len, count_ones, set positions, zeros, select(0..), rank(len+1)]", &json!(0)), &exp, &got);
        }
        // one_iter forward and backward, bit iterator forward and backward
        let pairs: Vec<Value> = case["pairs"].as_array().unwrap().clone();
        let bits: Vec<Value> = case["bits"].as_array().unwrap().clone();
        let fwd: Vec<Value> = sv.one_iter().map(|(r, p)| json!([r, p])).collect();
        tally.check(hkey(&[ckey, 6]), nt, &|| ctx("one_iter", &json!(0)), &json!(pairs), &json!(fwd));
        let mut back: Vec<Value> = sv.one_iter().rev().map(|(r, p)| json!([r, p])).collect();
        back.reverse();
        tally.check(hkey(&[ckey, 7]), nt, &|| ctx("one_iter().rev()", &json!(0)), &json!(pairs), &json!(back));
        let bf: Vec<Value> = match guarded(|| sv.iter().map(|b| json!(b)).collect::<Vec<Value>>()) { Ok(v) => v, Err(_) => vec![json!("PANIC")] };
        tally.check(hkey(&[ckey, 8]), nt, &|| ctx("iter", &json!(0)), &json!(bits), &json!(bf));
        let mut bb: Vec<Value> = match guarded(|| sv.iter().rev().map(|b| json!(b)).collect::<Vec<Value>>()) { Ok(v) => v, Err(_) => vec![json!("PANIC")] };
        bb.reverse();
        tally.check(hkey(&[ckey, 9]), nt, &|| ctx("iter().rev()", &json!(0)), &json!(bits), &json!(bb));
        if let (Some(hs), "set") = (hs, route) {
            let w = |name: &str, start: String| { let n = name.to_string(); let c = case.clone(); move || json!({"type": "sparse multiset", "iterator": n, "start": start, "universe": c["universe"], "vals": c["vals"]}) };
            cover(tally, hs, 0, &w("one_iter", "".into()), || sv.one_iter(), de_ops(), |x: (usize, usize)| json!([x.0, x.1]), &pairs, hkey(&[ckey, 10]));
            cover(tally, hs, 0, &w("iter", "".into()), || sv.iter(), de_ops(), |x| json!(x), &bits, hkey(&[ckey, 11]));
            for r in 0..=vals.len() {
                cover(tally, hs, 0, &w("select_iter", r.to_string()), || sv.select_iter(r), de_ops(), |x: (usize, usize)| json!([x.0, x.1]), &pairs[r..], hkey(&[ckey, 12, r as u64]));
            }
            for v in 0..=(universe + 1) {
                let ps = case["pred"][v][0].as_i64().unwrap();
                let ss = case["succ"][v][0].as_i64().unwrap();
                let pseq = if ps < 0 { &pairs[pairs.len()..] } else { &pairs[ps as usize..] };
                let sseq = if ss < 0 { &pairs[pairs.len()..] } else { &pairs[ss as usize..] };
                cover(tally, hs, 0, &w("predecessor", v.to_string()), || sv.predecessor(v), de_ops(), |x: (usize, usize)| json!([x.0, x.1]), pseq, hkey(&[ckey, 13, v as u64]));
                cover(tally, hs, 0, &w("successor", v.to_string()), || sv.successor(v), de_ops(), |x: (usize, usize)| json!([x.0, x.1]), sseq, hkey(&[ckey, 14, v as u64]));
            }
        }
    }
    if vals.len() >= 3 { tally.sample(json!({"universe": universe, "vals": case["vals"]})); }
}

//-----------------------------------------------------------------------------

pub fn record_ms(seed: u64, thorough: bool, path: &str) -> Value {
    let mut rng = Rng::new(seed);
    let mut out = TraceOut::new();
    let mut queries = 0usize;
    let objects = if thorough { 30 } else { 8 };
    for o in 0..(objects + 2) {
        // the last two objects are heavily overfull: the zeros of `high` then form long select superblocks - a single one
        // (48 buckets), and a long one followed by another superblock (more than 4096 buckets under 150 000 values)
        let heavy = o == objects;
        let heavy2 = o == objects + 1;
        let m = if heavy || heavy2 { 0 } else if thorough { rng.range(50, 5000) } else { rng.range(50, 900) };
        let universe = if heavy { 48 } else if heavy2 { 9000 + rng.below(500) } else { match o % 5 { 0 => rng.range(1, 20), 1 => rng.range(m / 4 + 1, m), 2 => rng.range(1 << 10, 1 << 14), 3 => rng.range(1 << 18, 1 << 24), _ => rng.range(100, 5000) } };
        // long duplicate runs next to bucket boundaries, duplicates at 0 and at universe - 1
        let mut vals: Vec<usize> = Vec::new();
        let dup0 = rng.range(0, 6);
        for _ in 0..dup0 { vals.push(0); }
        while vals.len() + 6 < m {
            let base = match rng.below(3) { 0 => (rng.below(universe) / 64) * 64, 1 => ((rng.below(universe) / 32) * 32 + 31).min(universe - 1), _ => rng.below(universe) };
            let reps = if rng.chance(1, 3) { rng.range(1, 40) } else { 1 };
            for _ in 0..reps { if vals.len() + 6 < m { vals.push(base); } }
        }
        for _ in 0..rng.range(0, 5) { vals.push(universe - 1); }
        if heavy { vals = (0..universe).flat_map(|v| std::iter::repeat(v).take(2300 + (v * 13) % 400)).collect(); }
        if heavy2 { vals = (0..universe).flat_map(|v| std::iter::repeat(v).take(if v % 3 == 0 { 0 } else { 20 + (v * 7) % 9 })).collect(); }
        vals.sort();
        let route = ["set", "try_set", "extend"][o % 3];
        let sv = match guarded(|| build(route, universe, &vals)) { Ok(Ok(v)) => v, _ => { out.push(json!({"e": "def", "universe": universe, "vals": vals, "route": route, "built": "FAILED"})); continue; } };
        out.push(json!({"e": "def", "universe": universe, "vals": vals, "route": route, "built": "ok",
                        "obs": [query(&sv, "len", 0), query(&sv, "ones", 0), query(&sv, "zeros", 0), query(&sv, "multi", 0)]}));
        let d = out.lines.len();
        let mut pos: Vec<usize> = vec![0, 1, universe.saturating_sub(1), universe, universe + 1];
        for k in (0..vals.len()).step_by((vals.len() / 40).max(1)) { pos.extend([vals[k].saturating_sub(1), vals[k], vals[k] + 1]); }
        for _ in 0..30 { pos.push(rng.below(universe + 2)); }
        pos.sort(); pos.dedup();
        let mut ranks: Vec<usize> = vec![0, 1, vals.len().saturating_sub(1), vals.len(), vals.len() + 1];
        for _ in 0..40 { ranks.push(rng.below(vals.len() + 2)); }
        ranks.sort(); ranks.dedup();
        let huge: Vec<usize> = HUGE_TOKENS.iter().map(|t| t.1).collect();
        for (op, base, with_huge, lim) in [("get", &pos, false, Some(universe)), ("rank", &pos, true, None), ("pred", &pos, true, None), ("succ", &pos, true, None), ("sel", &ranks, true, None), ("seli", &ranks, true, None)] {
            let mut all: Vec<usize> = base.iter().copied().filter(|a| lim.map(|l| *a < l).unwrap_or(true)).collect();
            if with_huge { all.extend(huge.iter()); }
            let rs: Vec<Value> = all.iter().map(|a| query(&sv, op, *a)).collect();
            out.push(json!({"e": "q", "d": d, "op": op, "a": all.iter().map(|a| enc_arg(*a)).collect::<Vec<Value>>(), "r": rs}));
            queries += all.len();
        }
        let fwd: Vec<Value> = sv.one_iter().map(|(r, p)| json!([r, p])).collect();
        let mut back: Vec<Value> = sv.one_iter().rev().map(|(r, p)| json!([r, p])).collect();
        back.reverse();
        if vals.len() <= 20000 { out.push(json!({"e": "pairs", "d": d, "fwd": fwd, "back": back})); }
        if universe <= 20000 {
            let f: Vec<usize> = sv.iter().enumerate().filter(|(_, b)| *b).map(|(i, _)| i).collect();
            let n = sv.iter().count();
            let mut b: Vec<usize> = sv.iter().rev().enumerate().filter(|(_, b)| *b).map(|(i, _)| universe - 1 - i).collect();
            b.reverse();
            out.push(json!({"e": "bits", "d": d, "n": n, "fwd": f, "back": b}));
        }
    }
    out.write(path);
    json!({"objects": objects, "queries": queries, "events": out.lines.len(), "sample": serde_json::from_str::<Value>(&out.lines[1]).unwrap()})
}
