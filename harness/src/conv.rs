//! Conversions between bitvector types and optional support structures (C11, C19):
//! behaviours of the object machine (SDSConv) paired with every generated content.

use crate::bv::{self, AnyBv, Runs};
use crate::common::*;
use crate::layout::to_bytes;
use serde_json::{json, Value};
use simple_sds::bit_vector::BitVector;
use simple_sds::ops::{BitVec, PredSucc, Rank, Select, SelectZero};
use simple_sds::rl_vector::RLVector;
use simple_sds::serialize::Serialize;
use simple_sds::sparse_vector::SparseVector;

fn direct(kind: &str, route_salt: usize, len: usize, runs: &Runs) -> AnyBv {
    // the target type's own builder routes (no conversion)
    let routes: &[&str] = match kind { "plain" => &["raw", "push", "iter", "raw_shrunk", "raw_resized", "iter_inexact"], "sparse" => &["builder", "try_set", "extend"], _ => &["runs", "bits", "split", "set_len_steps", "zero_runs"] };
    let route = routes[route_salt % routes.len()];
    match kind {
        "plain" => {
            // bv::build enables supports; rebuild without them
            let b = match bv::build("plain", route, len, runs) { AnyBv::Plain(b) => b, _ => unreachable!() };
            AnyBv::Plain(BitVector::from(simple_sds::raw_vector::RawVector::from(b)))
        },
        k => bv::build(k, route, len, runs),
    }
}

pub fn convert(src: &AnyBv, to: &str, salt: usize) -> AnyBv {
    match (src, to) {
        (AnyBv::Plain(b), "plain") => AnyBv::Plain(BitVector::copy_bit_vec(b)),
        (AnyBv::Sparse(b), "plain") => AnyBv::Plain(if salt % 2 == 0 { BitVector::from(b.clone()) } else { BitVector::copy_bit_vec(b) }),
        (AnyBv::RL(b), "plain") => AnyBv::Plain(if salt % 2 == 0 { BitVector::from(b.clone()) } else { BitVector::copy_bit_vec(b) }),
        (AnyBv::Plain(b), "sparse") => AnyBv::Sparse(if salt % 2 == 0 { SparseVector::from(b.clone()) } else { SparseVector::copy_bit_vec(b) }),
        (AnyBv::Sparse(b), "sparse") => AnyBv::Sparse(SparseVector::copy_bit_vec(b)),
        (AnyBv::RL(b), "sparse") => AnyBv::Sparse(if salt % 2 == 0 { SparseVector::from(b.clone()) } else { SparseVector::copy_bit_vec(b) }),
        (AnyBv::Plain(b), "rl") => AnyBv::RL(if salt % 2 == 0 { RLVector::from(b.clone()) } else { RLVector::copy_bit_vec(b) }),
        (AnyBv::Sparse(b), "rl") => AnyBv::RL(if salt % 2 == 0 { RLVector::from(b.clone()) } else { RLVector::copy_bit_vec(b) }),
        (AnyBv::RL(b), "rl") => AnyBv::RL(RLVector::copy_bit_vec(b)),
        _ => panic!("TOOL-ERROR: unknown conversion target {}", to),
    }
}

pub fn enable(o: &mut AnyBv, s: &str) {
    macro_rules! en { ($b:expr) => { match s { "rank" => $b.enable_rank(), "select" => $b.enable_select(), "select_zero" => $b.enable_select_zero(), "pred_succ" => $b.enable_pred_succ(), _ => panic!("TOOL-ERROR: unknown support {}", s) } } }
    match o { AnyBv::Plain(b) => en!(b), AnyBv::Sparse(b) => en!(b), AnyBv::RL(b) => en!(b) }
}

fn flags(o: &AnyBv) -> Value {
    macro_rules! fl { ($b:expr) => { json!({"rank": $b.supports_rank(), "select": $b.supports_select(), "select_zero": $b.supports_select_zero(), "pred_succ": $b.supports_pred_succ()}) } }
    match o { AnyBv::Plain(b) => fl!(b), AnyBv::Sparse(b) => fl!(b), AnyBv::RL(b) => fl!(b) }
}

fn type_of(o: &AnyBv) -> &'static str { match o { AnyBv::Plain(_) => "plain", AnyBv::Sparse(_) => "sparse", AnyBv::RL(_) => "rl" } }

pub fn bytes_of(o: &AnyBv) -> Vec<u8> { match o { AnyBv::Plain(b) => to_bytes(b), AnyBv::Sparse(b) => to_bytes(b), AnyBv::RL(b) => to_bytes(b) } }

/// The three optional support structures of a serialized plain bitvector can each be skipped (whichever are present), through a
/// reader that returns everything asked for and through one that returns at most `chunk` bytes per call.
pub fn skip_supports(bytes: &[u8], chunk: usize) -> Result<(), String> {
    use simple_sds::raw_vector::RawVector;
    for ch in [usize::MAX, chunk] {
        let mut r = crate::ser::Counting { inner: crate::ser::Chunked { inner: std::io::Cursor::new(bytes), chunk: ch }, count: 0 };
        usize::load(&mut r).map_err(|e| e.to_string())?;
        RawVector::load(&mut r).map_err(|e| e.to_string())?;
        for k in 0..3 { simple_sds::serialize::skip_option(&mut r).map_err(|e| format!("skip_option over support structure {} failed: {}", k, e))?; }
        if r.count != bytes.len() { return Err(format!("after skipping the three support structures (reads of at most {} bytes) the reader is at {} of {}", ch, r.count, bytes.len())); }
    }
    // ... and through a reader whose every third call is interrupted (load and skip must retry, as read_exact does)
    let mut r = crate::ser::Counting { inner: crate::ser::Interrupting { inner: crate::ser::Chunked { inner: std::io::Cursor::new(bytes), chunk: 4096 }, calls: 0 }, count: 0 };
    usize::load(&mut r).map_err(|e| format!("interrupted reader: {}", e))?;
    RawVector::load(&mut r).map_err(|e| format!("interrupted reader: {}", e))?;
    for k in 0..3 { simple_sds::serialize::skip_option(&mut r).map_err(|e| format!("skip_option over support structure {} through a reader that is interrupted now and then failed: {}", k, e))?; }
    if r.count != bytes.len() { return Err(format!("interrupted reader: at {} of {}", r.count, bytes.len())); }
    Ok(())
}

fn reload(o: &AnyBv) -> Result<AnyBv, String> {
    let bytes = bytes_of(o);
    let size = match o { AnyBv::Plain(b) => b.size_in_bytes(), AnyBv::Sparse(b) => b.size_in_bytes(), AnyBv::RL(b) => b.size_in_bytes() };
    if size != bytes.len() { return Err(format!("size_in_bytes() = {} but {} bytes were written", size, bytes.len())); }
    if let AnyBv::Plain(_) = o { skip_supports(&bytes, [1usize, 7, 4096, 5000][bytes.len() % 4])?; }
    let mut cur = std::io::Cursor::new(&bytes);
    let r = match o {
        AnyBv::Plain(_) => BitVector::load(&mut cur).map(AnyBv::Plain),
        AnyBv::Sparse(_) => SparseVector::load(&mut cur).map(AnyBv::Sparse),
        AnyBv::RL(_) => RLVector::load(&mut cur).map(AnyBv::RL),
    }.map_err(|e| e.to_string())?;
    if cur.position() as usize != bytes.len() { return Err(format!("load consumed {} of {} bytes", cur.position(), bytes.len())); }
    Ok(r)
}

pub fn same(a: &AnyBv, b: &AnyBv) -> bool {
    match (a, b) { (AnyBv::Plain(x), AnyBv::Plain(y)) => x == y, (AnyBv::Sparse(x), AnyBv::Sparse(y)) => x == y, (AnyBv::RL(x), AnyBv::RL(y)) => x == y, _ => false }
}

/// Content of the real object: [len, count_ones, positions of set bits via one_iter].
fn content(o: &AnyBv) -> Value {
    macro_rules! ct { ($b:expr) => { json!([$b.len(), $b.count_ones(), $b.one_iter().map(|(_, p)| p).collect::<Vec<usize>>()]) } }
    match o { AnyBv::Plain(b) => ct!(b), AnyBv::Sparse(b) => ct!(b), AnyBv::RL(b) => ct!(b) }
}

/// The directly built structure of the same type with the given support flags enabled in canonical order.
pub fn canonical(kind: &str, len: usize, runs: &Runs, fl: &Value) -> AnyBv {
    let mut d = direct(kind, 0, len, runs);
    if kind == "plain" {
        for s in ["rank", "select", "select_zero"] { if fl[s] == json!(true) { enable(&mut d, s); } }
    }
    d
}

pub struct Behaviour { pub init: String, pub steps: Vec<Value>, pub raw: Value }

pub fn parse_behaviours(cases: &[Value]) -> Vec<Behaviour> {
    cases.iter().map(|c| Behaviour { init: c["init"].as_str().unwrap().to_string(), steps: c["steps"].as_array().unwrap().clone(), raw: c.clone() }).collect()
}

pub fn replay_content(case: &Value, behs: &[Behaviour], tally: &mut Tally) {
    tally.cases += 1;
    let len = case["len"].as_u64().unwrap() as usize;
    let runs: Runs = bv::parse_runs(&case["runs"]);
    let ones: Vec<usize> = bv::positions(&runs).collect();
    let expected_content = json!([len, ones.len(), ones]);
    let ckey = hstr(&format!("{}:{}", len, case["runs"]));
    let args = case["args"].as_array().unwrap();
    for (bi, beh) in behs.iter().enumerate() {
        let ctx = |i: i64, what: &str| json!({"kind": "conv", "len": len, "runs": case["runs"], "init": beh.init, "calls": beh.steps.iter().map(|s| s["c"].clone()).collect::<Vec<Value>>(), "step": i, "what": what});
        let r = guarded(|| {
            let mut out: Vec<(i64, &'static str, Value, Value)> = Vec::new();
            let mut o = direct(&beh.init, bi, len, &runs);
            // the representation does not depend on the builder call decomposition
            let canon0 = canonical(type_of(&o), len, &runs, &json!({}));
            out.push((-1, "initial object (built by a rotating builder decomposition) == the structure built by the canonical decomposition", json!(true), json!(same(&o, &canon0))));
            out.push((-1, "initial object serializes identically to the canonically built structure", json!(true), json!(bytes_of(&o) == bytes_of(&canon0))));
            for (i, s) in beh.steps.iter().enumerate() {
                let c = &s["c"];
                match c["op"].as_str().unwrap() {
                    "convert" => { o = convert(&o, c["to"].as_str().unwrap(), bi + i); },
                    "enable" => enable(&mut o, c["s"].as_str().unwrap()),
                    "reload" => match reload(&o) { Ok(n) => o = n, Err(e) => { out.push((i as i64, "serialize + load", json!("ok"), json!(e))); return out; } },
                    op => panic!("TOOL-ERROR: unknown object call {}", op),
                }
                out.push((i as i64, "type", s["type"].clone(), json!(type_of(&o))));
                out.push((i as i64, "support flags", s["flags"].clone(), flags(&o)));
                out.push((i as i64, "content [len, count_ones, set positions]", expected_content.clone(), content(&o)));
                let canon = canonical(type_of(&o), len, &runs, &s["flags"]);
                out.push((i as i64, "== structure built directly by the type's own builder with the same supports", json!(true), json!(same(&o, &canon))));
                out.push((i as i64, "serializes identically to the directly built structure", json!(true), json!(bytes_of(&o) == bytes_of(&canon))));
                // answers of the enabled queries at every argument
                let fl = &s["flags"];
                for (op, need) in [("rank", "rank"), ("sel", "select"), ("sel0", "select_zero"), ("pred", "pred_succ"), ("succ", "pred_succ")] {
                    if fl[need] != json!(true) { continue; }
                    for (j, a) in args.iter().enumerate() {
                        let a = if a.as_i64() == Some(-1) { usize::MAX } else { dec_arg(a) };
                        out.push((i as i64, "answer after this step", json!([op, a.to_string(), case[op][j]]), json!([op, a.to_string(), o.query(op, a)])));
                    }
                }
            }
            // Enabling the rest yields a value equal to the fully enabled original.
            for s in ["rank", "select", "select_zero", "pred_succ"] { enable(&mut o, s); }
            let full = canonical(type_of(&o), len, &runs, &json!({"rank": true, "select": true, "select_zero": true}));
            out.push((99, "after enabling the rest: == fully enabled directly built structure", json!(true), json!(same(&o, &full))));
            out.push((99, "after enabling the rest: same bytes as the fully enabled directly built structure", json!(true), json!(bytes_of(&o) == bytes_of(&full))));
            out
        });
        match r {
            Ok(list) => {
                for (k, (i, what, exp, got)) in list.iter().enumerate() {
                    tally.check(hkey(&[ckey, bi as u64, k as u64]), len > 0, &|| ctx(*i, what), exp, got);
                }
            },
            Err(msg) => { tally.check(hkey(&[ckey, bi as u64]), true, &|| ctx(-1, "panic"), &json!("no panic"), &json!(format!("PANIC: {}", msg))); },
        }
    }
    if len >= 3 { tally.sample(json!({"content": {"len": len, "runs": case["runs"]}, "behaviours": behs.len(), "example": behs.get(7).map(|b| b.raw.clone())})); }
}

//-----------------------------------------------------------------------------

fn runs_of(o: &AnyBv) -> Runs {
    let pos: Vec<usize> = match o { AnyBv::Plain(b) => b.one_iter().map(|x| x.1).collect(), AnyBv::Sparse(b) => b.one_iter().map(|x| x.1).collect(), AnyBv::RL(b) => b.one_iter().map(|x| x.1).collect() };
    let mut runs: Runs = Vec::new();
    for p in pos { match runs.last_mut() { Some(r) if r.0 + r.1 == p => r.1 += 1, _ => runs.push((p, 1)) } }
    runs
}

fn len_of(o: &AnyBv) -> usize { match o { AnyBv::Plain(b) => b.len(), AnyBv::Sparse(b) => b.len(), AnyBv::RL(b) => b.len() } }

fn rng2(s: &mut u64) -> usize { *s ^= *s << 13; *s ^= *s >> 7; *s ^= *s << 17; (*s >> 1) as usize }

/// Random behaviours of the object machine on large contents.
pub fn record_conv(seed: u64, thorough: bool, path: &str) -> Value {
    let mut rng = Rng::new(seed);
    let mut out = TraceOut::new();
    let mut steps = 0usize;
    let mut seed2 = seed ^ 0x9E37_79B9_7F4A_7C15;
    let mut contents: Vec<(usize, Runs)> = Vec::new();
    for (_, len, runs) in bv::plain_regimes(&mut rng, false).into_iter().filter(|c| c.1 <= (1 << 19) && c.2.len() < 20000).take(if thorough { 14 } else { 6 }) { contents.push((len, runs)); }
    for (_, len, runs) in bv::rl_regimes(&mut rng, false).into_iter().filter(|c| c.1 <= (1 << 20)).take(if thorough { 8 } else { 4 }) { contents.push((len, runs)); }
    for (len, runs) in contents.iter() {
        out.push(json!({"e": "def", "len": len, "runs": bv::runs_json(runs), "cum": bv::cum_json(runs)}));
        let ones = bv::ones_of(runs);
        for rep in 0..(if thorough { 6 } else { 3 }) {
            let init = ["plain", "sparse", "rl"][rng.below(3)];
            let mut o = direct(init, rep, *len, runs);
            out.push(json!({"e": "o_new", "type": init}));
            let random_steps = rng.range(2, 5);
            // every history ends as a plain bitvector with both select structures, serialized and loaded (sizes, skip_option, load)
            let forced = [json!({"op": "convert", "to": "plain"}), json!({"op": "enable", "s": "select"}), json!({"op": "enable", "s": "select_zero"}), json!({"op": "reload"})];
            for i in 0..(random_steps + forced.len()) {
                let to = ["plain", "sparse", "rl"][rng.below(3)];
                let sup = ["rank", "select", "select_zero", "pred_succ"][rng.below(4)];
                let c = if i >= random_steps { forced[i - random_steps].clone() } else { match rng.below(8) {
                    0 | 1 | 2 => json!({"op": "convert", "to": to}),
                    3 | 4 | 5 | 6 => json!({"op": "enable", "s": sup}),
                    _ => json!({"op": "reload"}),
                } };
                let r = guarded(|| {
                    let mut n = match c["op"].as_str().unwrap() {
                        "convert" => convert(&o, c["to"].as_str().unwrap(), rep + i),
                        "reload" => reload(&o).unwrap(),
                        _ => { let mut x = match &o { AnyBv::Plain(b) => AnyBv::Plain(b.clone()), AnyBv::Sparse(b) => AnyBv::Sparse(b.clone()), AnyBv::RL(b) => AnyBv::RL(b.clone()) }; enable(&mut x, c["s"].as_str().unwrap()); x },
                    };
                    let fl = flags(&n);
                    let canon = canonical(type_of(&n), *len, runs, &fl);
                    // answers through every support the object reports: random arguments and the edges of random runs
                    let mut ans: Vec<Value> = Vec::new();
                    for (flag, op, bound) in [("rank", "rank", *len + 1), ("select", "sel", ones + 1), ("select_zero", "sel0", *len - ones + 1), ("pred_succ", "pred", *len + 1), ("pred_succ", "succ", *len + 1)] {
                        if !fl[flag].as_bool().unwrap() { continue; }
                        let mut args: Vec<usize> = (0..6).map(|_| rng2(&mut seed2) % bound).collect();
                        if !runs.is_empty() {
                            for _ in 0..3 {
                                let k = rng2(&mut seed2) % runs.len();
                                let before: usize = runs[..k].iter().map(|r| r.1).sum();
                                match op { "sel" => args.extend([before, before + runs[k].1 - 1]), "sel0" => args.extend([(runs[k].0 - before).saturating_sub(1), runs[k].0 - before]), _ => args.extend([runs[k].0, runs[k].0 + runs[k].1]) }
                            }
                        }
                        for a in args { ans.push(json!({"op": op, "a": a, "r": n.query(op, a)})); }
                    }
                    let ev = json!({"e": "o_call", "c": c, "type": type_of(&n), "flags": fl, "len": len_of(&n), "runs": bv::runs_json(&runs_of(&n)),
                                    "eq": same(&n, &canon), "bytes_eq": bytes_of(&n) == bytes_of(&canon), "ans": ans});
                    std::mem::swap(&mut n, &mut o);
                    ev
                });
                match r { Ok(ev) => out.push(ev), Err(m) => { out.push(json!({"e": "o_call", "c": c, "type": "PANIC", "flags": {}, "len": 0, "runs": [], "eq": false, "bytes_eq": false, "panic": m})); break; } }
                steps += 1;
            }
        }
    }
    out.write(path);
    json!({"contents": contents.len(), "queries": steps, "events": out.lines.len(), "sample": serde_json::from_str::<Value>(&out.lines[2]).unwrap()})
}
