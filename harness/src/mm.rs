//! Memory-mapped views (C13), their refusal on truncated files (C14), and the memory map itself (C18).

use crate::common::*;
use crate::ser::{make, Val};
use serde_json::{json, Value};
use simple_sds::int_vector::IntVectorMapper;
use simple_sds::ops::{Access, Vector};
use simple_sds::raw_vector::{AccessRaw, RawVectorMapper};
use simple_sds::serialize::{MappedBytes, MappedOption, MappedSlice, MappedStr, MappingMode, MemoryMap, MemoryMapped};
use std::path::PathBuf;

/// Outcome of creating the view that corresponds to `v` at `offset`: Err, or [content_equal, map_offset, map_len].
fn view(map: &MemoryMap, v: &Val, offset: usize) -> Value {
    fn ok(eq: bool, off: usize, len: usize) -> Value { json!([eq, enc(off), enc(len)]) }
    let r = guarded(|| -> Value {
        match v {
            Val::VecU64(x) => match MappedSlice::<u64>::new(map, offset) { Ok(m) => ok(&*m == &x[..] && m.len() == x.len(), m.map_offset(), m.map_len()), Err(_) => json!("err") },
            Val::VecPair(x) => match MappedSlice::<(u64, u64)>::new(map, offset) { Ok(m) => ok(&*m == &x[..], m.map_offset(), m.map_len()), Err(_) => json!("err") },
            Val::Bytes(x) => match MappedBytes::new(map, offset) { Ok(m) => ok(&*m == &x[..], m.map_offset(), m.map_len()), Err(_) => json!("err") },
            Val::Str(x) => match MappedStr::new(map, offset) { Ok(m) => ok(&*m == x.as_str(), m.map_offset(), m.map_len()), Err(_) => json!("err") },
            Val::Raw(x) => match RawVectorMapper::new(map, offset) {
                Ok(m) => ok(m.len() == x.len() && (0..x.len()).all(|i| m.bit(i) == x.bit(i)) && m.count_ones() == x.count_ones() && (0..x.len() / 64).all(|i| m.word(i) == x.word(i)), m.map_offset(), m.map_len()),
                Err(_) => json!("err") },
            Val::Int(x) => match IntVectorMapper::new(map, offset) {
                Ok(m) => ok(m.len() == x.len() && m.width() == x.width() && m.iter().eq(x.iter()) && (0..x.len()).all(|i| m.get(i) == x.get(i)), m.map_offset(), m.map_len()),
                Err(_) => json!("err") },
            Val::OptVecU64(x) => match MappedOption::<MappedSlice<u64>>::new(map, offset) { Ok(m) => ok(m.is_some() == x.is_some() && m.as_ref().map(|s| &**s == &x.as_ref().unwrap()[..]).unwrap_or(true), m.map_offset(), m.map_len()), Err(_) => json!("err") },
            Val::OptVecPair(x) => match MappedOption::<MappedSlice<(u64, u64)>>::new(map, offset) { Ok(m) => ok(m.is_some() == x.is_some() && m.as_ref().map(|s| &**s == &x.as_ref().unwrap()[..]).unwrap_or(true), m.map_offset(), m.map_len()), Err(_) => json!("err") },
            Val::OptBytes(x) => match MappedOption::<MappedBytes>::new(map, offset) { Ok(m) => ok(m.is_some() == x.is_some() && m.as_ref().map(|s| &**s == &x.as_ref().unwrap()[..]).unwrap_or(true), m.map_offset(), m.map_len()), Err(_) => json!("err") },
            Val::OptStr(x) => match MappedOption::<MappedStr>::new(map, offset) { Ok(m) => ok(m.is_some() == x.is_some() && m.as_ref().map(|s| &**s == x.as_ref().unwrap().as_str()).unwrap_or(true), m.map_offset(), m.map_len()), Err(_) => json!("err") },
            Val::OptRaw(x) => match MappedOption::<RawVectorMapper>::new(map, offset) { Ok(m) => ok(m.is_some() == x.is_some() && m.as_ref().map(|s| s.len() == x.as_ref().unwrap().len() && (0..s.len()).all(|i| s.bit(i) == x.as_ref().unwrap().bit(i))).unwrap_or(true), m.map_offset(), m.map_len()), Err(_) => json!("err") },
            Val::OptInt(x) => match MappedOption::<IntVectorMapper>::new(map, offset) { Ok(m) => ok(m.is_some() == x.is_some() && m.as_ref().map(|s| s.iter().eq(x.as_ref().unwrap().iter())).unwrap_or(true), m.map_offset(), m.map_len()), Err(_) => json!("err") },
            other => panic!("TOOL-ERROR: no mapped view for {:?}", other),
        }
    });
    match r { Ok(v) => v, Err(m) => json!(format!("PANIC: {}", m)) }
}

fn scratch(name: &str) -> PathBuf { simple_sds::serialize::temp_file_name(name) }

/// C13 / C14: a file made of the stream's records; views at every record start, at offsets outside the
/// file, and on every truncation of the file to whole elements.
pub fn replay_mapped(case: &Value, tally: &mut Tally) {
    tally.cases += 1;
    let items = case["items"].as_array().unwrap();
    let offsets: Vec<usize> = case["offsets"].as_array().unwrap().iter().map(|x| x.as_u64().unwrap() as usize).collect();
    let sizes: Vec<usize> = case["sizes"].as_array().unwrap().iter().map(|x| x.as_u64().unwrap() as usize).collect();
    let vals: Vec<Val> = items.iter().map(make).collect();
    let ckey = hstr(&case["items"].to_string());
    let types: Vec<Value> = items.iter().map(|d| if d["t"] == json!("some") { json!(format!("some({})", d["inner"]["t"].as_str().unwrap())) } else if d["t"] == json!("none") { json!(format!("none({})", d["of"].as_str().unwrap())) } else { d["t"].clone() }).collect();
    let ctx = |k: usize, what: &str, x: usize| json!({"kind": "mapped", "records": types, "record_sizes": sizes, "record": k, "what": what, "offset_or_truncation": x.to_string()});
    let mut buf: Vec<u8> = Vec::new();
    for v in vals.iter() { v.serialize(&mut buf).unwrap(); }
    let total = buf.len() / 8;
    let path = scratch("verif-mapped");
    std::fs::write(&path, &buf).unwrap();
    {
        let map = match MemoryMap::new(&path, MappingMode::ReadOnly) { Ok(m) => m, Err(e) => { tally.check(ckey, true, &|| ctx(0, "MemoryMap::new", 0), &json!("ok"), &json!(e.to_string())); let _ = std::fs::remove_file(&path); return; } };
        tally.check(hkey(&[ckey, 0]), true, &|| ctx(0, "MemoryMap::len (elements)", 0), &json!(total), &json!(map.len()));
        for (k, v) in vals.iter().enumerate() {
            // the view at the record's start: content as loaded, offset, length; offset + length = next record's offset
            let exp = json!([true, offsets[k], sizes[k]]);
            tally.check(hkey(&[ckey, 1, k as u64]), true, &|| ctx(k, "view at the record start: [content equals the value, map_offset, map_len]", offsets[k]), &exp, &view(&map, v, offsets[k]));
            // a byte vector and a string have the same layout: a string view over a byte vector's record succeeds exactly when
            // loading a String from those bytes does (valid UTF-8), with the same content
            if let Val::Bytes(x) = v {
                use simple_sds::serialize::Serialize;
                let loaded = String::load(&mut std::io::Cursor::new(&buf[8 * offsets[k]..])).ok();
                let got = guarded_val(|| match MappedStr::new(&map, offsets[k]) { Ok(m) => json!([true, m.to_string() == String::from_utf8_lossy(x), m.map_len()]), Err(_) => json!("err") });
                let exp = match &loaded { Some(_) => json!([true, true, sizes[k]]), None => json!("err") };
                tally.check(hkey(&[ckey, 5, k as u64]), true, &|| ctx(k, "string view over a byte vector's record: as String::load of the same bytes", offsets[k]), &exp, &got);
            }
            // offsets at or beyond the end of the file
            for off in [total, total + 1, 2 * total + 3, 1usize << 63, usize::MAX - 1, usize::MAX] {
                tally.check(hkey(&[ckey, 2, k as u64, off as u64]), true, &|| ctx(k, "view requested at an offset outside the file", off), &json!("err"), &view(&map, v, off));
            }
        }
    }
    // every view type requested at EVERY element offset of the file - most of them not the start of a record of that type, so the
    // "header" the constructor reads is arbitrary library-written data (item values up to u64::MAX included).  Any result is
    // acceptable (an error, a view that happens to lie inside the file, a panic) except a view that extends past the mapping:
    // the carve hooks of the view constructors decide that (C08).
    {
        if let Ok(map) = MemoryMap::new(&path, MappingMode::ReadOnly) {
            for off in 0..total {
                let _ = guarded(|| MappedSlice::<u64>::new(&map, off).map(|m| m.len()));
                let _ = guarded(|| MappedSlice::<(u64, u64)>::new(&map, off).map(|m| m.len()));
                let _ = guarded(|| MappedBytes::new(&map, off).map(|m| m.len()));
                let _ = guarded(|| MappedStr::new(&map, off).map(|m| m.len()));
                // ... and every view that IS created is used through its safe accessors at indexes inside and outside what it claims
                // to hold (the header it read is arbitrary data, so its length and its slice need not agree): panics are fine, reads
                // outside the slice are not (bounds hook in RawVectorMapper::word_unchecked, C08)
                if let Ok(Ok(m)) = guarded(|| RawVectorMapper::new(&map, off)) {
                    let n = m.len();
                    for i in [0usize, 1, 63, 64, 65, 127, 128, n / 2, n.saturating_sub(1), n, n.saturating_add(63), usize::MAX] {
                        let _ = guarded(|| m.bit(i));
                        let _ = guarded(|| m.word(i / 64));
                        if i < n { let _ = guarded(|| unsafe { m.int(i, (n - i).min(64)) }); }
                    }
                    let _ = guarded(|| m.count_ones());
                    tally.evals += 37;
                }
                if let Ok(Ok(m)) = guarded(|| IntVectorMapper::new(&map, off)) {
                    let n = m.len();
                    for i in [0usize, 1, 2, 63, 64, n / 2, n.saturating_sub(1), n, usize::MAX] { let _ = guarded(|| m.get_or(i, 0)); if i < n { let _ = guarded(|| m.get(i)); } }
                    let _ = guarded(|| m.iter().take(200).count());
                    let _ = guarded(|| m.iter().rev().take(200).count());
                    tally.evals += 20;
                }
                let _ = guarded(|| MappedOption::<MappedSlice<u64>>::new(&map, off).map(|m| m.is_some()));
                let _ = guarded(|| MappedOption::<MappedSlice<(u64, u64)>>::new(&map, off).map(|m| m.is_some()));
                let _ = guarded(|| MappedOption::<MappedBytes>::new(&map, off).map(|m| m.is_some()));
                let _ = guarded(|| MappedOption::<MappedStr>::new(&map, off).map(|m| m.is_some()));
                let _ = guarded(|| MappedOption::<RawVectorMapper>::new(&map, off).map(|m| m.is_some()));
                let _ = guarded(|| MappedOption::<IntVectorMapper>::new(&map, off).map(|m| m.is_some()));
                tally.evals += 12;
            }
        }
    }
    // every truncation to whole elements
    for t in 0..total {     // t = 0: an empty file - if it can be mapped at all, every view on it is refused
        std::fs::write(&path, &buf[..8 * t]).unwrap();
        let map = match MemoryMap::new(&path, MappingMode::ReadOnly) { Ok(m) => m, Err(_) => continue };
        for (k, v) in vals.iter().enumerate() {
            let inside = offsets[k] + sizes[k] <= t;
            let exp = if inside { json!([true, offsets[k], sizes[k]]) } else { json!("err") };
            tally.check(hkey(&[ckey, 3, k as u64, t as u64]), true, &|| ctx(k, "view on the file truncated to this many elements", t), &exp, &view(&map, v, offsets[k]));
        }
    }
    let _ = std::fs::remove_file(&path);
    if items.len() >= 2 { tally.sample(json!({"records": types, "offsets": offsets})); }
}

//-----------------------------------------------------------------------------
// C18: the memory map itself.

/// Bytes of the address space currently backed by `path` (exact path match in /proc/self/maps).
pub fn mapped_bytes(path: &PathBuf) -> usize {
    let maps = std::fs::read_to_string("/proc/self/maps").unwrap_or_default();
    let p = path.to_string_lossy();
    let mut total = 0usize;
    for line in maps.lines() {
        let mut parts = line.split_whitespace();
        let range = parts.next().unwrap_or("");
        let name = line.splitn(6, ' ').filter(|s| !s.is_empty()).last().unwrap_or("").trim();
        if name == p || name == format!("{} (deleted)", p) {
            let mut ab = range.split('-');
            let a = usize::from_str_radix(ab.next().unwrap_or("0"), 16).unwrap_or(0);
            let b = usize::from_str_radix(ab.next().unwrap_or("0"), 16).unwrap_or(0);
            total += b - a;
        }
    }
    total
}

pub fn record_mmap(seed: u64, thorough: bool, path: &str) -> Value {
    let mut rng = Rng::new(seed);
    let mut out = TraceOut::new();
    let mut sizes: Vec<usize> = vec![0, 8, 16, 4088, 4096, 4104, 8192, 12288, 65536, (1 << 20) + 8, 7, 4095, 12, (1 << 21) + 8, 1 << 21, (1 << 21) + 4096 + 16];     // incl. just above the size of a huge page
    if thorough { sizes.extend([24, 4080, 4112, 40960, (1 << 22), (1 << 22) + 4096, 3, 100]); }
    let mut events = 0usize;
    // a missing file
    let missing = scratch("verif-mmap-missing");
    for mode in [MappingMode::ReadOnly, MappingMode::Mutable] {
        let r = guarded(|| MemoryMap::new(&missing, mode).is_ok());
        out.push(json!({"e": "m_new", "exists": false, "size": 0, "mode": format!("{:?}", mode), "res": match r { Ok(true) => "ok", Ok(false) => "err", Err(_) => "panic" }, "len": 0, "slice_eq": true, "mapped": 0, "id": 0}));
    }
    for (fi, size) in sizes.iter().enumerate() {
        let fname = scratch("verif-mmap");
        let content: Vec<u8> = (0..*size).map(|i| (i * 7 + fi) as u8).collect();
        std::fs::write(&fname, &content).unwrap();
        out.push(json!({"e": "m_file", "size": size}));
        let cycles = if thorough { rng.range(1, 5) } else { rng.range(1, 3) };
        for cyc in 0..cycles {
            let mode = if (fi + cyc) % 2 == 0 { MappingMode::ReadOnly } else { MappingMode::Mutable };
            // up to two live maps of the same file
            let mut live: Vec<(usize, MemoryMap)> = Vec::new();
            for id in 1..=(1 + (cyc % 2)) {
                let r = guarded(|| MemoryMap::new(&fname, mode));
                match r {
                    Ok(Ok(m)) => {
                        let len = m.len();
                        let slice_eq = match guarded(|| { let s: &[u64] = m.as_ref(); s.len() == size / 8 && s.iter().enumerate().all(|(i, w)| w.to_le_bytes() == content[8 * i..8 * i + 8]) }) { Ok(b) => b, Err(_) => false };
                        live.push((id, m));
                        out.push(json!({"e": "m_new", "exists": true, "size": size, "mode": format!("{:?}", mode), "res": "ok", "len": len, "slice_eq": slice_eq, "mapped": mapped_bytes(&fname), "id": id}));
                    },
                    Ok(Err(_)) => out.push(json!({"e": "m_new", "exists": true, "size": size, "mode": format!("{:?}", mode), "res": "err", "len": 0, "slice_eq": true, "mapped": mapped_bytes(&fname), "id": id})),
                    Err(_) => out.push(json!({"e": "m_new", "exists": true, "size": size, "mode": format!("{:?}", mode), "res": "panic", "len": 0, "slice_eq": false, "mapped": mapped_bytes(&fname), "id": id})),
                }
                events += 1;
            }
            // write through a mutable map: the change must be in the file afterwards
            let mut written: Option<(usize, u64)> = None;
            if mode == MappingMode::Mutable {
                if let Some((_, m)) = live.first_mut() {
                    if m.len() > 0 {
                        let idx = rng.below(m.len());
                        let val = rng.next();
                        unsafe { m.as_mut_slice()[idx] = val; }
                        written = Some((idx, val));
                    }
                }
            }
            // the environment may change while a map is alive: the file is shortened through another handle (the pages stay mapped; nobody
            // touches them), or the process locks the mapped pages in memory - a drop still releases the whole mapping
            let mut env = "plain";
            if *size >= 8192 && cyc == 0 && fi % 2 == 0 {
                if let Ok(f) = std::fs::OpenOptions::new().write(true).open(&fname) { if f.set_len(if fi % 4 == 0 { 0 } else { 4096 }).is_ok() { env = "file shortened while mapped"; } }
            } else if *size >= 4096 && cyc == 0 {
                if let Some((_, m)) = live.first() { let s: &[u64] = m.as_ref(); if unsafe { libc::mlock(s.as_ptr() as *const libc::c_void, s.len() * 8) } == 0 { env = "pages locked in memory"; } }
            }
            while let Some((id, m)) = live.pop() {
                // a map goes away at the end of a scope - or while a panic unwinds through its owner
                let how = if (fi + cyc + id) % 3 == 0 { "unwind" } else { "scope" };
                if how == "unwind" { let _ = std::panic::catch_unwind(std::panic::AssertUnwindSafe(move || { let _owner = m; panic!("unwinding through the owner of a map") })); }
                else { drop(m); }
                out.push(json!({"e": "m_drop", "id": id, "how": how, "env": env, "mapped": mapped_bytes(&fname)}));
                events += 1;
            }
            if env == "file shortened while mapped" { std::fs::write(&fname, &content).unwrap(); written = None; }
            if let Some((idx, val)) = written {
                let now = std::fs::read(&fname).unwrap();
                let ok = now.len() == *size && now[8 * idx..8 * idx + 8] == val.to_le_bytes();
                out.push(json!({"e": "m_written", "in_file": ok}));
                std::fs::write(&fname, &content).unwrap();
            }
        }
        // the same file under other names that open() accepts: through a symbolic link, with . and .. components, relative to the
        // working directory, and - last, because the file is unlinked for it - through /proc/self/fd of an open descriptor
        if *size > 0 && size % 8 == 0 && fi % 2 == 1 {
            let dir = fname.parent().unwrap().to_path_buf();
            let base = fname.file_name().unwrap().to_os_string();
            let link = scratch("verif-mmap-link");
            let _ = std::os::unix::fs::symlink(&fname, &link);
            let dotted = dir.join(".").join("..").join(dir.file_name().unwrap()).join(&base);
            let cwd = std::env::current_dir().unwrap();
            let keep = std::fs::File::open(&fname).unwrap();
            let procfd = PathBuf::from(format!("/proc/self/fd/{}", std::os::unix::io::AsRawFd::as_raw_fd(&keep)));
            for (vi, variant) in ["symlink", "dotted", "relative", "procfd"].iter().enumerate() {
                let name: PathBuf = match *variant { "symlink" => link.clone(), "dotted" => dotted.clone(), "relative" => PathBuf::from(&base), _ => procfd.clone() };
                if *variant == "relative" { std::env::set_current_dir(&dir).unwrap(); }
                if *variant == "procfd" { std::fs::remove_file(&fname).unwrap(); }
                let mode = if vi % 2 == 0 { MappingMode::ReadOnly } else { MappingMode::Mutable };
                let r = guarded(|| MemoryMap::new(&name, mode));
                if *variant == "relative" { std::env::set_current_dir(&cwd).unwrap(); }
                let (res, len, slice_eq, m) = match r {
                    Ok(Ok(m)) => { let len = m.len(); let eq = guarded(|| { let s: &[u64] = m.as_ref(); s.len() == size / 8 && s.iter().enumerate().all(|(i, w)| w.to_le_bytes() == content[8 * i..8 * i + 8]) }).unwrap_or(false); ("ok", len, eq, Some(m)) },
                    Ok(Err(_)) => ("err", 0, true, None),
                    Err(_) => ("panic", 0, false, None),
                };
                out.push(json!({"e": "m_new", "exists": true, "size": size, "mode": format!("{:?}", mode), "res": res, "len": len, "slice_eq": slice_eq, "mapped": mapped_bytes(&fname), "id": 1, "name": variant}));
                drop(m);
                out.push(json!({"e": "m_drop", "id": 1, "how": "scope", "mapped": mapped_bytes(&fname)}));
                events += 2;
            }
            drop(keep);
            let _ = std::fs::remove_file(&link);
        }
        let _ = std::fs::remove_file(&fname);
    }
    out.write(path);
    json!({"files": sizes.len(), "queries": events, "events": out.lines.len(), "sample": serde_json::from_str::<Value>(&out.lines[4]).unwrap()})
}
