//! Bitvectors: construction routes, query executor, replay of TLC-generated cases, recorders.

use crate::common::*;
use serde_json::{json, Value};
use simple_sds::bit_vector::BitVector;
use simple_sds::ops::{BitVec, PredSucc, Rank, Select, SelectZero};
use simple_sds::raw_vector::{AccessRaw, PushRaw, RawVector};
use simple_sds::rl_vector::{RLBuilder, RLVector};
use simple_sds::sparse_vector::{SparseBuilder, SparseVector};
use std::convert::TryFrom;

pub enum AnyBv {
    Plain(BitVector),
    Sparse(SparseVector),
    RL(RLVector),
}

pub type Runs = Vec<(usize, usize)>;

pub fn parse_runs(v: &Value) -> Runs {
    v.as_array().unwrap().iter().map(|r| (r[0].as_u64().unwrap() as usize, r[1].as_u64().unwrap() as usize)).collect()
}

pub fn runs_json(runs: &Runs) -> Value {
    Value::Array(runs.iter().map(|(s, l)| json!([s, l])).collect())
}

/// cum[k] = number of set bits before run k (logged for the logarithmic reference operators).
pub fn cum_json(runs: &Runs) -> Value {
    let mut c = 0usize;
    let mut v: Vec<Value> = Vec::with_capacity(runs.len());
    for (_, l) in runs.iter() { v.push(json!(c)); c += l; }
    Value::Array(v)
}

pub fn ones_of(runs: &Runs) -> usize { runs.iter().map(|r| r.1).sum() }

pub fn positions(runs: &Runs) -> impl Iterator<Item = usize> + '_ {
    runs.iter().flat_map(|(s, l)| *s..(*s + *l))
}

/// Enables all support structures; the order of the enable_* calls is rotated by `order`.
fn enable_all(mut bv: BitVector, order: usize) -> BitVector {
    const PERMS: [[u8; 4]; 6] = [[0, 1, 2, 3], [2, 1, 0, 3], [1, 2, 0, 3], [3, 2, 0, 1], [2, 0, 1, 3], [0, 2, 3, 1]];
    for step in PERMS[order % 6].iter() {
        match step {
            0 => bv.enable_rank(),
            1 => bv.enable_select(),
            2 => bv.enable_select_zero(),
            _ => bv.enable_pred_succ(),
        }
    }
    bv
}

pub fn plain_raw(len: usize, runs: &Runs) -> BitVector {
    let mut raw = RawVector::with_len(len, false);
    for p in positions(runs) { raw.set_bit(p, true); }
    BitVector::from(raw)
}

pub fn sparse_builder(len: usize, runs: &Runs) -> SparseVector {
    let mut b = SparseBuilder::new(len, ones_of(runs)).unwrap();
    for p in positions(runs) { b.set(p); }
    SparseVector::try_from(b).unwrap()
}

pub fn rl_runs(len: usize, runs: &Runs) -> RLVector {
    let mut b = RLBuilder::new();
    for (s, l) in runs.iter() { b.try_set(*s, *l).unwrap(); }
    b.set_len(len);
    RLVector::from(b)
}

pub const PLAIN_ROUTES: [&str; 9] = ["raw", "push", "iter", "from_sparse", "from_rl", "copy_rl", "raw_shrunk", "raw_resized", "iter_inexact"];
pub const SPARSE_ROUTES: [&str; 5] = ["builder", "try_set", "extend", "from_plain", "from_rl"];
pub const RL_ROUTES: [&str; 7] = ["runs", "bits", "split", "set_len_steps", "zero_runs", "from_plain", "from_sparse"];

/// Builds a bitvector of the given type by the given public route.
pub fn build(kind: &str, route: &str, len: usize, runs: &Runs) -> AnyBv {
    match kind {
        "plain" => {
            let bv = match route {
                "raw" => plain_raw(len, runs),
                "raw_shrunk" => {
                    // the raw vector was longer (integers and bits pushed across word boundaries) and is popped back
                    use simple_sds::raw_vector::{PopRaw, PushRaw};
                    let mut raw = RawVector::with_len(len, false);
                    for p in positions(runs) { raw.set_bit(p, true); }
                    unsafe { raw.push_int(u64::MAX, 64); raw.push_int(u64::MAX, 37); }
                    for _ in 0..3 { raw.push_bit(true); }
                    for _ in 0..3 { raw.pop_bit(); }
                    unsafe { raw.pop_int(37); raw.pop_int(64); }
                    // ... and a set bit pushed and popped exactly at a word boundary
                    let pad = (64 - len % 64) % 64;
                    for _ in 0..pad { raw.push_bit(true); }
                    raw.push_bit(true);
                    raw.pop_bit();
                    for _ in 0..pad { raw.pop_bit(); }
                    BitVector::from(raw)
                },
                "raw_resized" => {
                    // grown run by run with RawVector::resize (fill value false for the gaps, true for the runs), often within one word
                    let mut raw = RawVector::new();
                    for (s, l) in runs.iter() { raw.resize(*s, false); raw.resize(*s + *l, true); }
                    raw.resize(len, false);
                    raw.resize(len + 70, true);     // overshoot with ones, then shrink back: the tail must be cleared again
                    raw.resize(len, false);
                    BitVector::from(raw)
                },
                "push" => {
                    let mut raw = RawVector::new();
                    let mut next = 0;
                    for (s, l) in runs.iter() {
                        while next < *s { raw.push_bit(false); next += 1; }
                        for _ in 0..*l { raw.push_bit(true); next += 1; }
                    }
                    while next < len { raw.push_bit(false); next += 1; }
                    BitVector::from(raw)
                },
                "iter" => {
                    let mut bits = vec![false; len];
                    for p in positions(runs) { bits[p] = true; }
                    bits.into_iter().collect::<BitVector>()
                },
                "iter_inexact" => {
                    // collect() from iterators whose size_hint is not exact: lower bound 0 (filter), and an exact prefix chained with a filtered suffix
                    let mut bits = vec![false; len];
                    for p in positions(runs) { bits[p] = true; }
                    if len % 2 == 0 { bits.into_iter().filter(|_| true).collect::<BitVector>() }
                    else { let tail = bits.split_off(len / 2); bits.into_iter().chain(tail.into_iter().filter(|_| true)).collect::<BitVector>() }
                },
                "from_sparse" => BitVector::from(sparse_builder(len, runs)),
                "from_rl" => BitVector::from(rl_runs(len, runs)),
                "copy_rl" => BitVector::copy_bit_vec(&rl_runs(len, runs)),
                _ => panic!("TOOL-ERROR: unknown plain route {}", route),
            };
            let order = PLAIN_ROUTES.iter().position(|r| r == &route).unwrap_or(0);
            AnyBv::Plain(enable_all(bv, order))
        },
        "sparse" => {
            let sv = match route {
                "builder" => sparse_builder(len, runs),
                "try_set" => {
                    let mut b = SparseBuilder::new(len, ones_of(runs)).unwrap();
                    for p in positions(runs) { b.try_set(p).unwrap(); }
                    SparseVector::try_from(b).unwrap()
                },
                "extend" => {
                    let mut b = SparseBuilder::new(len, ones_of(runs)).unwrap();
                    b.extend(positions(runs));
                    SparseVector::try_from(b).unwrap()
                },
                "from_plain" => SparseVector::from(plain_raw(len, runs)),
                "from_rl" => SparseVector::copy_bit_vec(&rl_runs(len, runs)),
                _ => panic!("TOOL-ERROR: unknown sparse route {}", route),
            };
            AnyBv::Sparse(sv)
        },
        "rl" => {
            let rv = match route {
                "runs" => rl_runs(len, runs),
                "bits" => {
                    let mut b = RLBuilder::new();
                    for p in positions(runs) { b.try_set(p, 1).unwrap(); }
                    b.set_len(len);
                    RLVector::from(b)
                },
                "split" => {
                    // Every run of length >= 2 is given as two adjacent runs that must be merged.
                    let mut b = RLBuilder::new();
                    for (s, l) in runs.iter() {
                        if *l >= 2 {
                            let first = *l / 2;
                            b.try_set(*s, first).unwrap();
                            b.try_set(*s + first, *l - first).unwrap();
                        } else {
                            b.try_set(*s, *l).unwrap();
                        }
                    }
                    b.set_len(len);
                    RLVector::from(b)
                },
                "zero_runs" => {
                    // Zero-length runs and set_len calls that do not extend (documented no-ops) are issued between the two halves of every run.
                    let mut b = RLBuilder::new();
                    for (s, l) in runs.iter() {
                        let first = (*l + 1) / 2;
                        b.try_set(*s, first).unwrap();
                        b.try_set(*s + *l + 3, 0).unwrap();
                        b.try_set(*s + first, 0).unwrap();
                        // set_len to the current or a smaller length is documented to have no effect
                        b.set_len(*s + first);
                        b.set_len(*s);
                        if *l > first { b.try_set(*s + first, *l - first).unwrap(); }
                    }
                    b.set_len(len);
                    RLVector::from(b)
                },
                "set_len_steps" => {
                    // The length is announced before every run (set_len only ever extends).
                    let mut b = RLBuilder::new();
                    for (s, l) in runs.iter() {
                        b.set_len(*s);
                        b.try_set(*s, *l).unwrap();
                    }
                    b.set_len(len);
                    b.set_len(len / 2);
                    RLVector::from(b)
                },
                "from_plain" => RLVector::from(plain_raw(len, runs)),
                "from_sparse" => RLVector::copy_bit_vec(&sparse_builder(len, runs)),
                _ => panic!("TOOL-ERROR: unknown rl route {}", route),
            };
            AnyBv::RL(rv)
        },
        _ => panic!("TOOL-ERROR: unknown bitvector type {}", kind),
    }
}

pub fn routes_for(kind: &str) -> &'static [&'static str] {
    match kind {
        "plain" => &PLAIN_ROUTES,
        "sparse" => &SPARSE_ROUTES,
        "rl" => &RL_ROUTES,
        _ => panic!("TOOL-ERROR: unknown bitvector type {}", kind),
    }
}

/// One query through the public traits. Panics are caught by the caller.
pub fn query_generic<'a, T>(bv: &'a T, op: &str, a: usize) -> Value
where T: BitVec<'a> + Rank<'a> + Select<'a> + SelectZero<'a> + PredSucc<'a> {
    match op {
        "len" => enc(bv.len()),
        "ones" => enc(bv.count_ones()),
        "zeros" => enc(bv.count_zeros()),
        "get" => json!(bv.get(a) as usize),
        "rank" => enc(bv.rank(a)),
        "rank0" => enc(bv.rank_zero(a)),
        "sel" => enc_opt(bv.select(a)),
        "sel0" => enc_opt(bv.select_zero(a)),
        "seli" => enc_pair(bv.select_iter(a).next()),
        "sel0i" => enc_pair(bv.select_zero_iter(a).next()),
        "pred" => enc_pair(bv.predecessor(a).next()),
        "succ" => enc_pair(bv.successor(a).next()),
        // the item after the first one of the returned iterator
        "seli2" => enc_pair(bv.select_iter(a).nth(1)),
        "sel0i2" => enc_pair(bv.select_zero_iter(a).nth(1)),
        "pred2" => enc_pair(bv.predecessor(a).nth(1)),
        "succ2" => enc_pair(bv.successor(a).nth(1)),
        // ... reached by stepping
        "pred3" => enc_pair({ let mut it = bv.predecessor(a); it.next(); it.next(); it.next() }),
        "succ3" => enc_pair({ let mut it = bv.successor(a); it.next(); it.next(); it.next() }),
        _ => panic!("TOOL-ERROR: unknown query {}", op),
    }
}

/// Result token for a panic of the code under test (type-compatible with the defined results).
pub const PANIC_TOKEN: i64 = -8;

pub fn is_pair_op(op: &str) -> bool {
    matches!(op, "seli" | "sel0i" | "pred" | "succ" | "seli2" | "sel0i2" | "pred2" | "succ2" | "pred3" | "succ3")
}

impl AnyBv {
    pub fn query(&self, op: &str, a: usize) -> Value {
        let r = guarded(|| match self {
            AnyBv::Plain(b) => query_generic(b, op, a),
            AnyBv::Sparse(b) => query_generic(b, op, a),
            AnyBv::RL(b) => query_generic(b, op, a),
        });
        match r {
            Ok(v) => v,
            Err(msg) => {
                LAST_PANIC.with(|p| *p.borrow_mut() = msg);
                if is_pair_op(op) { json!([PANIC_TOKEN, PANIC_TOKEN]) } else { json!(PANIC_TOKEN) }
            },
        }
    }
}

thread_local! {
    pub static LAST_PANIC: std::cell::RefCell<String> = std::cell::RefCell::new(String::new());
}

/// Items of the run iterator with the running offset / rank / rank_zero after each item.
pub fn run_iter_items(rv: &RLVector) -> Value {
    let r = guarded(|| {
        let mut it = rv.run_iter();
        let mut v: Vec<Value> = Vec::new();
        while let Some((s, l)) = it.next() {
            v.push(json!([enc(s), enc(l), enc(it.offset()), enc(it.rank()), enc(it.rank_zero())]));
            if v.len() > 5_000_000 { break; }
        }
        // The iterator is fused.
        if it.next().is_some() { v.push(json!([-8, -8, -8, -8, -8])); }
        Value::Array(v)
    });
    match r { Ok(v) => v, Err(msg) => { LAST_PANIC.with(|p| *p.borrow_mut() = msg); json!([[-8, -8, -8, -8, -8]]) } }
}

/// Queries whose answer arrays appear in a generated case, with the query they map to.
/// `seli`/`sel0i` reuse the `sel`/`sel0` answers: the first item of the iterator is (r, select(r)).
const CASE_OPS: [&str; 7] = ["get", "rank", "rank0", "sel", "sel0", "pred", "succ"];

/// Replays one generated bitvector case on every requested (type, route).
pub fn replay_case(case: &Value, kinds: &[String], tally: &mut Tally) {
    let len = case["len"].as_u64().unwrap() as usize;
    let runs = parse_runs(&case["runs"]);
    let ones = ones_of(&runs);
    let args = case["args"].as_array().unwrap();
    let content_key = hstr(&format!("{}:{}", len, case["runs"]));
    tally.cases += 1;
    for kind in kinds.iter() {
        for route in routes_for(kind).iter() {
            if (*route == "iter" || *route == "iter_inexact") && len > (1 << 22) { continue; }
            let built = guarded(|| build(kind, route, len, &runs));
            let ctx0 = |op: &str, arg: &Value| json!({"kind": "bv", "type": kind, "route": route, "len": len, "runs": case["runs"], "op": op, "arg": arg});
            let bv = match built {
                Ok(b) => b,
                Err(msg) => {
                    tally.check(hkey(&[content_key, hstr(kind), hstr(route)]), true, &|| ctx0("build", &json!(0)), &json!("ok"), &json!(format!("PANIC: {}", msg)));
                    continue;
                },
            };
            let nontrivial = len > 0;
            for (op, exp) in [("len", len), ("ones", ones), ("zeros", len - ones)] {
                let got = bv.query(op, 0);
                tally.check(hkey(&[content_key, hstr(op)]), nontrivial, &|| ctx0(op, &json!(0)), &json!(exp), &got);
            }
            if let (AnyBv::RL(rv), Some(exp)) = (&bv, case.get("runiter")) {
                let got = run_iter_items(rv);
                tally.check(hkey(&[content_key, hstr("runiter")]), nontrivial, &|| ctx0("run_iter", &json!(0)), exp, &got);
            }
            for op in CASE_OPS.iter() {
                let answers = match case.get(*op) { Some(a) => a.as_array().unwrap(), None => continue };
                for (j, arg) in args.iter().enumerate() {
                    let expected = &answers[j];
                    // -7 marks "not defined for this argument" (get at or past len, rank_zero past len).
                    if expected.as_i64() == Some(-7) { continue; }
                    let concrete: Vec<usize> = if arg.as_i64() == Some(-1) {
                        let mut v: Vec<usize> = HUGE_TOKENS.iter().map(|t| t.1).collect();
                        v.push(2 * len + 7);
                        v
                    } else { vec![dec_arg(arg)] };
                    for a in concrete {
                        let got = bv.query(op, a);
                        if !tally.check(hkey(&[content_key, hstr(op), a as u64]), nontrivial, &|| ctx0(op, &json!(a.to_string())), expected, &got) && got.to_string().contains("-8") {
                            LAST_PANIC.with(|p| tally.notes.push(json!(format!("panic: {}", p.borrow()))));
                        }
                        // Iterator-positioning variants share the answer of select / select_zero.
                        if *op == "sel" || *op == "sel0" {
                            let iop = if *op == "sel" { "seli" } else { "sel0i" };
                            let got = bv.query(iop, a);
                            let exp_pair = if expected.as_i64() == Some(-1) { json!([-1, -1]) } else { json!([enc(a), expected]) };
                            tally.check(hkey(&[content_key, hstr(iop), a as u64]), nontrivial, &|| ctx0(iop, &json!(a.to_string())), &exp_pair, &got);
                        }
                    }
                }
            }
        }
    }
    if tally.samples.len() < 3 && len > 2 {
        tally.sample(json!({"len": len, "runs": case["runs"], "args": args.len(), "types": kinds}));
    }
}

//-----------------------------------------------------------------------------
// Recording: regime-directed and random contents, batched query events.

fn bit_len(x: usize) -> usize { 64 - ((x as u64) | 1).leading_zeros() as usize }

/// Normalizes a list of (start, len) into maximal runs inside `0..len`.
pub fn normalize(len: usize, mut runs: Runs) -> Runs {
    runs.retain(|r| r.1 > 0 && r.0 < len);
    runs.sort();
    let mut out: Runs = Vec::new();
    for (s, l) in runs {
        let e = (s + l).min(len);
        if let Some(last) = out.last_mut() {
            if s <= last.0 + last.1 {
                let ne = e.max(last.0 + last.1);
                last.1 = ne - last.0;
                continue;
            }
        }
        out.push((s, e - s));
    }
    out
}

pub fn complement(len: usize, runs: &Runs) -> Runs {
    let mut out = Vec::new();
    let mut prev = 0;
    for (s, l) in runs.iter() {
        if *s > prev { out.push((prev, *s - prev)); }
        prev = s + l;
    }
    if len > prev { out.push((prev, len - prev)); }
    out
}

fn random_positions(rng: &mut Rng, len: usize, count: usize) -> Runs {
    let mut v: Runs = (0..count).map(|_| (rng.below(len), 1)).collect();
    v.push((0, 0));
    normalize(len, v)
}

fn dense_uniform(rng: &mut Rng, len: usize, per_mille: usize) -> Runs {
    let mut v: Runs = Vec::new();
    for i in 0..len {
        if rng.chance(per_mille, 1000) { v.push((i, 1)); }
    }
    normalize(len, v)
}

fn clustered(rng: &mut Rng, len: usize, mean_gap: usize, mean_run: usize) -> Runs {
    let mut v: Runs = Vec::new();
    let mut pos = if rng.chance(1, 3) { 0 } else { rng.geo(mean_gap) };
    while pos < len {
        let l = rng.geo(mean_run);
        v.push((pos, l));
        pos += l + rng.geo(mean_gap);
    }
    normalize(len, v)
}

/// Contents aimed at the sampling regimes of the plain bitvector (DESIGN C01: R1..R6).
pub fn plain_regimes(rng: &mut Rng, thorough: bool) -> Vec<(String, usize, Runs)> {
    let mut out: Vec<(String, usize, Runs)> = Vec::new();
    let big = if thorough { 1 << 21 } else { 1 << 18 };
    let reps = if thorough { 6 } else { 1 };
    for rep in 0..reps {
        // R1: sparse tail => long superblocks for the ones.
        let len = rng.range(1 << 17, big);
        let cnt = rng.range(2, 50);
        let r1 = random_positions(rng, len, cnt);
        out.push((format!("R1.{}", rep), len, r1.clone()));
        // R2: the complement => long superblocks for the zeros.
        out.push((format!("R2.{}", rep), len, complement(len, &r1)));
        // R3: a dense cluster (short superblocks) followed by a sparse tail (long), and the reverse.
        let len = rng.range(1 << 17, big);
        let cl = rng.range(4097, 9000);
        let mut runs = vec![(rng.below(1000), cl)];
        runs.extend(random_positions(rng, len, 20).into_iter().filter(|r| r.0 > 20000));
        let r3 = normalize(len, runs);
        out.push((format!("R3a.{}", rep), len, r3.clone()));
        out.push((format!("R3a-comp.{}", rep), len, complement(len, &r3)));
        let mut runs: Runs = random_positions(rng, len - 30000, 20);
        runs.push((len - 20000, cl));
        let r3b = normalize(len, runs);
        out.push((format!("R3b.{}", rep), len, r3b.clone()));
        out.push((format!("R3b-comp.{}", rep), len, complement(len, &r3b)));
        // R5: clustered runs on a long vector: mixes long and short superblocks.
        let len = rng.range(1 << 17, big);
        out.push((format!("R5.{}", rep), len, clustered(rng, len, 3000, 700)));
    }
    // R7: evenly spaced ones so that SEVERAL superblocks in a row are long (pointer arithmetic into the
    // explicit-offset array beyond its first superblock); and the complement for the zeros.
    for rep in 0..(if thorough { 3 } else { 1 }) {
        let sbs = rng.range(3, 4);
        let len0 = 1usize << (18 + rep % 2);
        let thr = bit_len(len0 * 2).pow(4);
        let spacing = thr / 4096 + 1 + rng.below(3);
        let count = sbs * 4096 + rng.below(3000);
        let len = count * spacing + rng.below(spacing);
        let runs: Runs = (0..count).map(|i| (i * spacing + (i % 3).min(spacing - 1), 1)).collect();
        let runs = normalize(len, runs);
        out.push((format!("R7.{}", rep), len, runs.clone()));
        out.push((format!("R7-comp.{}", rep), len, complement(len, &runs)));
        // R8: long superblock(s), then a dense run of short superblocks, then long again.
        let mut runs2: Runs = (0..5000).map(|i| (i * spacing, 1)).collect();
        let base = 5000 * spacing + 100;
        runs2.push((base, 9000));
        runs2.extend((0..6000).map(|i| (base + 9500 + i * spacing, 1)));
        let len2 = base + 9500 + 6000 * spacing + 77;
        let runs2 = normalize(len2, runs2);
        out.push((format!("R8.{}", rep), len2, runs2.clone()));
        out.push((format!("R8-comp.{}", rep), len2, complement(len2, &runs2)));
    }
    // R4: dense uniform.
    for (i, pm) in [10usize, 500, 990].iter().enumerate() {
        let len = if thorough { rng.range(1 << 13, 1 << 15) } else { rng.range(1 << 12, 1 << 13) };
        out.push((format!("R4.{}", i), len, dense_uniform(rng, len, *pm)));
    }
    // R6: lengths at word / block / superblock boundaries.
    let bases = if thorough { vec![64usize, 512, 4096, 8192, 65536] } else { vec![64usize, 512, 4096] };
    for b in bases {
        for d in [0usize, 1, 2] {
            let len = b * rng.range(1, 3) + d - 1;
            let pm = *rng.pick(&[30usize, 500, 970]);
            out.push((format!("R6.{}.{}", b, d), len, dense_uniform(rng, len, pm)));
        }
    }
    out
}

/// Select ranks aimed at superblock and block starts, run edges, and random ones.
fn select_args(rng: &mut Rng, count: usize, extra: usize) -> Vec<usize> {
    let mut v: Vec<usize> = Vec::new();
    let mut k = 0;
    while k * 4096 <= count + 4096 && v.len() < 400 {
        for d in [0usize, 1, 2, 63, 64, 65, 4095] { v.push(k * 4096 + d); }
        k += 1;
    }
    for _ in 0..extra { v.push(rng.below(count + 2)); }
    v.extend([0, 1, count.saturating_sub(1), count, count + 1, 2 * count]);
    v.sort();
    v.dedup();
    v
}

fn position_args(rng: &mut Rng, len: usize, runs: &Runs, extra: usize) -> Vec<usize> {
    let mut v: Vec<usize> = vec![0, 1, len.saturating_sub(1), len, len + 1, 2 * len];
    let step = (runs.len() / 60).max(1);
    for (s, l) in runs.iter().step_by(step) {
        for p in [s.saturating_sub(1), *s, s + 1, s + l - 1, s + l, s + l + 1] { v.push(p); }
    }
    for b in [64usize, 512, 4096] {
        let k = rng.below(len / b + 1);
        for d in [0usize, 1] { v.push((k * b + d).saturating_sub(1)); v.push(k * b + d); }
    }
    for _ in 0..extra { v.push(rng.below(len + 2)); }
    v.sort();
    v.dedup();
    v
}

/// Counts select queries that land strictly inside a long superblock (offset > 0), as observed in the
/// real select support structure (bit 0 of the superblock's pointer is 0 for a long superblock).
/// `None` if the serialized object cannot be read with the layout the format document gives (the regime counter is then unavailable;
/// that the bytes follow the document is C07's business, not a reason for this recorder to fail).
fn long_hits(bv: &AnyBv, which: usize, count: usize, ranks: &[usize]) -> Option<usize> {
    let plain = match bv { AnyBv::Plain(b) => b, _ => return Some(0) };
    guarded(|| {
        let elems = crate::layout::to_elements(&crate::layout::to_bytes(plain));
        let l = crate::layout::Cursor::new(&elems).bit();
        let sel = match &l.opts[which] { Some(e) => crate::layout::select_layout(e), None => return 0 };
        let mut hits = 0;
        for r in ranks.iter() {
            if *r >= count || r % 4096 == 0 { continue; }
            if sel.0.get(2 * (r / 4096) + 1) & 1 == 0 { hits += 1; }
        }
        hits
    }).ok()
}

/// Emits the events of one object: a `def` event and batched query events.
pub fn record_object(out: &mut TraceOut, rng: &mut Rng, label: &str, kind: &str, route: &str, len: usize, runs: &Runs, extra: usize, stats: &mut Value) {
    let bv = match guarded(|| build(kind, route, len, runs)) {
        Ok(b) => b,
        Err(msg) => {
            out.push(json!({"e": "def", "label": label, "t": kind, "route": route, "len": len, "runs": runs_json(runs), "cum": cum_json(runs), "built": format!("PANIC: {}", msg)}));
            return;
        },
    };
    out.push(json!({"e": "def", "label": label, "t": kind, "route": route, "len": len, "runs": runs_json(runs), "cum": cum_json(runs), "built": "ok",
        "obs": [bv.query("len", 0), bv.query("ones", 0), bv.query("zeros", 0)]}));
    let def_line = out.lines.len();      // 1-based line number of the def event: later events refer to it
    let ones = ones_of(runs);
    let pos = position_args(rng, len, runs, extra);
    let sel = select_args(rng, ones, extra);
    let sel0 = select_args(rng, len - ones, extra);
    let huge: Vec<usize> = HUGE_TOKENS.iter().map(|t| t.1).collect();
    let mut emit = |op: &str, args: &Vec<usize>, with_huge: bool, limit: Option<usize>| {
        let mut all: Vec<usize> = args.iter().copied().filter(|a| limit.map(|l| *a < l).unwrap_or(true) && (*a as u64) <= TLC_MAX).collect();
        if with_huge { all.extend(huge.iter().copied()); }
        for chunk in all.chunks(64) {
            let rs: Vec<Value> = chunk.iter().map(|a| bv.query(op, *a)).collect();
            let as_: Vec<Value> = chunk.iter().map(|a| enc_arg(*a)).collect();
            out.push(json!({"e": "q", "d": def_line, "op": op, "a": as_, "r": rs}));
        }
        stats["queries"] = json!(stats["queries"].as_u64().unwrap_or(0) + all.len() as u64);
    };
    emit("get", &pos, false, Some(len));
    emit("rank", &pos, true, None);
    emit("rank0", &pos, false, Some(len + 1));
    emit("sel", &sel, true, None);
    emit("seli", &sel, true, None);
    emit("sel0", &sel0, true, None);
    emit("sel0i", &sel0, true, None);
    emit("pred", &pos, true, None);
    emit("succ", &pos, true, None);
    // the iterators returned by the queries keep going: their second and third items
    emit("pred2", &pos, true, None);
    emit("succ2", &pos, true, None);
    emit("pred3", &pos, false, None);
    emit("succ3", &pos, false, None);
    emit("seli2", &sel, false, None);
    emit("sel0i2", &sel0, false, None);
    if let AnyBv::RL(rv) = &bv {
        out.push(json!({"e": "runs", "d": def_line, "items": run_iter_items(rv)}));
    }
    if let AnyBv::Sparse(sv) = &bv {
        let elems = crate::layout::to_elements(&crate::layout::to_bytes(sv));
        let (_, _, low) = crate::layout::sparse_layout(&elems);
        let key = format!("w{}", low.width);
        stats["widths"][key] = json!(stats["widths"][format!("w{}", low.width)].as_u64().unwrap_or(0) + 1);
    }
    if kind == "plain" {
        match (long_hits(&bv, 1, ones, &sel), long_hits(&bv, 2, len - ones, &sel0)) {
            (Some(h1), Some(h0)) => {
                stats["long_one_hits"] = json!(stats["long_one_hits"].as_u64().unwrap_or(0) + h1 as u64);
                stats["long_zero_hits"] = json!(stats["long_zero_hits"].as_u64().unwrap_or(0) + h0 as u64);
            },
            _ => { stats["layout_unreadable"] = json!(stats["layout_unreadable"].as_u64().unwrap_or(0) + 1); },
        }
    }
}

/// Records the plain-bitvector regime traces (C01).
pub fn record_plain(seed: u64, thorough: bool, path: &str) -> Value {
    let mut rng = Rng::new(seed);
    let mut out = TraceOut::new();
    let mut stats = json!({"objects": 0, "queries": 0, "widths": {}});
    let contents = plain_regimes(&mut rng, thorough);
    for (i, (label, len, runs)) in contents.iter().enumerate() {
        // All routes on the small ones; rotate routes on the big ones.
        let routes: Vec<&str> = if *len <= (1 << 15) { PLAIN_ROUTES.to_vec() } else { vec![PLAIN_ROUTES[i % PLAIN_ROUTES.len()], "raw"] };
        let mut seen = std::collections::HashSet::new();
        for route in routes {
            if !seen.insert(route) { continue; }
            let extra = if thorough { 60 } else { 25 };
            record_object(&mut out, &mut rng, label, "plain", route, *len, runs, extra, &mut stats);
            stats["objects"] = json!(stats["objects"].as_u64().unwrap() + 1);
        }
    }
    out.write(path);
    stats["events"] = json!(out.lines.len());
    stats["sample"] = serde_json::from_str(&out.lines[out.lines.len().min(2) - 1]).unwrap();
    stats
}

//-----------------------------------------------------------------------------
// Sparse and run-length recorders (universes below 2^31; larger ones are in the U64 traces).

fn distinct_positions(rng: &mut Rng, n: usize, m: usize) -> Runs {
    let mut set = std::collections::BTreeSet::new();
    while set.len() < m.min(n) { set.insert(rng.below(n)); }
    normalize(n, set.into_iter().map(|p| (p, 1)).collect())
}

/// Contents aimed at the parameter regimes of the Elias-Fano vector (DESIGN C02: E1..E4).
pub fn sparse_regimes(rng: &mut Rng, thorough: bool) -> Vec<(String, usize, Runs)> {
    let mut out: Vec<(String, usize, Runs)> = Vec::new();
    // E1: sweep of the low-part width: n = m * 2^w / ln 2.
    let widths: Vec<usize> = if thorough { (1..=22).collect() } else { vec![1, 2, 3, 5, 8, 11, 13, 16, 19, 22] };
    for w in widths {
        let m = if thorough { rng.range(150, 600) } else { rng.range(60, 160) };
        let n = ((m as f64) * (1u64 << w) as f64 / std::f64::consts::LN_2) as usize;
        let n = n.min((1usize << 31) - 8);
        let mut runs = distinct_positions(rng, n, m - 2);
        // E2: positions on bucket boundaries and at both ends of the universe.
        let b = 1usize << w;
        let k = rng.below(n / b + 1);
        runs.extend([(0, 1), (n - 1, 1), ((k * b).min(n - 1), 1), ((k * b + 1).min(n - 1), 1), ((k * b).saturating_sub(1), 1)]);
        out.push((format!("E1.w{}", w), n, normalize(n, runs)));
    }
    // E3: select_zero stress: more than 16 ones in adversarial layouts.
    let n = rng.range(3000, 9000);
    out.push(("E3.longruns".to_string(), n, clustered(rng, n, 40, 60)));
    out.push(("E3.alternating".to_string(), 2001, normalize(2001, (0..1000).map(|i| (2 * i + 1, 1)).collect())));
    out.push(("E3.onebucket".to_string(), 100000, normalize(100000, (0..40).map(|i| (51200 + i, 1)).collect())));
    out.push(("E3.perbucket".to_string(), 6400, normalize(6400, (0..100).map(|i| (64 * i + (i % 7), 1)).collect())));
    let mut runs: Runs = vec![(0, 300)];
    runs.extend((0..30).map(|i| (1000 + 97 * i, 1 + i % 3)));
    runs.push((7000, 500));
    out.push(("E3.mixed".to_string(), 7500, normalize(7500, runs)));
    // E5: layouts that make the select structures of the `high` bitvector use long superblocks:
    // two clusters of ones separated by a huge gap (high.select), and a fully dense region of more than
    // 4096 buckets inside an otherwise sparse vector (high.select_zero).
    let n = 1usize << 30;
    out.push(("E5.clusters".to_string(), n, vec![(1000, 50_000), (n - 60_000, 50_000)]));
    let n = 1usize << 27;
    let mut runs: Runs = vec![(1 << 25, 540_000)];
    runs.extend(random_positions(rng, n, 30));
    out.push(("E5.denseregion".to_string(), n, normalize(n, runs)));
    // E6: one bucket holding far more values than any search threshold (33 .. 100 values two apart, so that every member is a
    // run edge and is queried), in an otherwise nearly empty universe (wide low parts); a second such bucket at the very end.
    for (k, gap) in [(33usize, 2usize), (40, 2), (48, 3), (57, 2), (100, 5)] {
        let n = 1usize << 24;
        let base = (5usize << 18) + 1000;
        let mut runs: Runs = (0..k).map(|j| (base + gap * j, 1)).collect();
        runs.extend([(3, 1), (n - 1, 1)]);
        if k == 48 { runs.extend((0..35).map(|j| (n - 200 + 2 * j, 1))); }
        out.push((format!("E6.bigbucket{}", k), n, normalize(n, runs)));
    }
    // E4: empty and full.
    for n in [0usize, 1, 64, 5000, if thorough { 1 << 24 } else { 1 << 20 }] {
        out.push((format!("E4.empty{}", n), n, Vec::new()));
    }
    for n in [1usize, 2, 63, 64, 65, if thorough { 5000 } else { 1300 }] {
        out.push((format!("E4.full{}", n), n, vec![(0, n)]));
    }
    // single bit at the first / last element
    let n = rng.range(100000, 1 << 30);
    out.push(("E4.first".to_string(), n, vec![(0, 1)]));
    out.push(("E4.last".to_string(), n, vec![(n - 1, 1)]));
    out
}

/// Contents aimed at the encoding regimes of the run-length vector (DESIGN C03: L1, L2, L4).
pub fn rl_regimes(rng: &mut Rng, thorough: bool) -> Vec<(String, usize, Runs)> {
    let mut out: Vec<(String, usize, Runs)> = Vec::new();
    // L6: a block that is nearly full (24 .. 31 runs of two code units each) and then a run whose gap or length needs 5, 6, 8 or 12 code
    // units: the run must go to the next block whole
    for (short, gap, rl) in [(24usize, 4096usize, 1usize), (27, 4095, 3), (28, (1 << 23) + 5, 2), (29, 1 << 15, 4096), (30, 1 << 35, 1), (31, 5, 1 << 17), (26, 1 << 12, 1 << 12)] {
        let mut runs: Runs = Vec::new();
        let mut pos = 0;
        for i in 0..short { pos += 1 + i % 7; runs.push((pos, 1 + i % 8)); pos += 1 + i % 8; }
        pos += gap; runs.push((pos, rl)); pos += rl;
        for i in 0..5 { pos += 2 + i; runs.push((pos, 3)); pos += 3; }
        if pos + 9 <= (1usize << 31) - 8 { out.push((format!("L6.nearfull{}", short), pos + 9, runs)); }
    }
    // L1: 1, 8, 9, 64, 500 blocks of short runs (about 16 runs of 2 + 2 code units per block).
    let block_counts: Vec<usize> = if thorough { vec![1, 2, 8, 9, 10, 64, 65, 500] } else { vec![1, 8, 9, 10, 70] };
    for blocks in block_counts {
        let runs_wanted = blocks * 16 - rng.below(8);
        let mut runs: Runs = Vec::new();
        let mut pos = if rng.chance(1, 2) { 0 } else { rng.range(1, 50) };
        for _ in 0..runs_wanted {
            let l = rng.range(9, 60);
            runs.push((pos, l));
            pos += l + rng.range(8, 60);
        }
        let len = if rng.chance(1, 2) { pos - rng.range(8, 60) + 0 } else { pos + rng.below(100) };
        let last = runs.last().unwrap();
        let len = len.max(last.0 + last.1);
        out.push((format!("L1.{}blocks", blocks), len, normalize(len, runs)));
    }
    // L3: many blocks followed by a long tail without any block start: long trailing zeros, or one long
    // final run (the sample indexes then have thresholds that fall behind the last block).
    for (k, blocks) in (if thorough { vec![17usize, 20, 30, 40, 100] } else { vec![18usize, 40] }).into_iter().enumerate() {
        let mut runs: Runs = Vec::new();
        let mut pos = rng.range(0, 9);
        for _ in 0..(blocks * 16) {
            let l = rng.range(9, 60);
            runs.push((pos, l));
            pos += l + rng.range(8, 60);
        }
        let end = pos;
        out.push((format!("L3.zeros{}", blocks), end * (2 + k % 3), normalize(end * 4, runs.clone())));
        let mut r2 = runs.clone();
        r2.push((end + 5, end * (1 + k % 2) * 2));
        let len2 = end + 5 + end * (1 + k % 2) * 2 + (k % 2) * 1000;
        out.push((format!("L3.lastrun{}", blocks), len2, normalize(len2, r2)));
    }
    // L2: values needing 4..10 code units: gaps and lengths 2^9 .. 2^29, blocks closed early.
    for rep in 0..(if thorough { 6 } else { 2 }) {
        let mut runs: Runs = Vec::new();
        let mut pos = if rep % 2 == 0 { 0 } else { rng.range(1, 1 << 20) };
        let budget = (1usize << 31) - 64;
        loop {
            let l = 1usize << rng.range(0, 27);
            let l = l + rng.below(l);
            let g = 1usize << rng.range(0, 27);
            let g = g + rng.below(g);
            if pos + l + g + 2 >= budget || runs.len() > 400 { break; }
            runs.push((pos, l));
            pos += l + g;
        }
        let len = if rep % 3 == 0 { let last = runs.last().unwrap(); last.0 + last.1 } else { pos };
        out.push((format!("L2.{}", rep), len, normalize(len, runs)));
    }
    // L4: a run at position 0, no trailing zeros, trailing zeros, single runs, empty.
    out.push(("L4.empty0".to_string(), 0, Vec::new()));
    out.push(("L4.zeros".to_string(), 777, Vec::new()));
    out.push(("L4.ones".to_string(), 777, vec![(0, 777)]));
    out.push(("L4.start0".to_string(), 1000, vec![(0, 1), (5, 3), (999, 1)]));
    out.push(("L4.trailing".to_string(), 1 << 30, vec![(3, 1 << 20)]));
    // mixtures: dense clustered content as a plain vector would hold
    let len = rng.range(2000, 20000);
    out.push(("L6.clustered".to_string(), len, clustered(rng, len, 30, 30)));
    let len = rng.range(2000, 6000);
    out.push(("L6.dense".to_string(), len, dense_uniform(rng, len, 500)));
    out
}

pub fn record_contents(kind: &str, contents: Vec<(String, usize, Runs)>, seed: u64, thorough: bool, path: &str) -> Value {
    let mut rng = Rng::new(seed ^ 0x5151);
    let mut out = TraceOut::new();
    let mut stats = json!({"objects": 0, "queries": 0, "widths": {}});
    let all_routes = routes_for(kind);
    for (i, (label, len, runs)) in contents.iter().enumerate() {
        let ones = ones_of(runs);
        // All routes on small contents; two rotating routes on large ones. Conversions from a plain
        // vector need len bits of memory, the bit-at-a-time routes need time linear in the ones.
        let routes: Vec<&str> = all_routes.iter().copied().enumerate().filter(|(j, r)| {
            let heavy_plain = r.contains("plain") && *len > (1 << 24);
            let heavy_bits = (*r == "bits" || r.contains("sparse")) && ones > (1 << 22);
            let heavy_sparse = r.contains("sparse") && *len > (1 << 24) && ones < 64;
            if heavy_plain || heavy_bits || heavy_sparse { return false; }
            if *len <= (1 << 16) && ones <= (1 << 14) { return true; }
            *j == 0 || *j == 1 + i % (all_routes.len() - 1)
        }).map(|(_, r)| r).collect();
        for route in routes {
            let extra = if thorough { 60 } else { 25 };
            record_object(&mut out, &mut rng, label, kind, route, *len, runs, extra, &mut stats);
            stats["objects"] = json!(stats["objects"].as_u64().unwrap() + 1);
        }
    }
    out.write(path);
    stats["events"] = json!(out.lines.len());
    stats["sample"] = serde_json::from_str(&out.lines[1.min(out.lines.len() - 1)]).unwrap();
    stats
}

pub fn record_sparse(seed: u64, thorough: bool, path: &str) -> Value {
    let mut rng = Rng::new(seed);
    let contents = sparse_regimes(&mut rng, thorough);
    record_contents("sparse", contents, seed, thorough, path)
}

pub fn record_rl(seed: u64, thorough: bool, path: &str) -> Value {
    let mut rng = Rng::new(seed);
    let contents = rl_regimes(&mut rng, thorough);
    record_contents("rl", contents, seed, thorough, path)
}

//-----------------------------------------------------------------------------
// Layer B drift check: the serialized support structures of plain bitvectors.

fn int_items(l: &crate::layout::IntL) -> Vec<u64> { l.items() }

pub fn record_layout(seed: u64, thorough: bool, path: &str) -> Value {
    let mut rng = Rng::new(seed);
    let mut out = TraceOut::new();
    let mut contents: Vec<(usize, Runs, bool, bool)> = Vec::new();
    // small and medium vectors: all three structures
    for len in [0usize, 1, 63, 64, 65, 511, 512, 513, 4095, 4096, 4097] {
        contents.push((len, dense_uniform(&mut rng, len, 500), true, true));
    }
    contents.push((9000, dense_uniform(&mut rng, 9000, 950), true, true));
    contents.push((9000, clustered(&mut rng, 9000, 100, 40), true, true));
    // long superblocks need len >= 2^17: few ones (select) / few zeros (select_zero) only
    let len = (1 << 17) + 77;
    let mut runs = vec![(100, 4500)];
    runs.extend(random_positions(&mut rng, len, 30).into_iter().filter(|r| r.0 > 6000));
    let r3 = normalize(len, runs);
    contents.push((len, r3.clone(), true, false));
    contents.push((len, complement(len, &r3), false, true));
    if thorough {
        let len = (1 << 18) + 5;
        let sp = random_positions(&mut rng, len, 40);
        contents.push((len, sp.clone(), true, false));
        contents.push((len, complement(len, &sp), false, true));
    }
    for (len, runs, sel, sel0) in contents.iter() {
        let mut b = plain_raw(*len, runs);
        b.enable_rank();
        if *sel { b.enable_select(); }
        if *sel0 { b.enable_select_zero(); }
        let elems = crate::layout::to_elements(&crate::layout::to_bytes(&b));
        let l = crate::layout::Cursor::new(&elems).bit();
        let rank_elems = l.opts[0].clone().unwrap();
        let n = rank_elems[0] as usize;
        let rank: Vec<Value> = (0..n).map(|i| { let s = rank_elems[1 + 2 * i]; let r = rank_elems[2 + 2 * i]; json!([s, (0..7).map(|k| (r >> (9 * k)) & 0x1FF).collect::<Vec<u64>>()]) }).collect();
        let mut ev = json!({"e": "layout", "len": len, "runs": runs_json(runs), "rank": rank, "has_sel": sel, "has_sel0": sel0});
        for (which, pre, on) in [(1usize, "sel", *sel), (2usize, "sel0", *sel0)] {
            if !on { for suf in ["samples", "long", "short"] { ev[format!("{}_{}", pre, suf)] = json!([]); } continue; }
            let (s, lo, sh) = crate::layout::select_layout(l.opts[which].as_ref().unwrap());
            let si = int_items(&s);
            ev[format!("{}_samples", pre)] = json!(si.chunks(2).map(|c| json!([c[0], c[1]])).collect::<Vec<Value>>());
            ev[format!("{}_long", pre)] = json!(int_items(&lo));
            ev[format!("{}_short", pre)] = json!(int_items(&sh));
        }
        out.push(ev);
    }
    out.write(path);
    json!({"objects": contents.len(), "queries": contents.len(), "events": out.lines.len(), "sample": {"len": contents[3].0}})
}
