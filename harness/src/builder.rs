//! Builders (SparseBuilder, RLBuilder): replay of the transition cover and recording of long histories.

use crate::common::*;
use serde_json::{json, Value};
use simple_sds::ops::{BitVec, Select};
use simple_sds::rl_vector::{RLBuilder, RLVector};
use simple_sds::sparse_vector::{SparseBuilder, SparseVector};
use std::convert::TryFrom;

pub enum AnyBuilder { Sparse(SparseBuilder), RL(RLBuilder) }

pub fn construct(init: &Value) -> Result<AnyBuilder, String> {
    match init["op"].as_str().unwrap() {
        "new" => SparseBuilder::new(dec_arg(&init["u"]), dec_arg(&init["m"])).map(AnyBuilder::Sparse).map_err(|e| e.to_string()),
        "multiset" => Ok(AnyBuilder::Sparse(SparseBuilder::multiset(dec_arg(&init["u"]), dec_arg(&init["m"])))),
        "rl" => Ok(AnyBuilder::RL(RLBuilder::new())),
        op => panic!("TOOL-ERROR: unknown builder constructor {}", op),
    }
}

impl AnyBuilder {
    pub fn call(&mut self, c: &Value) -> Value {
        let op = c["op"].as_str().unwrap();
        let r = guarded(|| match self {
            AnyBuilder::Sparse(b) => match op {
                "try_set" => if b.try_set(dec_arg(&c["i"])).is_ok() { "ok" } else { "err" },
                "set" => { b.set(dec_arg(&c["i"])); "ok" },
                "extend" => { let v: Vec<usize> = c["is"].as_array().unwrap().iter().map(dec_arg).collect(); b.extend(v); "ok" },
                _ => panic!("TOOL-ERROR: unknown sparse builder call {}", op),
            },
            AnyBuilder::RL(b) => match op {
                "try_set" => if b.try_set(dec_arg(&c["i"]), dec_arg(&c["n"])).is_ok() { "ok" } else { "err" },
                "set_len" => { b.set_len(dec_arg(&c["n"])); "ok" },
                _ => panic!("TOOL-ERROR: unknown rl builder call {}", op),
            },
        });
        match r { Ok(s) => json!(s), Err(_) => json!("panic") }
    }

    pub fn observe(&self) -> Value {
        match self {
            AnyBuilder::Sparse(b) => json!({"len": enc(b.len()), "capacity": enc(b.capacity()), "universe": enc(b.universe()), "next_index": enc(b.next_index()),
                                            "is_full": b.is_full(), "is_multiset": b.is_multiset(), "is_empty": b.is_empty()}),
            AnyBuilder::RL(b) => json!({"len": enc(b.len()), "count_ones": enc(b.count_ones()), "count_zeros": enc(b.count_zeros()), "is_empty": b.is_empty()}),
        }
    }

    /// Converts the builder; returns {ok, len, ones} (and the maximal runs for the run-length vector), and whether the vector
    /// is == to, serializes like and answers like `reference` - the vector built by a fresh builder that was only ever given
    /// the accepted positions (a refused call must leave nothing behind, also where the iterators do not look).
    pub fn finish(self, reference: Option<AnyBuilder>) -> Value {
        use crate::layout::to_bytes;
        use simple_sds::ops::{PredSucc, Rank, SelectZero};
        match self {
            AnyBuilder::Sparse(b) => match SparseVector::try_from(b) {
                Ok(v) => {
                    let mut r = json!({"ok": true, "len": enc(v.len()), "ones": v.one_iter().map(|(_, p)| enc(p)).collect::<Vec<Value>>()});
                    if let Some(AnyBuilder::Sparse(rb)) = reference {
                        if let Ok(rv) = SparseVector::try_from(rb) {
                            let n = v.len().min(300);
                            let same_answers = guarded(|| (0..=n + 1).all(|i| v.rank(i) == rv.rank(i) && v.successor(i).next() == rv.successor(i).next() && v.predecessor(i).next() == rv.predecessor(i).next())).unwrap_or(false);
                            r["as_reference"] = json!([v == rv, to_bytes(&v) == to_bytes(&rv), same_answers]);
                        }
                    }
                    r
                },
                Err(_) => json!({"ok": false}),
            },
            AnyBuilder::RL(b) => {
                let v = RLVector::from(b);
                let mut r = json!({"ok": true, "len": enc(v.len()), "ones": v.one_iter().map(|(_, p)| enc(p)).collect::<Vec<Value>>(),
                       "runs": v.run_iter().map(|(s, l)| json!([enc(s), enc(l)])).collect::<Vec<Value>>()});
                if let Some(AnyBuilder::RL(rb)) = reference {
                    let rv = RLVector::from(rb);
                    let n = v.len().min(300);
                    let same_answers = guarded(|| (0..=n + 1).all(|i| v.rank(i) == rv.rank(i) && v.successor(i).next() == rv.successor(i).next() && v.predecessor(i).next() == rv.predecessor(i).next())
                                                   && v.zero_iter().take(300).eq(rv.zero_iter().take(300))).unwrap_or(false);
                    r["as_reference"] = json!([v == rv, to_bytes(&v) == to_bytes(&rv), same_answers]);
                }
                r
            },
        }
    }
}

fn maximal_runs(ones: &[Value]) -> Value {
    let mut runs: Vec<(u64, u64)> = Vec::new();
    for p in ones.iter().map(|x| x.as_u64().unwrap()) {
        match runs.last_mut() { Some(r) if r.0 + r.1 == p => r.1 += 1, _ => runs.push((p, 1)) }
    }
    Value::Array(runs.iter().map(|(s, l)| json!([s, l])).collect())
}

pub fn replay_case(case: &Value, tally: &mut Tally) {
    tally.cases += 1;
    let init = &case["init"];
    let ctx = |i: i64, what: &str| json!({"kind": "builder", "init": {"op": init["op"], "u": init["u"], "m": init["m"]}, "calls": case["steps"].as_array().unwrap().iter().map(|s| s["c"].clone()).collect::<Vec<Value>>(), "step": i, "what": what});
    let mut b = match guarded(|| construct(init)) {
        Ok(Ok(b)) => b,
        other => { tally.check(hstr(&init.to_string()), true, &|| ctx(-1, "constructor"), &json!("ok"), &json!(format!("{:?}", other.map(|r| r.err())))); return; },
    };
    let mut key = hstr(&format!("{}{}{}", init["op"], init["u"], init["m"]));
    if !tally.check(hkey(&[key, 0]), false, &|| ctx(-1, "observables after constructor"), &init["obs"], &b.observe()) { return; }
    for (i, s) in case["steps"].as_array().unwrap().iter().enumerate() {
        key = hkey(&[key, hstr(&s["c"].to_string())]);
        let res = b.call(&s["c"]);
        if !tally.check(key, true, &|| ctx(i as i64, "result"), &s["res"], &res) { return; }
        let obs = guarded_val(|| b.observe());
        if !tally.check(hkey(&[key, 1]), true, &|| ctx(i as i64, "observables after call"), &s["obs"], &obs) { return; }
    }
    let exp = &case["finish"];
    // the reference: a fresh builder of the same kind that is given exactly the positions the specification says were accepted
    let reference = if exp["ok"] == json!(true) { guarded(|| {
        let ones: Vec<usize> = exp["ones"].as_array().unwrap().iter().map(dec_arg).collect();
        match &b {
            AnyBuilder::Sparse(sb) => { let mut r = if sb.is_multiset() { SparseBuilder::multiset(sb.universe(), sb.capacity()) } else { SparseBuilder::new(sb.universe(), sb.capacity()).unwrap() }; for p in ones.iter() { r.set(*p); } AnyBuilder::Sparse(r) },
            AnyBuilder::RL(_) => { let mut r = RLBuilder::new(); for p in ones.iter() { r.try_set(*p, 1).unwrap(); } r.set_len(dec_arg(&exp["len"])); AnyBuilder::RL(r) },
        }
    }).ok() } else { None };
    let had_ref = reference.is_some();
    let fin = match guarded(|| b.finish(reference)) { Ok(v) => v, Err(msg) => json!({"panic": msg}) };
    if exp["ok"] == json!(false) {
        tally.check(hkey(&[key, 2]), true, &|| ctx(99, "conversion of a builder that is not full"), &json!({"ok": false}), &fin);
    } else {
        let mut e = json!({"ok": true, "len": exp["len"], "ones": exp["ones"]});
        if fin.get("runs").is_some() { e["runs"] = maximal_runs(exp["ones"].as_array().unwrap()); }
        if had_ref && fin.get("as_reference").is_some() { e["as_reference"] = json!([true, true, true]); }
        tally.check(hkey(&[key, 2]), true, &|| ctx(99, "converted vector: length, set bits (and maximal runs)"), &e, &fin);
    }
    if case["steps"].as_array().unwrap().len() >= 3 { tally.sample(json!({"init": init["op"], "calls": case["steps"].as_array().unwrap().iter().map(|s| s["c"].clone()).collect::<Vec<Value>>()})); }
}

//-----------------------------------------------------------------------------

pub fn record_builder(seed: u64, thorough: bool, path: &str) -> Value {
    let mut rng = Rng::new(seed);
    let mut out = TraceOut::new();
    let mut calls = 0usize;
    let histories = if thorough { 60 } else { 12 };
    for h in 0..histories {
        let sparse = h % 2 == 0;
        if sparse {
            let u = match h % 6 { 0 => rng.range(1, 50), 2 => rng.range(1000, 100000), _ => rng.range(1 << 20, 1 << 30) };
            let multi = h % 4 == 0;
            let m = if multi { rng.range(0, 300) } else { rng.range(0, 300.min(u)) };
            let init = json!({"op": if multi { "multiset" } else { "new" }, "u": u, "m": m});
            let mut b = construct(&init).unwrap();
            out.push(json!({"e": "b_new", "init": init, "obs": b.observe()}));
            let steps = if thorough { rng.range(100, 700) } else { rng.range(100, 330) };
            let mut next = 0usize;
            for _ in 0..steps {
                let valid = rng.chance(4, 5);
                let i = if valid { (next + if rng.chance(1, 3) { 0 } else { rng.geo(u / (m + 1) + 1) }).min(u.saturating_sub(1)) }
                        else { match rng.below(4) { 0 => next.saturating_sub(1 + rng.below(3)), 1 => u + rng.below(3), 2 => HUGE_TOKENS[rng.below(6)].1, _ => rng.below(u + 1) } };
                let c = match rng.below(6) {
                    0 => json!({"op": "set", "i": enc_arg(i)}),
                    1 => json!({"op": "extend", "is": [enc_arg(i), enc_arg(if (i as u64) > TLC_MAX - 8 { i } else { i + rng.below(3) })]}),
                    _ => json!({"op": "try_set", "i": enc_arg(i)}),
                };
                let res = b.call(&c);
                let obs = b.observe();
                if let Some(n) = obs["next_index"].as_u64() { next = n as usize; }
                out.push(json!({"e": "b_call", "c": c, "res": res, "obs": obs}));
                calls += 1;
            }
            out.push(json!({"e": "b_finish", "fin": b.finish(None)}));
        } else {
            let init = json!({"op": "rl"});
            let mut b = construct(&init).unwrap();
            out.push(json!({"e": "b_new", "init": init, "obs": b.observe()}));
            let steps = if thorough { rng.range(100, 500) } else { rng.range(80, 250) };
            let mut len = 0usize;
            for _ in 0..steps {
                let valid = rng.chance(4, 5);
                let start = if valid { len + if rng.chance(1, 4) { 0 } else { rng.geo(40) } } else { len.saturating_sub(1 + rng.below(5)) };
                let c = match rng.below(5) {
                    0 => json!({"op": "set_len", "n": if rng.chance(1, 2) { len + rng.below(100) } else { len.saturating_sub(rng.below(100)) }}),
                    _ => json!({"op": "try_set", "i": start, "n": if rng.chance(1, 10) { 0 } else { rng.geo(30) }}),
                };
                let res = b.call(&c);
                let obs = b.observe();
                len = obs["len"].as_u64().unwrap_or(0) as usize;
                out.push(json!({"e": "b_call", "c": c, "res": res, "obs": obs}));
                calls += 1;
            }
            out.push(json!({"e": "b_finish", "fin": b.finish(None)}));
        }
    }
    out.write(path);
    json!({"histories": histories, "queries": calls, "events": out.lines.len(), "sample": serde_json::from_str::<Value>(&out.lines[3]).unwrap()})
}
