//! The lifecycle machine (tla/SDSLife.tla): behaviours of ONE bit sequence travelling through the whole
//! library - mutated as a raw / width-1 integer vector, turned into a plain bitvector and back, given
//! support structures, converted to the sparse and run-length encodings, written by the buffered
//! writers, viewed through a memory map, serialized, loaded, cloned.  TLC supplies the calls and the
//! defined (kind, bits, supports) after each; every behaviour is executed at several scales k (one
//! abstract bit = k equal real bits).  After EVERY call the real object must hold the defined bits,
//! report the defined supports, and be == to / serialize identically to / answer like the object built
//! directly from that state (the observable object is a function of the abstract state).

use crate::bv::{self, AnyBv, Runs};
use crate::common::*;
use crate::conv;
use crate::layout::to_bytes;
use serde_json::{json, Value};
use simple_sds::bit_vector::BitVector;
use simple_sds::int_vector::{IntVector, IntVectorMapper, IntVectorWriter};
use simple_sds::ops::{Access, BitVec, Pack, Pop, Push, Rank, Resize, Select, SelectZero, Vector};
use simple_sds::raw_vector::{AccessRaw, PopRaw, PushRaw, RawVector, RawVectorMapper, RawVectorWriter};
use simple_sds::serialize::{self, MappingMode, MemoryMap, MemoryMapped, Serialize};

pub enum Obj { Raw(RawVector), Int(IntVector), Bv(AnyBv) }

fn kind_of(o: &Obj) -> &'static str {
    match o { Obj::Raw(_) => "raw", Obj::Int(_) => "int", Obj::Bv(AnyBv::Plain(_)) => "plain", Obj::Bv(AnyBv::Sparse(_)) => "sparse", Obj::Bv(AnyBv::RL(_)) => "rl" }
}

fn clone_bv(b: &AnyBv) -> AnyBv { match b { AnyBv::Plain(x) => AnyBv::Plain(x.clone()), AnyBv::Sparse(x) => AnyBv::Sparse(x.clone()), AnyBv::RL(x) => AnyBv::RL(x.clone()) } }

fn bytes_of(o: &Obj) -> Vec<u8> { match o { Obj::Raw(v) => to_bytes(v), Obj::Int(v) => to_bytes(v), Obj::Bv(b) => conv::bytes_of(b) } }

fn same(a: &Obj, b: &Obj) -> bool {
    match (a, b) { (Obj::Raw(x), Obj::Raw(y)) => x == y, (Obj::Int(x), Obj::Int(y)) => x == y, (Obj::Bv(x), Obj::Bv(y)) => conv::same(x, y), _ => false }
}

fn scratch() -> std::path::PathBuf { serialize::temp_file_name("verif-life") }

/// Real bits of the object as maximal runs of ones, with its length and reported number of ones.
fn observe(o: &Obj) -> (usize, usize, Runs) {
    fn runs_from<I: Iterator<Item = bool>>(it: I) -> Runs {
        let mut runs: Runs = Vec::new();
        for (p, b) in it.enumerate() { if b { match runs.last_mut() { Some(r) if r.0 + r.1 == p => r.1 += 1, _ => runs.push((p, 1)) } } }
        runs
    }
    match o {
        Obj::Raw(v) => (v.len(), v.count_ones(), runs_from((0..v.len()).map(|i| v.bit(i)))),
        Obj::Int(v) => (v.len(), 0, Vec::new()),       // integer vectors are compared item by item (items_of)
        Obj::Bv(AnyBv::Plain(b)) => (b.len(), b.count_ones(), runs_from(b.iter())),
        Obj::Bv(AnyBv::Sparse(b)) => (b.len(), b.count_ones(), runs_from(b.iter())),
        Obj::Bv(AnyBv::RL(b)) => (b.len(), b.count_ones(), runs_from(b.iter())),
    }
}

fn items_of(o: &Obj) -> Value { match o { Obj::Int(v) => json!([v.len(), v.width(), v.iter().collect::<Vec<u64>>()]), _ => json!(null) } }

fn flags_of(o: &Obj) -> Value {
    match o {
        Obj::Bv(AnyBv::Plain(b)) => json!({"rank": b.supports_rank(), "select": b.supports_select(), "select_zero": b.supports_select_zero()}),
        _ => json!({"rank": false, "select": false, "select_zero": false}),     // not asked: the specification tracks supports of plain bitvectors only
    }
}

/// The object built directly from the abstract state.
fn canonical(kind: &str, len: usize, runs: &Runs, flags: &Value) -> Obj {
    match kind {
        "raw" => { let mut v = RawVector::with_len(len, false); for p in bv::positions(runs) { v.set_bit(p, true); } Obj::Raw(v) },
        k => Obj::Bv(conv::canonical(k, len, runs, flags)),
    }
}

/// The integer vector built directly from (width, items).
fn canonical_int(width: usize, items: &[u64]) -> Obj {
    let mut v = IntVector::with_len(items.len(), width, 0).unwrap();
    for (i, x) in items.iter().enumerate() { v.set(i, *x); }
    Obj::Int(v)
}

fn scaled_runs(bits: &[u64], k: usize) -> (usize, Runs) {
    let mut runs: Runs = Vec::new();
    for (i, b) in bits.iter().enumerate() {
        if *b != 0 { match runs.last_mut() { Some(r) if r.0 + r.1 == i * k => r.1 += k, _ => runs.push((i * k, k)) } }
    }
    (bits.len() * k, runs)
}

fn reload<T: Serialize>(x: &T) -> Result<T, String> {
    let bytes = to_bytes(x);
    let mut cur = std::io::Cursor::new(&bytes);
    let r = T::load(&mut cur).map_err(|e| format!("load failed: {}", e))?;
    if cur.position() as usize != bytes.len() { return Err(format!("load consumed {} of {} bytes", cur.position(), bytes.len())); }
    Ok(r)
}

fn via_file<T: Serialize>(x: &T) -> Result<T, String> {
    let path = scratch();
    // a longer file is already in the way: serialize_to replaces it
    let _ = std::fs::write(&path, vec![0xEEu8; x.size_in_bytes() + 4096 + 24]);
    let r = serialize::serialize_to(x, &path).map_err(|e| format!("serialize_to failed: {}", e))
        .and_then(|_| {
            let sz = std::fs::metadata(&path).map(|m| m.len() as usize).unwrap_or(usize::MAX);
            if sz != x.size_in_bytes() { return Err(format!("file has {} bytes, size_in_bytes() = {}", sz, x.size_in_bytes())); }
            serialize::load_from::<T, _>(&path).map_err(|e| format!("load_from failed: {}", e))
        });
    let _ = std::fs::remove_file(&path);
    r
}

/// load_from a named pipe that another thread feeds with the serialized bytes: a path is a path.  (The writer side is plain std, so a
/// library that refuses the pipe cannot make this hang: the pipe is then opened and closed here to release the writer.)
fn via_fifo<T: Serialize>(x: &T) -> Result<T, String> {
    use std::io::Write;
    use std::os::unix::ffi::OsStrExt;
    let path = scratch();
    let cpath = std::ffi::CString::new(path.as_os_str().as_bytes()).map_err(|e| e.to_string())?;
    if unsafe { libc::mkfifo(cpath.as_ptr(), 0o600) } != 0 { return via_file(x); }      // no named pipes here: the ordinary file route
    let bytes = to_bytes(x);
    let p2 = path.clone();
    let writer = std::thread::spawn(move || { if let Ok(mut f) = std::fs::OpenOptions::new().write(true).open(&p2) { let _ = f.write_all(&bytes); } });
    let r = serialize::load_from::<T, _>(&path);
    let out = match r {
        Ok(v) => { let _ = writer.join(); Ok(v) },
        Err(e) => {
            let fd = unsafe { libc::open(cpath.as_ptr(), libc::O_RDONLY | libc::O_NONBLOCK) };
            if fd >= 0 { std::thread::sleep(std::time::Duration::from_millis(20)); unsafe { libc::close(fd); } }
            Err(format!("load_from a named pipe failed: {}", e))
        },
    };
    let _ = std::fs::remove_file(&path);
    out
}

/// Executes one call of the machine at scale `k`.  `salt` rotates equivalent public routes.
fn apply(o: Obj, c: &Value, k: usize, salt: usize) -> Result<Obj, String> {
    let op = c["op"].as_str().unwrap();
    let bit = || c["b"].as_u64().unwrap() != 0;
    let val = || c["b"].as_u64().unwrap();
    let num = |f: &str| c[f].as_u64().unwrap() as usize;
    Ok(match (op, o) {
        ("push", Obj::Raw(mut v)) => {
            match salt % 3 {
                0 => for _ in 0..k { v.push_bit(bit()); },
                1 => { let n = v.len() + k; v.resize(n, bit()); },
                // integer pushes of 37 / 64 bits whose value is wider than the width (all ones): chunks straddle word boundaries
                _ => { let mut left = k; let cw = if salt % 2 == 0 { 37 } else { 64 }; while left > 0 { let w = left.min(cw); unsafe { v.push_int(if bit() { u64::MAX } else { 0 }, w); } left -= w; } },
            }
            Obj::Raw(v)
        },
        ("push", Obj::Int(mut v)) => {
            match salt % 3 {
                0 => for _ in 0..k { v.push(val()); },
                1 => v.extend(std::iter::repeat(val()).take(k)),
                // a short iterator whose size_hint has lower bound 0 and an enormous upper bound
                _ => { let x = val(); v.extend((0..usize::MAX).take_while(|i| *i < k).map(|_| x)); },
            }
            Obj::Int(v)
        },
        ("pop", Obj::Raw(mut v)) => {
            match salt % 3 {
                0 => for _ in 0..k { v.pop_bit(); },
                1 => { let mut left = k; while left > 0 { let w = left.min(37); unsafe { v.pop_int(w); } left -= w; } },
                // the remainder first, then whole 64-bit integers: the LAST pop straddles a word boundary whenever the new length is not a multiple of 64
                _ => { let mut left = k; if left % 64 != 0 { let w = left % 64; unsafe { v.pop_int(w); } left -= w; } while left > 0 { unsafe { v.pop_int(64); } left -= 64; } },
            }
            Obj::Raw(v)
        },
        ("pop", Obj::Int(mut v)) => { for _ in 0..k { v.pop(); } Obj::Int(v) },
        ("set", Obj::Raw(mut v)) => { let i = num("i"); for j in 0..k { v.set_bit(i * k + j, bit()); } Obj::Raw(v) },
        ("set", Obj::Int(mut v)) => { let i = num("i"); for j in 0..k { v.set(i * k + j, val()); } Obj::Int(v) },
        ("resize", Obj::Raw(mut v)) => { v.resize(num("n") * k, bit()); Obj::Raw(v) },
        ("resize", Obj::Int(mut v)) => { v.resize(num("n") * k, val()); Obj::Int(v) },
        ("pack", Obj::Int(mut v)) => { v.pack(); Obj::Int(v) },
        ("clear", Obj::Raw(mut v)) => { v.clear(); Obj::Raw(v) },
        ("clear", Obj::Int(mut v)) => { v.clear(); Obj::Int(v) },
        ("compl", Obj::Raw(v)) => Obj::Raw(v.complement()),
        ("to", o) => {
            let to = c["k"].as_str().unwrap();
            match (o, to) {
                (Obj::Raw(v), "plain") => Obj::Bv(AnyBv::Plain(BitVector::from(v))),
                (Obj::Raw(v), "raw") => Obj::Raw(v.clone()),
                (Obj::Int(v), "raw") => Obj::Raw(RawVector::from(v)),
                (Obj::Bv(AnyBv::Plain(b)), "raw") => Obj::Raw(if salt % 2 == 0 { RawVector::from(b) } else { let r: &RawVector = b.as_ref(); r.clone() }),
                (Obj::Bv(b), t) => Obj::Bv(conv::convert(&b, t, salt)),
                (o, t) => return Err(format!("TOOL-ERROR: no conversion {} -> {}", kind_of(&o), t)),
            }
        },
        ("enable", Obj::Bv(mut b)) => { conv::enable(&mut b, c["s"].as_str().unwrap()); Obj::Bv(b) },
        // clone(), or clone_from() into an existing object of another shape (longer / shorter, another width, other supports)
        ("clone", Obj::Raw(v)) => Obj::Raw(match salt % 3 { 0 => v.clone(), 1 => { let mut t = RawVector::with_len(v.len() + 77, true); t.clone_from(&v); t }, _ => { let mut t = RawVector::new(); t.clone_from(&v); t } }),
        ("clone", Obj::Int(v)) => Obj::Int(match salt % 3 { 0 => v.clone(), 1 => { let mut t = IntVector::with_len(5, 64, u64::MAX).unwrap(); t.clone_from(&v); t }, _ => { let mut t = IntVector::with_len(v.len() + 3, if v.width() == 13 { 7 } else { 13 }, 5).unwrap(); t.clone_from(&v); t } }),
        ("clone", Obj::Bv(AnyBv::Plain(b))) => Obj::Bv(AnyBv::Plain(if salt % 2 == 0 { b.clone() } else {
            let mut t = BitVector::from(RawVector::with_len(130, true)); t.enable_rank(); t.enable_select(); t.enable_select_zero(); t.clone_from(&b); t })),
        ("clone", Obj::Bv(b)) => Obj::Bv(clone_bv(&b)),
        ("reload", Obj::Raw(v)) => Obj::Raw(reload(&v)?),
        ("reload", Obj::Int(v)) => Obj::Int(reload(&v)?),
        ("reload", Obj::Bv(AnyBv::Plain(b))) => {
            // the three optional support structures can each be skipped, whichever are present, through readers that return
            // everything asked for and through readers that return less per call
            conv::skip_supports(&to_bytes(&b), [1usize, 3, 7, 4096, 5000][salt % 5])?;
            Obj::Bv(AnyBv::Plain(reload(&b)?))
        },
        ("reload", Obj::Bv(AnyBv::Sparse(b))) => Obj::Bv(AnyBv::Sparse(reload(&b)?)),
        ("reload", Obj::Bv(AnyBv::RL(b))) => Obj::Bv(AnyBv::RL(reload(&b)?)),
        ("file", Obj::Raw(v)) => Obj::Raw(if salt % 6 == 5 { via_fifo(&v)? } else { via_file(&v)? }),
        ("file", Obj::Int(v)) => Obj::Int(via_file(&v)?),
        ("file", Obj::Bv(AnyBv::Plain(b))) => Obj::Bv(AnyBv::Plain(if salt % 6 == 5 { via_fifo(&b)? } else { via_file(&b)? })),
        ("file", Obj::Bv(AnyBv::Sparse(b))) => Obj::Bv(AnyBv::Sparse(via_file(&b)?)),
        ("file", Obj::Bv(AnyBv::RL(b))) => Obj::Bv(AnyBv::RL(via_file(&b)?)),
        ("writer", Obj::Raw(v)) => {
            // the same bits pushed through the buffered writer (small buffers: many flushes), closed or dropped, loaded back
            let path = scratch();
            let r = (|| -> Result<RawVector, String> {
                let mut header: Vec<u64> = Vec::new();
                let mut w = if salt % 5 == 4 { RawVectorWriter::new(&path, &mut header) } else { RawVectorWriter::with_buf_len(&path, &mut header, [64, 128, 1024, 4096][salt % 4]) }.map_err(|e| e.to_string())?;
                let mut i = 0;
                while i < v.len() {
                    let w_ = [1usize, 64, 13, 37][(salt + i) % 4].min(v.len() - i);
                    if w_ == 1 { w.push_bit(v.bit(i)); } else { unsafe { w.push_int(v.int(i, w_), w_); } }
                    i += w_;
                }
                if w.len() != v.len() { return Err(format!("writer reports len {} after {} bits", w.len(), v.len())); }
                if w.filename() != path.as_path() || !w.is_open() || w.is_empty() != v.is_empty() { return Err(format!("writer accessors: filename {:?}, is_open {}, is_empty {}", w.filename(), w.is_open(), w.is_empty())); }
                // the file may be renamed while the writer is open: the writer owns a handle, not a name
                let moved = scratch();
                let renamed = salt % 4 == 2 && std::fs::rename(&path, &moved).is_ok();
                if salt % 3 == 0 { drop(w); } else { w.close().map_err(|e| format!("close failed{}: {}", if renamed { " (the file was renamed while the writer was open)" } else { "" }, e))?; }
                if renamed { std::fs::rename(&moved, &path).map_err(|e| e.to_string())?; }
                serialize::load_from::<RawVector, _>(&path).map_err(|e| format!("load_from writer file failed: {}", e))
            })();
            let _ = std::fs::remove_file(&path);
            Obj::Raw(r?)
        },
        ("writer", Obj::Int(v)) => {
            let path = scratch();
            let r = (|| -> Result<IntVector, String> {
                let mut w = if salt % 5 == 4 { IntVectorWriter::new(&path, v.width()) } else { IntVectorWriter::with_buf_len(&path, v.width(), [64, 128, 1024, 4096][salt % 4]) }.map_err(|e| e.to_string())?;
                if salt % 2 == 0 { for x in v.iter() { w.push(x); } } else { w.extend(v.iter().filter(|_| true)); }
                if w.len() != v.len() { return Err(format!("writer reports len {} after {} items", w.len(), v.len())); }
                if w.filename() != path.as_path() || !w.is_open() || w.is_empty() != v.is_empty() || w.width() != v.width() { return Err(format!("writer accessors: filename {:?}, is_open {}, is_empty {}, width {}", w.filename(), w.is_open(), w.is_empty(), w.width())); }
                if salt % 3 == 0 { drop(w); } else { w.close().map_err(|e| e.to_string())?; }
                serialize::load_from::<IntVector, _>(&path).map_err(|e| format!("load_from writer file failed: {}", e))
            })();
            let _ = std::fs::remove_file(&path);
            Obj::Int(r?)
        },
        ("mapper", o) => {
            // an observation: the serialized vector viewed through a memory map (after one leading element) shows the same bits
            let path = scratch();
            let r = (|| -> Result<(), String> {
                let mut f = std::fs::File::create(&path).map_err(|e| e.to_string())?;
                // a few leading elements - sometimes more than a page of them, so that the map spans several pages
                let lead: usize = if salt % 7 == 3 { 600 + salt % 3 } else { salt % 3 };
                for j in 0..lead { (j as u64 + 77).serialize(&mut f).map_err(|e| e.to_string())?; }
                match &o { Obj::Raw(v) => v.serialize(&mut f), Obj::Int(v) => v.serialize(&mut f), _ => unreachable!() }.map_err(|e| e.to_string())?;
                drop(f);
                // the file is named directly or through a symbolic link
                let link = scratch();
                let via_link = salt % 4 == 1 && std::os::unix::fs::symlink(&path, &link).is_ok();
                let name = if via_link { link.clone() } else { path.clone() };
                let map = MemoryMap::new(&name, MappingMode::ReadOnly).map_err(|e| { let _ = std::fs::remove_file(&link); format!("MemoryMap::new failed ({}): {}", if via_link { "file named through a symbolic link" } else { "plain name" }, e) })?;
                let _ = std::fs::remove_file(&link);
                if map.filename() != name.as_path() || map.mode() != MappingMode::ReadOnly || map.is_empty() { return Err(format!("map accessors: filename {:?}, mode {:?}, is_empty {}", map.filename(), map.mode(), map.is_empty())); }
                match &o {
                    Obj::Raw(v) => {
                        let m = RawVectorMapper::new(&map, lead).map_err(|e| format!("RawVectorMapper::new failed: {}", e))?;
                        if m.len() != v.len() { return Err(format!("mapper len {} != {}", m.len(), v.len())); }
                        if m.is_mutable() || m.is_empty() != v.is_empty() || !v.is_mutable() { return Err(format!("mapper accessors: is_mutable {}, is_empty {}", m.is_mutable(), m.is_empty())); }
                        if m.count_ones() != v.count_ones() { return Err(format!("mapper count_ones {} != {}", m.count_ones(), v.count_ones())); }
                        if let Some(i) = (0..v.len()).find(|i| m.bit(*i) != v.bit(*i)) { return Err(format!("mapper bit {} differs", i)); }
                        if m.map_offset() != lead || m.map_offset() + m.map_len() != map.len() { return Err(format!("mapper offset {} len {} in a map of {} elements", m.map_offset(), m.map_len(), map.len())); }
                    },
                    Obj::Int(v) => {
                        let m = IntVectorMapper::new(&map, lead).map_err(|e| format!("IntVectorMapper::new failed: {}", e))?;
                        if m.len() != v.len() || m.width() != v.width() { return Err(format!("mapper len {} width {} != {} / {}", m.len(), m.width(), v.len(), v.width())); }
                        if !m.iter().eq(v.iter()) { return Err("mapper items differ".to_string()); }
                        if m.map_offset() != lead || m.map_offset() + m.map_len() != map.len() { return Err(format!("mapper offset {} len {} in a map of {} elements", m.map_offset(), m.map_len(), map.len())); }
                    },
                    _ => unreachable!(),
                }
                drop(map);
                // nothing of the file stays mapped once the map is gone
                let left = crate::mm::mapped_bytes(&path);
                if left != 0 { return Err(format!("{} bytes of the file are still mapped after the map was dropped", left)); }
                Ok(())
            })();
            let _ = std::fs::remove_file(&path);
            r?;
            o
        },
        (op, o) => return Err(format!("TOOL-ERROR: call {} on {}", op, kind_of(&o))),
    })
}

/// Who answers for a step: class of the call, and for conversions source and target.
fn tag_of(prev_kind: &str, c: &Value) -> String {
    match c["op"].as_str().unwrap() {
        "push" | "pop" | "set" | "resize" | "clear" | "compl" => format!("mut:{}", prev_kind),
        "to" => format!("to:{}>{}", prev_kind, c["k"].as_str().unwrap()),
        op => format!("{}:{}", op, prev_kind),
    }
}

pub fn replay_case(case: &Value, scales: &[usize], own: &[String], tally: &mut Tally) {
    tally.cases += 1;
    let steps = case["steps"].as_array().unwrap();
    let init = case["init"]["kind"].as_str().unwrap();
    let init_w = case["init"]["w"].as_u64().unwrap() as usize;
    let ckey = hstr(&case.to_string());
    // One abstract bit stands for k real bits.  For an integer vector of width 1 the items are the bits and scaling commutes with
    // every conversion; for wider items it does not (k copies of an item are not k copies of each of its bits), so behaviours that
    // start from a wider integer vector are replayed at scale 1 only - their widths (3, 30) put word boundaries within a few items.
    let one = [1usize];
    let scales: &[usize] = if init == "int" && init_w > 1 { &one } else { scales };
    for (si, k) in scales.iter().enumerate() {
        let k = *k;
        let salt0 = (ckey as usize).wrapping_add(si * 7);
        let mut o = Some(if init == "int" { Obj::Int(IntVector::new(init_w).unwrap()) } else { canonical(init, 0, &Vec::new(), &json!({})) });
        let mut prev_kind = init.to_string();
        for (i, s) in steps.iter().enumerate() {
            let c = &s["c"];
            let tag = tag_of(&prev_kind, c);
            let owned = own.is_empty() || own.iter().any(|p| tag.starts_with(p.as_str()));
            let ctx = |what: &str| json!({"kind": "life", "scale": k, "init": init, "calls": steps.iter().take(i + 1).map(|x| x["c"].clone()).collect::<Vec<Value>>(), "step": i, "tag": tag, "what": what});
            let bits: Vec<u64> = s["bits"].as_array().unwrap().iter().map(|b| b.as_u64().unwrap()).collect();
            let ekind = s["kind"].as_str().unwrap();
            let ew = s["w"].as_u64().unwrap() as usize;
            let eitems: Vec<u64> = if ekind == "int" { bits.iter().flat_map(|x| std::iter::repeat(*x).take(k)).collect() } else { Vec::new() };
            let (elen, eruns) = if ekind == "int" { (eitems.len(), Vec::new()) } else { scaled_runs(&bits, k) };
            let salt = salt0.wrapping_add(i * 3);
            let cur = o.take().unwrap();
            let r = guarded(|| -> Result<(Obj, Vec<(&'static str, Value, Value)>), String> {
                let n = apply(cur, c, k, salt)?;
                let mut out: Vec<(&'static str, Value, Value)> = Vec::new();
                let (len, ones, runs) = observe(&n);
                out.push(("kind", json!(ekind), json!(kind_of(&n))));
                if ekind == "int" {
                    out.push(("content [len, width, items]", json!([elen, ew, eitems]), items_of(&n)));
                    out.push(("len", json!(elen), json!(len)));
                } else {
                    out.push(("content [len, runs of ones]", json!([elen, bv::runs_json(&eruns)]), json!([len, bv::runs_json(&runs)])));
                    out.push(("count_ones", json!(bv::ones_of(&eruns)), json!(ones)));
                }
                if ekind == "plain" { out.push(("support flags", s["flags"].clone(), flags_of(&n))); }
                let canon = if ekind == "int" { canonical_int(ew, &eitems) } else { canonical(ekind, elen, &eruns, &s["flags"]) };
                out.push(("== the object built directly from (kind, bits, supports)", json!(true), json!(same(&n, &canon))));
                out.push(("same bytes as the object built directly from (kind, bits, supports)", json!(true), json!(bytes_of(&n) == bytes_of(&canon))));
                if let (Obj::Bv(b), Obj::Bv(cb)) = (&n, &canon) {
                    // answers through every enabled support at the scale's boundaries
                    let fl = if ekind == "plain" { s["flags"].clone() } else { json!({"rank": true, "select": true, "select_zero": true}) };
                    let args = [0, 1, k.saturating_sub(1), k, k + 1, elen / 2, elen.saturating_sub(1), elen, elen + 1];
                    for (op, need) in [("rank", "rank"), ("sel", "select"), ("sel0", "select_zero"), ("pred", "select"), ("succ", "select")] {
                        if fl[need] != json!(true) || ((op == "pred" || op == "succ") && fl["rank"] != json!(true)) { continue; }
                        let got: Vec<Value> = args.iter().map(|a| b.query(op, *a)).collect();
                        let exp: Vec<Value> = args.iter().map(|a| cb.query(op, *a)).collect();
                        out.push(("answers equal those of the directly built object", json!([op, exp]), json!([op, got])));
                    }
                }
                Ok((n, out))
            });
            match r {
                Ok(Ok((n, list))) => {
                    let mut ok = true;
                    for (j, (what, exp, got)) in list.iter().enumerate() {
                        if owned { ok &= tally.check(hkey(&[ckey, k as u64, i as u64, j as u64]), elen > 0, &|| ctx(what), exp, got); }
                        else if exp != got {
                            // Not this property's step.  If the OBSERVABLE content is wrong, the rest of the behaviour starts from a state the
                            // specification does not describe: stop (the owner's check reports it).  If only the hidden representation differs
                            // (equality / bytes / answers against the directly built object), carry on: the next owned step receives an object
                            // whose observable content is right, and answers for what it makes of it.
                            if j < 2 { ok = false; }
                            tally.notes.push(json!({"foreign": tag, "what": what})); tally.notes.truncate(5);
                        }
                    }
                    if !ok { break; }
                    prev_kind = kind_of(&n).to_string();
                    o = Some(n);
                },
                Ok(Err(msg)) => {
                    if msg.starts_with("TOOL-ERROR") { eprintln!("{}", msg); std::process::exit(2); }
                    if owned { tally.check(hkey(&[ckey, k as u64, i as u64]), true, &|| ctx("call"), &json!("ok"), &json!(msg)); }
                    break;
                },
                Err(msg) => {
                    if owned { tally.check(hkey(&[ckey, k as u64, i as u64]), true, &|| ctx("call"), &json!("no panic"), &json!(format!("PANIC: {}", msg))); }
                    break;
                },
            }
        }
    }
    if steps.len() >= 4 { tally.sample(json!({"behaviour": case, "scales": scales})); }
}
