//! Raw and integer vectors: execution of Layer A calls (SDSVec) on the real objects.

use crate::common::*;
use crate::layout::to_bytes;
use serde_json::{json, Value};
use simple_sds::int_vector::IntVector;
use simple_sds::ops::{Access, Pack, Pop, Push, Resize, Vector};
use simple_sds::raw_vector::{AccessRaw, PopRaw, PushRaw, RawVector};

thread_local! { static EXTEND_TURN: std::cell::Cell<usize> = std::cell::Cell::new(0); }

pub enum AnyVec {
    Int(IntVector),
    Raw(RawVector),
}

pub fn set_to_u64(v: &Value) -> u64 {
    let mut x = 0u64;
    for b in v.as_array().unwrap_or_else(|| panic!("TOOL-ERROR: value is not a position array: {}", v)) {
        x |= 1u64 << b.as_u64().unwrap();
    }
    x
}

pub fn u64_to_set(x: u64) -> Value {
    Value::Array((0..64).filter(|b| (x >> b) & 1 == 1).map(|b| json!(b)).collect())
}

fn unit() -> Value { json!([0, []]) }
fn val(x: u64) -> Value { json!([1, u64_to_set(x)]) }
fn num(n: usize) -> Value { json!([1, [enc(n)]]) }
fn none() -> Value { json!([2, []]) }
fn boolean(b: bool) -> Value { if b { json!([1, [0]]) } else { json!([1, []]) } }
pub fn panic_res() -> Value { json!([8, []]) }

fn us(c: &Value, k: &str) -> usize { c[k].as_u64().unwrap_or_else(|| panic!("TOOL-ERROR: missing field {} in {}", k, c)) as usize }

pub fn construct(c: &Value) -> AnyVec {
    match c["op"].as_str().unwrap() {
        "new" => AnyVec::Int(IntVector::new(us(c, "w")).unwrap()),
        "with_len" => AnyVec::Int(IntVector::with_len(us(c, "n"), us(c, "w"), set_to_u64(&c["v"])).unwrap()),
        "with_capacity" => AnyVec::Int(IntVector::with_capacity(us(c, "n"), us(c, "w")).unwrap()),
        "from_vec" | "from_iter" => {
            let vs: Vec<u64> = c["vs"].as_array().unwrap().iter().map(set_to_u64).collect();
            let iter = c["op"] == json!("from_iter");
            macro_rules! mk { ($t:ty) => {{ let v: Vec<$t> = vs.iter().map(|x| *x as $t).collect(); if iter { let turn = EXTEND_TURN.with(|t| { t.set(t.get() + 1); t.get() }); if turn % 2 == 0 { v.into_iter().collect::<IntVector>() } else { v.into_iter().filter(|_| true).collect::<IntVector>() } } else { IntVector::from(v) } }} }
            AnyVec::Int(match us(c, "w") { 8 => mk!(u8), 16 => mk!(u16), 32 => mk!(u32), 64 => if vs.len() % 2 == 0 { mk!(u64) } else { mk!(usize) }, w => panic!("TOOL-ERROR: no item type of width {}", w) })
        },
        "new_raw" => AnyVec::Raw(RawVector::new()),
        "with_len_raw" => AnyVec::Raw(RawVector::with_len(us(c, "n"), c["b"].as_bool().unwrap())),
        "with_capacity_raw" => AnyVec::Raw(RawVector::with_capacity(us(c, "n"))),
        op => panic!("TOOL-ERROR: unknown constructor {}", op),
    }
}

impl AnyVec {
    /// Executes one call and returns the result in the Layer A encoding.
    pub fn call(&mut self, c: &Value) -> Value {
        let op = c["op"].as_str().unwrap();
        match self {
            AnyVec::Int(v) => match op {
                "push" => { v.push(set_to_u64(&c["v"])); unit() },
                "pop" => match v.pop() { Some(x) => val(x), None => none() },
                "get" => val(v.get(us(c, "i"))),
                "set" => { v.set(us(c, "i"), set_to_u64(&c["v"])); unit() },
                "resize" => { v.resize(us(c, "n"), set_to_u64(&c["v"])); unit() },
                "clear" => { v.clear(); unit() },
                "reserve" => { v.reserve(us(c, "n")); unit() },
                "pack" => { v.pack(); unit() },
                "extend" => {
                    let vs: Vec<u64> = c["vs"].as_array().unwrap().iter().map(set_to_u64).collect();
                    // alternately an exact-size iterator and one whose size_hint has lower bound 0
                    let turn = EXTEND_TURN.with(|t| { t.set(t.get() + 1); t.get() });
                    if turn % 2 == 0 { v.extend(vs); } else { v.extend(vs.into_iter().filter(|_| true)); }
                    unit()
                },
                "count_ones" => num(AsRef::<RawVector>::as_ref(v).count_ones()),
                "len" => num(v.len()),
                "width" => num(v.width()),
                "is_empty" => boolean(v.is_empty()),
                "get_or" => { let i = c["i"].as_i64().unwrap(); val(v.get_or(if i < 0 { usize::MAX } else { i as usize }, set_to_u64(&c["v"]))) },
                _ => panic!("TOOL-ERROR: unknown int vector call {}", op),
            },
            AnyVec::Raw(v) => match op {
                "push_bit" => { v.push_bit(c["b"].as_bool().unwrap()); unit() },
                "pop_bit" => match v.pop_bit() { Some(b) => boolean(b), None => none() },
                "push_int" => { unsafe { v.push_int(set_to_u64(&c["v"]), us(c, "w")); } unit() },
                "pop_int" => match unsafe { v.pop_int(us(c, "w")) } { Some(x) => val(x), None => none() },
                "bit" => boolean(v.bit(us(c, "i"))),
                "set_bit" => { v.set_bit(us(c, "i"), c["b"].as_bool().unwrap()); unit() },
                "int" => val(unsafe { v.int(us(c, "i"), us(c, "w")) }),
                "set_int" => { unsafe { v.set_int(us(c, "i"), set_to_u64(&c["v"]), us(c, "w")); } unit() },
                "resize_bits" => { v.resize(us(c, "n"), c["b"].as_bool().unwrap()); unit() },
                "clear" => { v.clear(); unit() },
                "reserve" => { v.reserve(us(c, "n")); unit() },
                "complement" => { let r = v.complement(); *v = r; unit() },
                "count_ones" => num(v.count_ones()),
                "len" => num(v.len()),
                _ => panic!("TOOL-ERROR: unknown raw vector call {}", op),
            },
        }
    }

    /// Projection of the real object into the abstract state: bit length, width, set bit positions.
    pub fn observe(&self) -> Value {
        match self {
            AnyVec::Int(v) => {
                let w = v.width();
                let mut ones: Vec<Value> = Vec::new();
                for i in 0..v.len() {
                    let x = v.get(i);
                    for b in 0..w { if (x >> b) & 1 == 1 { ones.push(json!(i * w + b)); } }
                }
                json!({"len": v.len() * w, "width": w, "ones": ones})
            },
            AnyVec::Raw(v) => {
                let ones: Vec<Value> = (0..v.len()).filter(|i| v.bit(*i)).map(|i| json!(i)).collect();
                json!({"len": v.len(), "width": 0, "ones": ones})
            },
        }
    }

    /// History independence: compares the object with a second real vector built from the abstract
    /// state by the canonical route (with_len + set), never popped or resized.
    /// Returns [equal, same bytes, count_ones].
    pub fn canon(&self, obs: &Value) -> Value {
        let len = obs["len"].as_u64().unwrap() as usize;
        let width = obs["width"].as_u64().unwrap() as usize;
        let ones: Vec<usize> = obs["ones"].as_array().unwrap().iter().map(|x| x.as_u64().unwrap() as usize).collect();
        match self {
            AnyVec::Int(v) => {
                let items = if width > 0 { len / width } else { 0 };
                let mut vals = vec![0u64; items];
                for p in ones.iter() { vals[p / width] |= 1u64 << (p % width); }
                let mut c = IntVector::with_len(items, width.max(1).min(64), 0).unwrap();
                for (i, x) in vals.iter().enumerate() { c.set(i, *x); }
                let eq = *v == c;
                let same = to_bytes(v) == to_bytes(&c);
                json!([eq as usize, same as usize, AsRef::<RawVector>::as_ref(v).count_ones()])
            },
            AnyVec::Raw(v) => {
                let mut c = RawVector::with_len(len, false);
                for p in ones.iter() { c.set_bit(*p, true); }
                let eq = *v == c;
                let same = to_bytes(v) == to_bytes(&c);
                json!([eq as usize, same as usize, v.count_ones()])
            },
        }
    }
}

/// Replays one TLC-generated behaviour of the vector machine.
pub fn replay_case(case: &Value, tally: &mut Tally) {
    tally.cases += 1;
    let init = &case["init"]["c"];
    let key0 = hstr(&init.to_string());
    let mut obj = match guarded(|| construct(init)) {
        Ok(o) => o,
        Err(msg) => {
            tally.check(key0, true, &|| json!({"kind": "vec", "init": init, "step": -1}), &json!("ok"), &json!(format!("PANIC: {}", msg)));
            return;
        },
    };
    let ctx = |i: i64, what: &str| json!({"kind": "vec", "init": init, "steps": case["steps"], "step": i, "what": what});
    let obs0 = guarded_val(|| obj.observe());
    tally.check(hkey(&[key0, 0]), false, &|| ctx(-1, "state after constructor"), &case["init"]["obs"], &obs0);
    let mut hist_key = key0;
    let mut last = &case["init"]["obs"];
    for (i, step) in case["steps"].as_array().unwrap().iter().enumerate() {
        let c = &step["c"];
        hist_key = hkey(&[hist_key, hstr(&c.to_string())]);
        let res = match guarded(|| obj.call(c)) { Ok(v) => v, Err(msg) => { tally.notes.push(json!(format!("panic: {}", msg))); panic_res() } };
        last = &step["obs"];
        let ok = tally.check(hist_key, true, &|| ctx(i as i64, "result"), &step["res"], &res);
        if !ok { break; }
        let obs = guarded_val(|| obj.observe());
        if !tally.check(hkey(&[hist_key, 1]), true, &|| ctx(i as i64, "state after call"), &step["obs"], &obs) { break; }
        let ones = step["obs"]["ones"].as_array().unwrap().len();
        let canon = guarded_val(|| obj.canon(&step["obs"]));
        if !tally.check(hkey(&[hist_key, 2]), true, &|| ctx(i as i64, "history independence [== canonical, same bytes, count_ones]"), &json!([1, 1, ones]), &canon) { break; }
    }
    // the vector's bits as a plain bitvector (RawVector::from / BitVector::from): counts and both set-bit iterators
    // (also after a disagreement above: the bounds monitor watches what the real object does next)
    let (blen, bones) = (last["len"].as_u64().unwrap() as usize, last["ones"].as_array().unwrap().len());
    let as_bv = guarded_val(|| {
        let raw = match &obj { AnyVec::Int(v) => RawVector::from(v.clone()), AnyVec::Raw(r) => r.clone() };
        let bv = simple_sds::bit_vector::BitVector::from(raw);
        use simple_sds::ops::{BitVec, Select, SelectZero};
        json!([bv.len(), bv.count_ones(), bv.count_zeros(), bv.one_iter().count(), bv.zero_iter().count()])
    });
    tally.check(hkey(&[hist_key, 3]), true, &|| ctx(99, "as a plain bitvector: len, count_ones, count_zeros, items of one_iter and zero_iter"), &json!([blen, bones, blen - bones, bones, blen - bones]), &as_bv);
    if ABUSE.with(|a| a.get()) { abuse(&obj, tally); }
    if case["steps"].as_array().unwrap().len() >= 2 { tally.sample(json!({"init": init, "calls": case["steps"].as_array().unwrap().iter().map(|s| s["c"].clone()).collect::<Vec<Value>>()})); }
}

thread_local! { pub static ABUSE: std::cell::Cell<bool> = std::cell::Cell::new(false); }

/// C08 only: writes with indexes outside the vector (documented as "may panic") through the SAFE functions (set_bit,
/// IntVector::set; set_int is an unsafe fn), then the vector is used as a plain bitvector.  Whatever the calls return,
/// nothing may be read or written outside the buffers (the hooks decide).
fn abuse(obj: &AnyVec, tally: &mut Tally) {
    use simple_sds::ops::{PredSucc, Rank, Select, SelectZero};
    let raw0 = match obj { AnyVec::Int(v) => RawVector::from(v.clone()), AnyVec::Raw(r) => r.clone() };
    let len = raw0.len();
    let mut variants: Vec<RawVector> = Vec::new();
    for k in [0usize, 1, 2, 7, 62, 63, 64, 65, 130] {
        let mut r = raw0.clone();
        if guarded(|| r.set_bit(len + k, true)).is_ok() { variants.push(r); }
    }
    // lengths whose word count does not fit (only those: any smaller huge length is a real allocation request that aborts the process)
    for (new_len, fill) in [(usize::MAX, false), (usize::MAX - 10, false), (usize::MAX - 10, true), (usize::MAX - 62, true)] {
        let mut r = raw0.clone();
        let _ = guarded(|| r.resize(new_len, fill));
        variants.push(r);       // whether or not the call panicked, the vector is used afterwards
    }
    if let AnyVec::Int(v) = obj {
        for k in [0usize, 1, 2, 5] {
            let mut x = v.clone();
            if guarded(|| x.set(v.len() + k, u64::MAX)).is_ok() { variants.push(RawVector::from(x)); }
        }
    }
    for r in variants {
        let _ = guarded(|| {
            let mut bv = simple_sds::bit_vector::BitVector::from(r);
            if simple_sds::ops::BitVec::len(&bv) > (1 << 40) { return bv.one_iter().take(300).count() + bv.zero_iter().take(300).count(); }   // (no support structures for an impossible length)
            let a = bv.one_iter().take(300).count() + bv.zero_iter().take(300).count();
            bv.enable_rank(); bv.enable_select(); bv.enable_select_zero();
            let b = (0..8).map(|i| bv.select(i).unwrap_or(0) + bv.select_zero(i).unwrap_or(0) + bv.rank(i * 9)).sum::<usize>();
            let c = bv.predecessor(len + 70).next().is_some() as usize + bv.successor(0).next().is_some() as usize;
            a + b + c
        });
        tally.evals += 1;
    }
}

//-----------------------------------------------------------------------------
// Recording random histories at real widths with arbitrary values.

fn random_value(rng: &mut Rng, width: usize) -> u64 {
    match rng.below(8) {
        0 => 0,
        1 => u64::MAX,
        2 => 1u64 << rng.below(64),
        3 => if width >= 64 { u64::MAX } else { (1u64 << width) | 1 },      // wider than the item
        4 => if width >= 64 { 1u64 << 63 } else { 1u64 << (width.max(1) - 1) },
        _ => rng.next(),
    }
}

const MAX_BITS: usize = 2048;

fn random_int_call(rng: &mut Rng, v: &IntVector) -> Value {
    let w = v.width();
    let k = v.len();
    let room = (k + 2) * w <= MAX_BITS;
    loop {
        let c = match rng.below(14) {
            0 | 1 | 2 if room => json!({"op": "push", "v": u64_to_set(random_value(rng, w))}),
            3 => json!({"op": "pop"}),
            4 if k > 0 => json!({"op": "get", "i": rng.below(k)}),
            5 if k > 0 => json!({"op": "set", "i": rng.below(k), "v": u64_to_set(random_value(rng, w))}),
            6 => {
                let n = match rng.below(4) { 0 => k.saturating_sub(rng.below(3)), 1 => k / 2, 2 => k + rng.below(4), _ => k + 1 };
                if n * w > MAX_BITS { continue; }
                json!({"op": "resize", "n": n, "v": u64_to_set(random_value(rng, w))})
            },
            7 if rng.chance(1, 6) => json!({"op": "clear"}),
            8 => json!({"op": "reserve", "n": rng.below(40)}),
            9 if rng.chance(1, 2) => json!({"op": "pack"}),
            10 if room => {
                let n = rng.range(0, 3);
                if (k + n) * w > MAX_BITS { continue; }
                json!({"op": "extend", "vs": (0..n).map(|_| u64_to_set(random_value(rng, w))).collect::<Vec<Value>>()})
            },
            11 => json!({"op": "count_ones"}),
            12 => json!({"op": "len"}),
            13 => json!({"op": "width"}),
            _ => continue,
        };
        return c;
    }
}

fn random_raw_call(rng: &mut Rng, v: &RawVector) -> Value {
    let n = v.len();
    let room = n + 130 <= MAX_BITS;
    loop {
        let c = match rng.below(16) {
            0 if room => json!({"op": "push_bit", "b": rng.chance(1, 2)}),
            1 | 2 if room => { let w = *rng.pick(&[0usize, 1, 2, 7, 13, 31, 32, 33, 63, 64]); json!({"op": "push_int", "v": u64_to_set(random_value(rng, w)), "w": w}) },
            3 => json!({"op": "pop_bit"}),
            4 | 5 => json!({"op": "pop_int", "w": *rng.pick(&[0usize, 1, 5, 17, 32, 33, 63, 64])}),
            6 if n > 0 => json!({"op": "bit", "i": rng.below(n)}),
            7 if n > 0 => json!({"op": "set_bit", "i": rng.below(n), "b": rng.chance(1, 2)}),
            8 if n > 0 => { let w = rng.range(0, 64.min(n)); json!({"op": "int", "i": rng.below(n - w + 1), "w": w}) },
            9 if n > 0 => { let w = rng.range(0, 64.min(n)); json!({"op": "set_int", "i": rng.below(n - w + 1), "v": u64_to_set(random_value(rng, w)), "w": w}) },
            10 | 11 => {
                let m = match rng.below(5) { 0 => n.saturating_sub(rng.below(70)), 1 => n / 2, 2 => n + rng.below(70), 3 => (n / 64) * 64, _ => n + 64 };
                if m > MAX_BITS { continue; }
                json!({"op": "resize_bits", "n": m, "b": rng.chance(1, 2)})
            },
            12 if rng.chance(1, 6) => json!({"op": "clear"}),
            13 => json!({"op": "complement"}),
            14 => json!({"op": "count_ones"}),
            15 => json!({"op": "len"}),
            _ => continue,
        };
        return c;
    }
}

pub fn record_vec(seed: u64, thorough: bool, path: &str) -> Value {
    let mut rng = Rng::new(seed);
    let mut out = TraceOut::new();
    let histories = if thorough { 150 } else { 24 };
    let mut calls = 0usize;
    for h in 0..histories {
        let is_int = h % 2 == 0;
        let init = if is_int {
            let w = if h % 8 == 0 { *rng.pick(&[1usize, 7, 31, 32, 33, 63, 64]) } else { rng.range(1, 64) };
            match rng.below(3) {
                0 => json!({"op": "new", "w": w}),
                1 => json!({"op": "with_capacity", "n": rng.below(20), "w": w}),
                _ => json!({"op": "with_len", "n": rng.below(MAX_BITS / (2 * w) + 1).min(12), "w": w, "v": u64_to_set(random_value(&mut rng, w))}),
            }
        } else {
            match rng.below(3) {
                0 => json!({"op": "new_raw"}),
                1 => json!({"op": "with_capacity_raw", "n": rng.below(300)}),
                _ => json!({"op": "with_len_raw", "n": *rng.pick(&[0usize, 1, 63, 64, 65, 127, 128, 200]), "b": rng.chance(1, 2)}),
            }
        };
        let mut obj = construct(&init);
        let obs = obj.observe();
        let canon = obj.canon(&obs);
        out.push(json!({"e": "init", "c": init, "obs": obs, "canon": canon}));
        let steps = if thorough { rng.range(50, 400) } else { rng.range(40, 120) };
        for _ in 0..steps {
            let c = match &obj { AnyVec::Int(v) => random_int_call(&mut rng, v), AnyVec::Raw(v) => random_raw_call(&mut rng, v) };
            let res = match guarded(|| obj.call(&c)) { Ok(v) => v, Err(_) => panic_res() };
            let obs = guarded_val(|| obj.observe());
            let canon = guarded_val(|| obj.canon(&obs));
            out.push(json!({"e": "call", "c": c, "res": res, "obs": obs, "canon": canon}));
            calls += 1;
            if res == panic_res() { break; }
        }
    }
    out.write(path);
    json!({"histories": histories, "queries": calls, "events": out.lines.len(), "sample": serde_json::from_str::<Value>(&out.lines[1]).unwrap()})
}
