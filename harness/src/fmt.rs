//! The published format (C07), both directions, and files without support structures (C19).
//!
//! Direction 2 (document -> library): files produced by tla/Format.tla's encoder are loaded by the library.
//! Direction 1 (library -> document): bytes produced by the library are handed to TLC (TraceFormat).

use crate::bv::{self, AnyBv, Runs};
use std::convert::TryFrom;
use crate::common::*;
use crate::layout::{to_bytes, to_elements};
use crate::ser::Val;
use serde_json::{json, Value};
use simple_sds::bit_vector::BitVector;
use simple_sds::int_vector::IntVector;
use simple_sds::ops::{Access, BitVec, Push, Rank, Select, SelectZero, Vector};
use simple_sds::raw_vector::{AccessRaw, RawVector};
use simple_sds::rl_vector::RLVector;
use simple_sds::serialize::{self, Serialize};
use simple_sds::sparse_vector::SparseVector;
use simple_sds::wavelet_matrix::wm_core::WMCore;
use simple_sds::wavelet_matrix::WaveletMatrix;

pub fn elems_to_bytes(v: &Value) -> Vec<u8> {
    let mut out = Vec::new();
    for e in v.as_array().unwrap() { out.extend_from_slice(&crate::vec::set_to_u64(e).to_le_bytes()); }
    out
}

pub fn elems_json(bytes: &[u8]) -> Value {
    Value::Array(to_elements(bytes).iter().map(|e| crate::vec::u64_to_set(*e)).collect())
}

fn runs_from_ones(len: usize, ones: &Value) -> Runs {
    bv::normalize(len, ones.as_array().unwrap().iter().map(|p| (p.as_u64().unwrap() as usize, 1)).collect())
}

/// Direction 2: a file written from the document's rules alone must load and answer all queries.
pub fn replay_case(case: &Value, tally: &mut Tally) {
    tally.cases += 1;
    let t = case["t"].as_str().unwrap();
    let bytes = elems_to_bytes(&case["elems"]);
    let c = &case["content"];
    let ckey = hstr(&format!("{}{}", t, case["content"]));
    let ctx = |what: &str| json!({"kind": "format", "type": t, "content": c, "elements": bytes.len() / 8, "what": what});
    let r = guarded(|| -> Vec<(&'static str, Value, Value)> {
        let mut out = Vec::new();
        let mut cur = std::io::Cursor::new(&bytes);
        macro_rules! loaded { ($ty:ty) => { match <$ty>::load(&mut cur) { Ok(v) => v, Err(e) => { out.push(("load of a file written from the document's rules", json!("ok"), json!(e.to_string()))); return out; } } } }
        match t {
            "raw" => {
                let v = loaded!(RawVector);
                out.push(("length", c["len"].clone(), json!(v.len())));
                out.push(("set bits", c["ones"].clone(), json!((0..v.len()).filter(|i| v.bit(*i)).collect::<Vec<usize>>())));
            },
            "int" => {
                let v = loaded!(IntVector);
                out.push(("width", c["w"].clone(), json!(v.width())));
                out.push(("items", c["items"].clone(), json!(v.iter().collect::<Vec<u64>>())));
            },
            "bv" => {
                let mut v = loaded!(BitVector);
                let len = c["len"].as_u64().unwrap() as usize;
                out.push(("supports present", json!([false, false, false]), json!([v.supports_rank(), v.supports_select(), v.supports_select_zero()])));
                v.enable_rank(); v.enable_select(); v.enable_select_zero();
                let mut d = bv::plain_raw(len, &runs_from_ones(len, &c["ones"]));
                d.enable_rank(); d.enable_select(); d.enable_select_zero();
                out.push(("set bits", c["ones"].clone(), json!(v.one_iter().map(|x| x.1).collect::<Vec<usize>>())));
                out.push(("after enabling the support structures: == the directly built bitvector", json!(true), json!(v == d)));
                out.push(("answers", Val::Bv(d).answers(), Val::Bv(v).answers()));
            },
            "sparse" => {
                let v = loaded!(SparseVector);
                let len = c["len"].as_u64().unwrap() as usize;
                let d = bv::sparse_builder(len, &runs_from_ones(len, &c["ones"]));
                out.push(("length", c["len"].clone(), json!(v.len())));
                out.push(("set bits", c["ones"].clone(), json!(v.one_iter().map(|x| x.1).collect::<Vec<usize>>())));
                out.push(("answers (rank, select_zero, iterators) as the vector built by the library's own builder", Val::Sparse(d).answers(), Val::Sparse(v.clone()).answers()));
                let q: Vec<Value> = (0..=len + 1).map(|i| json!([v.rank(i), enc_opt(v.select(i)), if i < len { json!(v.get(i)) } else { json!(null) }, enc_pair(simple_sds::ops::PredSucc::predecessor(&v, i).next()), enc_pair(simple_sds::ops::PredSucc::successor(&v, i).next())])).collect();
                let dd = bv::sparse_builder(len, &runs_from_ones(len, &c["ones"]));
                let qd: Vec<Value> = (0..=len + 1).map(|i| json!([dd.rank(i), enc_opt(dd.select(i)), if i < len { json!(dd.get(i)) } else { json!(null) }, enc_pair(simple_sds::ops::PredSucc::predecessor(&dd, i).next()), enc_pair(simple_sds::ops::PredSucc::successor(&dd, i).next())])).collect();
                out.push(("rank / select / get / predecessor / successor at every argument", json!(qd), json!(q)));
            },
            "rl" => {
                let v = loaded!(RLVector);
                let len = c["len"].as_u64().unwrap() as usize;
                let runs: Runs = bv::parse_runs(&c["runs"]);
                let d = bv::rl_runs(len, &runs);
                out.push(("length", c["len"].clone(), json!(v.len())));
                out.push(("maximal runs", c["runs"].clone(), json!(v.run_iter().collect::<Vec<(usize, usize)>>())));
                out.push(("answers as the vector built by the library's own builder", Val::RL(d.clone()).answers(), Val::RL(v.clone()).answers()));
                let probe = |x: &RLVector| -> Vec<Value> { let mut a: Vec<usize> = vec![0, 1, len / 2, len.saturating_sub(1), len, len + 1]; for (s, l) in runs.iter() { a.extend([s.saturating_sub(1), *s, s + l - 1, s + l]); } a.iter().map(|i| json!([x.rank(*i), if *i < len { json!(x.get(*i)) } else { json!(null) }, enc_pair(simple_sds::ops::PredSucc::predecessor(x, *i).next()), enc_pair(simple_sds::ops::PredSucc::successor(x, *i).next())])).collect() };
                out.push(("rank / get / predecessor / successor around every run", json!(probe(&d)), json!(probe(&v))));
                // The reader accepts any sufficient sample width; what the library WRITES for the structure it now holds must follow
                // the document again (minimal sample width - the document leaves the writer of a run-length vector no choice), so the
                // loaded structure is == to and serializes like the one made by the library's own builder.
                out.push(("the loaded vector == the vector built by the library's own builder", json!(true), json!(v == d)));
                out.push(("the loaded vector is written back as the library writes the same bits (minimal sample width)", json!(true), json!(to_bytes(&d) == to_bytes(&v))));
            },
            "wmcore" => {
                let v = loaded!(WMCore);
                let vals: Vec<u64> = c["vals"].as_array().unwrap().iter().map(|x| x.as_u64().unwrap()).collect();
                let d = WMCore::from(vals.clone());
                out.push(("items", c["vals"].clone(), json!((0..v.len()).map(|i| v.map_down(i).unwrap().1).collect::<Vec<u64>>())));
                out.push(("== the core built by the library", json!(true), json!(v == d)));
                out.push(("answers", Val::WMCore(d).answers(), Val::WMCore(v).answers()));
            },
            "wmcore64" => {
                let v = loaded!(WMCore);
                let vals: Vec<u64> = c["vals"].as_array().unwrap().iter().map(crate::vec::set_to_u64).collect();
                let d = WMCore::from(vals.clone());
                out.push(("width", json!(d.width()), json!(v.width())));
                out.push(("items", json!(vals.iter().map(|x| x.to_string()).collect::<Vec<String>>()), json!((0..v.len()).map(|i| v.map_down(i).unwrap().1.to_string()).collect::<Vec<String>>())));
                out.push(("== the core built by the library", json!(true), json!(v == d)));
                let probe = |x: &WMCore| -> Value { json!((0..x.len()).map(|i| { let (p, val) = x.map_down(i).unwrap(); json!([p, val.to_string(), x.map_up_with(p, val), x.map_down_with(i, val)]) }).collect::<Vec<Value>>()) };
                out.push(("map_down / map_up_with / map_down_with at every index", probe(&d), probe(&v)));
            },
            "wm" => {
                let v = loaded!(WaveletMatrix);
                let vals: Vec<u64> = c["vals"].as_array().unwrap().iter().map(|x| x.as_u64().unwrap()).collect();
                let d = WaveletMatrix::from(vals.clone());
                out.push(("items", c["vals"].clone(), json!(v.iter().collect::<Vec<u64>>())));
                out.push(("== the wavelet matrix built by the library", json!(true), json!(v == d)));
                out.push(("answers", Val::WM(d).answers(), Val::WM(v).answers()));
            },
            _ => panic!("TOOL-ERROR: unknown format case type {}", t),
        }
        out.push(("the loader consumed the whole file", json!(bytes.len()), json!(cur.position())));
        // the same file as the payload of a present optional structure (header = its size in elements):
        // Option<T>::load returns Some(value) equal to the directly loaded one and consumes header + payload
        {
            let mut wrapped: Vec<u8> = ((bytes.len() / 8) as u64).to_le_bytes().to_vec();
            wrapped.extend_from_slice(&bytes);
            macro_rules! opt { ($ty:ty) => {{
                let mut c2 = std::io::Cursor::new(&wrapped);
                let direct = <$ty>::load(&mut std::io::Cursor::new(&bytes)).ok();
                match Option::<$ty>::load(&mut c2) {
                    Ok(o) => json!([o.is_some(), o == direct, c2.position()]),
                    Err(e) => json!(e.to_string()),
                }
            }} }
            let got = match t { "raw" => opt!(RawVector), "int" => opt!(IntVector), "bv" => opt!(BitVector), "sparse" => opt!(SparseVector), "rl" => opt!(RLVector),
                                "wmcore" | "wmcore64" => opt!(WMCore), "wm" => opt!(WaveletMatrix), _ => json!(null) };
            if !bytes.is_empty() && !got.is_null() {
                out.push(("as the payload of a present optional structure: Some, equal to the directly loaded value, header + payload consumed", json!([true, true, wrapped.len()]), got));
            }
        }
        out
    });
    match r {
        Ok(list) => for (j, (what, exp, got)) in list.iter().enumerate() { tally.check(hkey(&[ckey, j as u64]), true, &|| ctx(what), exp, got); },
        Err(msg) => { tally.check(ckey, true, &|| ctx("panic"), &json!("no panic"), &json!(format!("PANIC: {}", msg))); },
    }
    tally.sample(json!({"type": t, "content": c, "elements": bytes.len() / 8}));
}

//-----------------------------------------------------------------------------
// Direction 1: library bytes -> TLC.

/// A file event: the bytes the library wrote for `x`, and whether the library loads its own file back into an equal value.
fn ev<T: Serialize + PartialEq>(t: &str, x: &T, content: Value) -> Value {
    let bytes = to_bytes(x);
    let reload = guarded(|| { let mut cur = std::io::Cursor::new(&bytes); match T::load(&mut cur) { Ok(y) => y == *x && cur.position() as usize == bytes.len(), Err(_) => false } }).unwrap_or(false);
    json!({"e": "file", "t": t, "elems": elems_json(&bytes), "content": content, "reload": reload})
}

fn ones_json<I: Iterator<Item = usize>>(it: I) -> Value { Value::Array(it.map(|p| json!(p)).collect()) }

pub fn record_format(seed: u64, thorough: bool, path: &str) -> Value {
    let mut rng = Rng::new(seed);
    let mut out = TraceOut::new();
    let mut files = 0usize;
    let reps = if thorough { 5 } else { 1 };
    // small-scope and random contents
    let mut contents: Vec<(usize, Runs)> = vec![(0, vec![]), (1, vec![(0, 1)]), (63, vec![(0, 1), (62, 1)]), (64, vec![(0, 64)]), (65, vec![(64, 1)]), (130, vec![(1, 3), (64, 2), (129, 1)]), (10, vec![]), (700, vec![(0, 700)])];
    for _ in 0..(6 * reps) {
        let len = rng.range(50, if thorough { 1500 } else { 600 });
        let mut runs: Runs = Vec::new();
        let mut pos = rng.below(20);
        let (mg, ml) = (rng.range(1, 40), rng.range(1, 20));
        while pos < len { let l = rng.geo(ml); runs.push((pos, l)); pos += l + rng.geo(mg); }
        contents.push((len, bv::normalize(len, runs)));
    }
    // run-length contents with long values and many blocks
    let mut rl_extra: Vec<(usize, Runs)> = vec![(1 << 30, vec![(3, 1 << 20), ((1 << 25) + 7, 513)])];
    let mut runs: Runs = Vec::new();
    let mut pos = 0;
    for i in 0..(if thorough { 900 } else { 300 }) { let l = 1 + i % 9; runs.push((pos, l)); pos += l + 1 + (i * 7) % 70; }
    rl_extra.push((pos + 5, runs));
    // runs of 4 code units each (gap and length of two units): 16 of them fill a 64-unit block exactly
    for k in [16usize, 17, 32, 33, 48] {
        let runs: Runs = (0..k).map(|i| (i * 40 + 10, 10)).collect();
        rl_extra.push((k * 40 + 3, runs));
    }
    for (len, runs) in contents.iter().chain(rl_extra.iter()) {
        let (len, ones) = (*len, bv::ones_of(runs));
        let small = len <= 2000;
        if small {
            let mut raw = RawVector::with_len(len, false);
            for p in bv::positions(runs) { raw.set_bit(p, true); }
            out.push(ev("raw", &(raw), json!({"len": len, "ones": ones_json(bv::positions(runs))})));
            let mut b = BitVector::from(raw);
            if rng.chance(1, 2) { b.enable_rank(); } if rng.chance(1, 2) { b.enable_select(); } if rng.chance(1, 3) { b.enable_select_zero(); }
            out.push(ev("bv", &(b), json!({"len": len, "ones": ones_json(bv::positions(runs)), "sup": [b.supports_rank(), b.supports_select(), b.supports_select_zero()]})));
            files += 2;
        }
        if ones <= 3000 {
            let sv = bv::sparse_builder(len, runs);
            out.push(ev("sparse", &(sv), json!({"len": len, "ones": ones_json(bv::positions(runs))})));
            files += 1;
        }
        // the file of a run-length vector does not depend on how the builder was driven: per run, bit by bit, split runs that must
        // merge, set_len before every run, empty runs and no-op set_len calls between the halves of a run (rotating)
        let routes = ["runs", "split", "set_len_steps", "zero_runs", "bits"];
        let route = if len > 5000 { "runs" } else { routes[files % routes.len()] };
        let rv = match bv::build("rl", route, len, runs) { AnyBv::RL(v) => v, _ => unreachable!() };
        out.push(ev("rl", &(rv), json!({"len": len, "runs": bv::runs_json(runs)})));
        files += 1;
    }
    // plain bitvectors that are the result of a conversion: from a sparse vector, from a run-length vector, and from multisets
    // (duplicates collapse into one bit: the number of set bits in the file is that of the bit sequence)
    for (u, vals) in [(50usize, vec![3usize, 4, 4, 7, 11, 19]), (10, vec![0, 0, 0, 5, 5, 9, 9, 9, 9, 9, 9, 9]), (130, vec![64, 64, 65, 129, 129]), (200, (0..150).map(|i| (i * 4) / 3).collect())] {
        let mut b = simple_sds::sparse_vector::SparseBuilder::multiset(u, vals.len());
        for v in vals.iter() { b.set(*v); }
        let ms = SparseVector::try_from(b).unwrap();
        let mut distinct = vals.clone(); distinct.dedup();
        for (k, bvec) in [BitVector::from(ms.clone()), BitVector::copy_bit_vec(&ms)].into_iter().enumerate() {
            let mut bvec = bvec;
            if k == 1 { bvec.enable_rank(); bvec.enable_select(); }
            out.push(ev("bv", &bvec, json!({"len": u, "ones": distinct, "sup": [bvec.supports_rank(), bvec.supports_select(), bvec.supports_select_zero()]})));
            files += 1;
        }
    }
    // unbalanced bitvectors with every support structure: the numbers of ones- and zeros-superblocks differ
    for (len, step, all) in [(9000usize, 61usize, true), (9000, 1, false), (4097, 4096, true)] {
        let mut raw = RawVector::with_len(len, !all);
        for p in (0..len).step_by(step) { raw.set_bit(p, all); }
        let ones: Vec<usize> = (0..len).filter(|i| raw.bit(*i)).collect();
        let mut b = BitVector::from(raw);
        b.enable_rank(); b.enable_select(); b.enable_select_zero();
        out.push(ev("bv", &b, json!({"len": len, "ones": ones, "sup": [true, true, true]})));
        files += 1;
    }
    {
        // a sparse vector whose `high` has more than one superblock of ones and one of zeros
        let n = 1usize << 20;
        let runs: Runs = (0..4300usize).map(|i| (i * 243 + (i % 7), 1)).collect();
        let sv = bv::sparse_builder(n, &runs);
        out.push(ev("sparse", &sv, json!({"len": n, "ones": ones_json(bv::positions(&runs))})));
        files += 1;
    }
    // integer vectors, byte vectors, strings, options, wavelet matrices
    for _ in 0..(8 * reps) {
        let w = rng.range(1, 30);
        let n = rng.below(60);
        let items: Vec<u64> = (0..n).map(|_| rng.next() & ((1u64 << w) - 1)).collect();
        let mut v = IntVector::new(w).unwrap();
        for x in items.iter() { v.push(*x); }
        out.push(ev("int", &(v), json!({"w": w, "items": items})));
        let nb = rng.below(40);
        let bytes: Vec<u8> = (0..nb).map(|_| rng.next() as u8).collect();
        out.push(ev("bytes", &(bytes), json!({"bytes": bytes})));
        let s: String = (0..rng.below(12)).map(|_| *rng.pick(&['a', 'ñ', '€', 'z'])).collect();
        out.push(ev("bytes", &(s), json!({"bytes": s.as_bytes()})));
        let opt: Option<Vec<u64>> = if rng.chance(1, 2) { None } else { Some((0..rng.below(5)).map(|_| rng.next() >> 40).collect()) };
        out.push(ev("opt_vec", &(opt), json!({"present": opt.is_some(), "items": opt.clone().unwrap_or_default()})));
        let width = rng.range(1, 9);
        let len = rng.below(if thorough { 120 } else { 60 });
        let vals: Vec<u64> = (0..len).map(|_| if rng.chance(1, 4) { 0 } else { rng.below(1 << width) as u64 }).collect();
        out.push(ev("wm", &(WaveletMatrix::from(vals.clone())), json!({"vals": vals})));
        out.push(ev("wmcore", &(WMCore::from(vals.clone())), json!({"vals": vals})));
        files += 6;
    }
    // cores with 64 levels (items with bit 63): items travel as sets of bit positions
    for rep in 0..(2 * reps) {
        let n = if rep == 0 { 1 } else { rng.range(2, 12) };
        let vals: Vec<u64> = (0..n).map(|i| if i == 0 { 1u64 << 63 } else if rng.chance(1, 3) { rng.next() } else { rng.next() >> rng.range(1, 63) }).collect();
        let core = WMCore::from(vals.clone());
        let mut e = ev("wmcore64", &core, json!({"vals": vals.iter().map(|x| crate::vec::u64_to_set(*x)).collect::<Vec<Value>>()}));
        e["t"] = json!("wmcore64");
        out.push(e);
        files += 1;
    }
    // vectors that went through shrinking histories: the unused bits of the last element must still be 0
    for rep in 0..(6 * reps) {
        use simple_sds::ops::{Pop, Resize};
        use simple_sds::raw_vector::{PopRaw, PushRaw};
        let w = *rng.pick(&[1usize, 5, 13, 21, 29]);
        let n = rng.range(6, 40);
        let mut v = IntVector::with_len(n, w, (1u64 << w) - 1).unwrap();
        for _ in 0..rng.range(1, 4) { v.pop(); }
        if rep % 2 == 0 { let keep = v.len() / 2 + 1; v.resize(keep, 0); }
        let items: Vec<u64> = v.iter().collect();
        out.push(ev("int", &(v), json!({"w": w, "items": items})));
        let mut raw = RawVector::with_len(rng.range(65, 200), true);
        for _ in 0..rng.range(1, 3) { unsafe { raw.pop_int(rng.range(1, 64)); } }
        if rep % 3 == 0 { raw = raw.complement(); raw.push_bit(true); unsafe { raw.pop_int(1); } }
        if rep % 3 == 1 { let l = raw.len(); raw.resize(l - rng.range(1, 60).min(l), false); }
        let ones: Vec<usize> = (0..raw.len()).filter(|i| raw.bit(*i)).collect();
        out.push(ev("raw", &(raw), json!({"len": raw.len(), "ones": ones})));
        files += 2;
    }
    // files produced by the buffered writers, finished by close() and by dropping the open writer
    for rep in 0..(4 * reps) {
        use simple_sds::int_vector::IntVectorWriter;
        use simple_sds::raw_vector::{PushRaw, RawVectorWriter};
        let w = *rng.pick(&[1usize, 7, 13, 29]);      // items must fit a TLC integer
        let n = if rep == 0 { 0 } else { rng.range(1, 70) };
        let items: Vec<u64> = (0..n).map(|_| rng.next() & ((1u64 << w) - 1)).collect();
        let fname = serialize::temp_file_name("verif-fmt-writer");
        {
            // a longer file is already in the way: what the writer leaves must be the vector's file and nothing else
            let _ = std::fs::write(&fname, vec![0xEEu8; 4096 + 40]);
            let mut wr = if rep % 3 == 2 { IntVectorWriter::new(&fname, w).unwrap() } else { IntVectorWriter::with_buf_len(&fname, w, *rng.pick(&[0usize, 3, 64])).unwrap() };
            for x in items.iter() { wr.push(*x); }
            if rep % 2 == 0 { wr.close().unwrap(); }
        }
        let bytes = std::fs::read(&fname).unwrap_or_default();
        let reload = serialize::load_from::<IntVector, _>(&fname).map(|v| v.iter().collect::<Vec<u64>>() == items && v.width() == w).unwrap_or(false);
        out.push(json!({"e": "file", "t": "int", "elems": elems_json(&bytes), "content": {"w": w, "items": items}, "reload": reload}));
        let _ = std::fs::remove_file(&fname);
        let nbits = if rep == 1 { 0 } else { rng.range(1, 200) };
        let bits: Vec<bool> = (0..nbits).map(|_| rng.chance(1, 3)).collect();
        {
            let mut header: Vec<u64> = Vec::new();
            let _ = std::fs::write(&fname, vec![0xEEu8; 4096 + 40]);
            let mut wr = if rep % 3 == 2 { RawVectorWriter::new(&fname, &mut header).unwrap() } else { RawVectorWriter::with_buf_len(&fname, &mut header, *rng.pick(&[0usize, 64, 100])).unwrap() };
            for b in bits.iter() { wr.push_bit(*b); }
            if rep % 2 == 1 { wr.close().unwrap(); }
        }
        let bytes = std::fs::read(&fname).unwrap_or_default();
        let ones: Vec<usize> = (0..nbits).filter(|i| bits[*i]).collect();
        let reload = serialize::load_from::<RawVector, _>(&fname).map(|v| v.len() == nbits && (0..nbits).all(|i| v.bit(i) == bits[i])).unwrap_or(false);
        out.push(json!({"e": "file", "t": "raw", "elems": elems_json(&bytes), "content": {"len": nbits, "ones": ones}, "reload": reload}));
        let _ = std::fs::remove_file(&fname);
        files += 2;
    }
    // skip_option / absent_option on the optional support structures of a bitvector
    for (ci, (len, runs)) in contents.iter().take(10).enumerate() {
        let mut b = bv::plain_raw(*len, runs);
        b.enable_rank(); b.enable_select(); if rng.chance(1, 2) { b.enable_select_zero(); }
        let bytes = to_bytes(&b);
        // through readers that return everything asked for, and through readers that legally return less per call (pipes, buffered readers)
        for chunk in [usize::MAX, [1usize, 3, 7, 4096, 5000][ci % 5]] {
            let mut cur = crate::ser::Counting { inner: crate::ser::Chunked { inner: std::io::Cursor::new(&bytes), chunk }, count: 0 };
            let _ = usize::load(&mut cur);
            let _ = RawVector::load(&mut cur);
            let mut pos: Vec<u64> = vec![(cur.count / 8) as u64];
            let mut ok = true;
            for _ in 0..3 { ok &= serialize::skip_option(&mut cur).is_ok(); pos.push((cur.count / 8) as u64); }
            ok &= cur.count % 8 == 0;
            out.push(json!({"e": "skip", "elems": elems_json(&bytes), "ok": ok, "positions": pos}));
        }
    }
    let mut buf: Vec<u8> = Vec::new();
    let ok = serialize::absent_option(&mut buf).is_ok();
    out.push(json!({"e": "absent", "ok": ok, "elems": elems_json(&buf), "size": serialize::absent_option_size()}));
    out.write(path);
    json!({"files": files, "queries": files, "events": out.lines.len(), "sample": {"type": "see evidence stages"}})
}
