//! Temporary file names under concurrency (C20): program extraction, stress traces, gated schedules.

use crate::common::*;
use serde_json::{json, Value};
use simple_sds::serialize::temp_file_name;
use simple_sds::verif_hooks as hooks;
use std::sync::{Arc, Condvar, Mutex};

/// A serializable value that notes which files carrying its name part exist while it is being written:
/// the path serialize::test obtained from temp_file_name internally.
#[derive(Debug)]
struct Probe { part: String, seen: std::cell::RefCell<Vec<String>> }
impl PartialEq for Probe { fn eq(&self, _: &Probe) -> bool { true } }
impl simple_sds::serialize::Serialize for Probe {
    fn serialize_header<T: std::io::Write>(&self, _: &mut T) -> std::io::Result<()> { Ok(()) }
    fn serialize_body<T: std::io::Write>(&self, writer: &mut T) -> std::io::Result<()> {
        if let Ok(dir) = std::fs::read_dir(std::env::temp_dir()) {
            for f in dir.flatten() { let n = f.file_name().to_string_lossy().to_string(); if n.contains(&self.part) { self.seen.borrow_mut().push(n); } }
        }
        simple_sds::serialize::Serialize::serialize(&7usize, writer)
    }
    fn load<T: std::io::Read>(reader: &mut T) -> std::io::Result<Self> { let _ = <usize as simple_sds::serialize::Serialize>::load(reader)?; Ok(Probe { part: String::new(), seen: Default::default() }) }
    fn size_in_elements(&self) -> usize { 1 }
}

fn parse_count(path: &std::path::Path) -> Option<usize> {
    path.file_name()?.to_str()?.rsplit('_').next()?.parse().ok()
}

/// The primitives one call performs on the counter (single-threaded calibration).
pub fn calibrate() -> Value {
    hooks::set_thread_tag(0);
    hooks::start_atomic_log();
    let p = temp_file_name("calib");
    let log = hooks::stop_atomic_log();
    let ops: Vec<String> = log.iter().map(|e| match e.op { "cas_ok" | "cas_fail" => "cas".to_string(), o => o.to_string() }).collect();
    // How many compare-and-swap attempts does the code make when every attempt is made to fail?
    // (0 = it keeps retrying until it succeeds.)
    let mut max_attempts = 0usize;
    if ops.iter().any(|o| o == "cas") {
        let budget = Arc::new(Mutex::new(6usize));
        let b2 = budget.clone();
        hooks::set_gate(Some(Arc::new(move |tag: usize, op: &'static str| {
            if tag != 1 || op != "cas" { return; }
            let mut left = b2.lock().unwrap();
            if *left == 0 { return; }
            *left -= 1;
            drop(left);
            hooks::set_thread_tag(99);
            let _ = temp_file_name("interfere");     // another caller gets in between
            hooks::set_thread_tag(1);
        })));
        hooks::set_thread_tag(1);
        hooks::start_atomic_log();
        let _ = temp_file_name("calib2");
        let log = hooks::stop_atomic_log();
        hooks::set_gate(None);
        hooks::set_thread_tag(0);
        let mine: Vec<&str> = log.iter().filter(|e| e.thread == 1).map(|e| e.op).collect();
        let fails = mine.iter().filter(|o| **o == "cas_fail").count();
        let succeeded = mine.iter().any(|o| *o == "cas_ok");
        if !succeeded { max_attempts = fails; }
    }
    json!({"program": ops, "max_attempts": max_attempts, "path": p.to_string_lossy(), "count": parse_count(&p)})
}

pub fn record_temp(seed: u64, thorough: bool, path: &str) -> Value {
    let threads = if thorough { 16 } else { 8 };
    let calls = if thorough { 2000 } else { 500 };
    let _ = seed;
    // current counter value: one call outside the log
    let first = temp_file_name("verif-temp-start");
    let start = parse_count(&first).map(|c| c + 1).unwrap_or(0);
    hooks::start_atomic_log();
    let mut handles = Vec::new();
    for t in 0..threads {
        handles.push(std::thread::spawn(move || {
            hooks::set_thread_tag(t);
            let part = format!("part_{}_x{}", t, t * 7);
            let mut v: Vec<(String, String)> = Vec::with_capacity(calls);
            for _ in 0..calls { v.push((part.clone(), temp_file_name(&part).to_string_lossy().to_string())); }
            v
        }));
    }
    let mut results: Vec<Vec<(String, String)>> = handles.into_iter().map(|h| h.join().unwrap()).collect();
    // the name format around powers of two: move the counter and take a few names on each side
    hooks::set_thread_tag(threads);
    let mut extra: Vec<(String, String)> = Vec::new();
    let take = |extra: &mut Vec<(String, String)>, n: usize| { for _ in 0..n { extra.push(("part_0_x0".to_string(), temp_file_name("part_0_x0").to_string_lossy().to_string())); } };
    // (the threads above made at most 32 000 calls: the counter is below 2^16 - 3; everything below moves it forward only)
    hooks::force_store_all((1usize << 16) - 3);
    take(&mut extra, 6);
    // names that repeat with a period: from a base value, the same part at base + 2^k for every k
    let base = (1usize << 17) + 77;
    hooks::force_store_all(base);
    take(&mut extra, 3);
    for k in 18..48u32 {
        if k == 32 { hooks::force_store_all((1usize << 32) - 3); take(&mut extra, 6); }
        hooks::force_store_all(base + (1usize << k));
        take(&mut extra, 3);
    }
    // ... and the temporary directory changed while the process runs: A, B, then A again
    {
        let orig = std::env::var_os("TMPDIR");
        let root = std::env::temp_dir();
        let (a, b) = (root.join("verif-temp-A"), root.join("verif-temp-B"));
        let _ = std::fs::create_dir_all(&a); let _ = std::fs::create_dir_all(&b);
        for d in [&a, &b, &a, &b] {
            std::env::set_var("TMPDIR", d);
            for _ in 0..4 { extra.push(("part_0_x0".to_string(), temp_file_name("part_0_x0").to_string_lossy().to_string())); }
        }
        match orig { Some(v) => std::env::set_var("TMPDIR", v), None => std::env::remove_var("TMPDIR") }
        let _ = std::fs::remove_dir_all(&a); let _ = std::fs::remove_dir_all(&b);
    }
    for shift in [48u32] {
        hooks::force_store_all((1usize << shift) - 3);
        for _ in 0..6 { extra.push(("part_0_x0".to_string(), temp_file_name("part_0_x0").to_string_lossy().to_string())); }
    }
    results.push(extra);
    // the other public function that takes a temporary name: serialize::test, with and without removing its file,
    // alternating with direct calls that use the same name part
    hooks::set_thread_tag(threads + 1);
    let mut probe_names: Vec<(String, String)> = Vec::new();
    let ppart = "part_probe".to_string();
    for i in 0..8 {
        let probe = Probe { part: ppart.clone(), seen: Default::default() };
        let kept = guarded(|| simple_sds::serialize::test(&probe, &ppart, Some(1), i % 2 == 0));
        if let Ok(Some(p)) = &kept { let _ = std::fs::remove_file(p); }
        let seen = probe.seen.borrow();
        // exactly the file being written carries the part (earlier ones were removed)
        probe_names.push((ppart.clone(), if seen.len() == 1 { std::env::temp_dir().join(&seen[0]).to_string_lossy().to_string() } else { format!("PROBE-FAILED {:?} {:?}", seen, kept.as_ref().err()) }));
        probe_names.push((ppart.clone(), temp_file_name(&ppart).to_string_lossy().to_string()));
    }
    results.push(probe_names);
    // name parts that a path library may treat specially: dots (extensions), spaces, long parts
    hooks::set_thread_tag(threads + 2);
    let mut special: Vec<(String, String)> = Vec::new();
    let mut parts: Vec<String> = ["part.v2", "archive.tar.gz", "dot.", ".hidden", "a b", "x..y", "p_1_2", "sub-dir/", "sub//file", "sub/.", "sub/file", "./rel"].iter().map(|s| s.to_string()).collect();
    for n in [100usize, 200, 240, 245, 250, 255, 256, 300] { parts.push(format!("L{}{}", n, "z".repeat(n - 4))); }
    for part in parts.iter() { for _ in 0..3 { special.push((part.clone(), temp_file_name(part).to_string_lossy().to_string())); } }
    results.push(special);
    // stale files: files that already exist under the names the next calls would produce (a recycled process id);
    // the names handed out must stay pairwise different whatever the function does about them
    hooks::set_thread_tag(threads + 3);
    let mut stale: Vec<(String, String)> = Vec::new();
    let spart = "part_stale".to_string();
    let first = temp_file_name(&spart);
    stale.push((spart.clone(), first.to_string_lossy().to_string()));
    let mut created: Vec<std::path::PathBuf> = Vec::new();
    if let Some(c) = parse_count(&first) {
        let text = first.to_string_lossy().to_string();
        let prefix = &text[..text.len() - c.to_string().len()];
        for d in [1usize, 3, 4, 6, 9] { let p = std::path::PathBuf::from(format!("{}{}", prefix, c + d)); if std::fs::write(&p, b"stale").is_ok() { created.push(p); } }
    }
    for _ in 0..12 { stale.push((spart.clone(), temp_file_name(&spart).to_string_lossy().to_string())); }
    for p in created { let _ = std::fs::remove_file(p); }
    results.push(stale);
    let log = hooks::stop_atomic_log();
    let mut out = TraceOut::new();
    out.push(json!({"e": "start", "start": start, "threads": threads, "calls": calls}));
    let small = |x: usize| if (x as u64) <= TLC_MAX { json!(x) } else { json!(-9) };
    // after the counter has been moved beyond 2^31 the values no longer fit TLC: those events are logged by offset
    let mut base = 0usize;
    for e in log.iter() {
        if e.op == "jump" { base = if (e.new as u64) > TLC_MAX / 2 { e.new - 1000 } else { 0 }; out.push(json!({"e": "atomic", "thread": e.thread, "op": "jump", "old": 0, "new": small(e.new - base)})); continue; }
        out.push(json!({"e": "atomic", "thread": e.thread, "op": e.op, "old": small(e.old.wrapping_sub(base)), "new": small(e.new.wrapping_sub(base))}));
    }
    let pid = std::process::id().to_string();
    let mut all = std::collections::HashSet::new();
    let mut dup = 0;
    for (t, v) in results.iter().enumerate() {
        for (part, p) in v.iter() {
            // a name part may contain path separators: the part is looked for in the whole path, and the whole path below the
            // temporary directory is what must be unique
            let tmp = std::env::temp_dir().to_string_lossy().to_string();
            // two paths are the same path when their components are (Path equality: repeated separators and `.` components do not count)
            let norm: String = std::path::Path::new(p).components().map(|c| c.as_os_str().to_string_lossy().to_string()).collect::<Vec<String>>().join("/").replace("//", "/");
            let name = norm.strip_prefix(tmp.as_str()).map(|s| s.trim_start_matches('/').to_string()).unwrap_or_else(|| norm.clone());
            if !all.insert(norm.clone()) { dup += 1; }
            out.push(json!({"e": "name", "thread": t, "path": name, "has_part": p.contains(part.as_str()), "has_pid": name.contains(&pid)}));
        }
    }
    out.write(path);
    json!({"threads": threads, "calls_per_thread": calls, "queries": threads * calls, "duplicates_seen_by_harness": dup, "events": out.lines.len(), "sample": serde_json::from_str::<Value>(&out.lines[out.lines.len() - 1]).unwrap()})
}

/// A fresh process (the counter is small): adversarial requests and name parts that are different texts for the same path.
/// Only the returned paths are logged (TraceTemp in its names-only mode: Unique and the name part).
pub fn record_temp_adv(_seed: u64, _thorough: bool, path: &str) -> Value {
    let threads = 0usize;
    let mut results: Vec<Vec<(String, String)>> = Vec::new();
    // names taken early for name parts that end in what the function itself may append (the process id, separators, digits):
    // material for the adversarial requests below
    hooks::set_thread_tag(threads + 4);
    let pid_s = std::process::id().to_string();
    let mut early: Vec<(String, String)> = Vec::new();
    for _ in 0..3 { for part in [format!("adv-{}", pid_s), format!("adv{}_", pid_s), format!("adv_{}_0", pid_s), "adv-".to_string(), format!("adv-{}{}", pid_s, pid_s)] {
        early.push((part.clone(), temp_file_name(&part).to_string_lossy().to_string()));
    } }
    // adversarial requests: for every name N handed out early and every way to split it into a prefix B and a rest that ends in a
    // number c above the current counter value, the counter is moved to c and a name is requested for the part B.  If the function
    // glues part, process id and counter together without unambiguous separators, one of these requests returns N again.
    hooks::set_thread_tag(threads + 4);
    {
        // (done first, while the counter is small: this process has taken fewer than ten names; if the value cannot be read from a name, 64 is assumed)
        let cur = parse_count(&temp_file_name("verif-temp-cur")).unwrap_or(64);
        let tmp = std::env::temp_dir().to_string_lossy().to_string();
        // The counter only moves forward (a legal history), so each counter value c is used for ONE request: among the prefixes that fit c,
        // those whose rest begins with the process id come first (shortest first); the three instances of each early name try the first,
        // second and third of them.
        let mut probes: Vec<(usize, String)> = Vec::new();
        for (inst, (_, full)) in early.iter().enumerate() {
            let n = full.strip_prefix(tmp.as_str()).map(|x| x.trim_start_matches('/')).unwrap_or(full.as_str());
            if !n.is_ascii() { continue; }
            let mut by_c: std::collections::BTreeMap<usize, Vec<(bool, usize)>> = std::collections::BTreeMap::new();
            for j in 1..n.len() {
                let rest = &n[j..];
                for k in 0..rest.len() {
                    let digits = &rest[k..];
                    if digits.is_empty() || !digits.bytes().all(|c| c.is_ascii_digit()) || digits.starts_with('0') && digits.len() > 1 { continue; }
                    if let Ok(c) = digits.parse::<usize>() { if c > cur + 1 && c < (1usize << 30) { by_c.entry(c).or_default().push((!rest.starts_with(pid_s.as_str()), j)); } }
                }
            }
            for (c, mut cands) in by_c { cands.sort(); cands.dedup(); let (_, j) = cands[(inst / 5) % cands.len()]; probes.push((c, n[..j].to_string())); }
        }
        probes.sort(); probes.dedup();
        let mut at = cur;
        for (c, b) in probes.into_iter().take(1500) {
            if c <= at { continue; }
            hooks::force_store_all(c);
            early.push((b.clone(), temp_file_name(&b).to_string_lossy().to_string()));
            at = c + 1;
        }
    }
    results.push(early);
    // name parts that are different texts for the same path: the paths handed out are compared as paths
    hooks::set_thread_tag(threads + 5);
    let mut same: Vec<(String, String)> = Vec::new();
    for part in ["norm", "./norm", "././norm", "nrm//z", "nrm/z", "nrm/./z"] { for _ in 0..3 { same.push((part.to_string(), temp_file_name(part).to_string_lossy().to_string())); } }
    results.push(same);
    let mut out = TraceOut::new();
    out.push(json!({"e": "start", "start": 0, "threads": 1, "calls": 0}));
    let pid = std::process::id().to_string();
    let mut all = std::collections::HashSet::new();
    let mut dup = 0;
    let tmp = std::env::temp_dir().to_string_lossy().to_string();
    for (t, v) in results.iter().enumerate() {
        for (part, p) in v.iter() {
            let norm: String = std::path::Path::new(p).components().map(|c| c.as_os_str().to_string_lossy().to_string()).collect::<Vec<String>>().join("/").replace("//", "/");
            let name = norm.strip_prefix(tmp.as_str()).map(|s| s.trim_start_matches('/').to_string()).unwrap_or_else(|| norm.clone());
            if !all.insert(norm.clone()) { dup += 1; }
            out.push(json!({"e": "name", "thread": t, "path": name, "has_part": p.contains(part.as_str()), "has_pid": name.contains(&pid)}));
        }
    }
    out.write(path);
    json!({"queries": all.len() + dup, "duplicates_seen_by_harness": dup, "events": out.lines.len(), "sample": serde_json::from_str::<Value>(&out.lines[out.lines.len() - 1]).unwrap()})
}

/// Replays a schedule found by TLC: `sched` lists which thread performs its next primitive (a thread's
/// extra entry after its last primitive is the return of the name).  Returns the names obtained.
pub fn gated(schedule: &[usize], threads: usize, calls: usize) -> Value {
    struct Ctl { pos: usize, running: Option<usize> }
    let ctl = Arc::new((Mutex::new(Ctl { pos: 0, running: None }), Condvar::new()));
    let sched: Arc<Vec<usize>> = Arc::new(schedule.to_vec());
    let gate_ctl = ctl.clone();
    let gate_sched = sched.clone();
    // gate(tag): "my previous primitive is complete; wait for my next turn"
    hooks::set_gate(Some(Arc::new(move |tag: usize, _op: &'static str| {
        let (m, cv) = &*gate_ctl;
        let mut c = m.lock().unwrap();
        if c.running == Some(tag) { c.running = None; c.pos += 1; cv.notify_all(); }
        loop {
            if c.running.is_none() && (c.pos >= gate_sched.len() || gate_sched[c.pos] == tag) { c.running = Some(tag); return; }
            let (g, _) = cv.wait_timeout(c, std::time::Duration::from_millis(200)).unwrap();
            c = g;
        }
    })));
    let mut handles = Vec::new();
    for t in 0..threads {
        let ctl2 = ctl.clone();
        let sched2 = sched.clone();
        handles.push(std::thread::spawn(move || {
            hooks::set_thread_tag(t + 1);   // TLC threads are 1-based
            let mut v = Vec::new();
            for _ in 0..calls {
                let p = temp_file_name("gated");
                // the return of the name is also a scheduled step
                let (m, cv) = &*ctl2;
                let mut c = m.lock().unwrap();
                if c.running == Some(t + 1) { c.running = None; c.pos += 1; cv.notify_all(); }
                loop {
                    if c.running.is_none() && (c.pos >= sched2.len() || sched2[c.pos] == t + 1) { c.pos += 1; cv.notify_all(); break; }
                    let (g, _) = cv.wait_timeout(c, std::time::Duration::from_millis(200)).unwrap();
                    c = g;
                }
                drop(c);
                v.push(p.to_string_lossy().to_string());
            }
            v
        }));
    }
    let names: Vec<Vec<String>> = handles.into_iter().map(|h| h.join().unwrap()).collect();
    hooks::set_gate(None);
    let flat: Vec<String> = names.iter().flatten().cloned().collect();
    let distinct: std::collections::HashSet<&String> = flat.iter().collect();
    json!({"names": names, "total": flat.len(), "distinct": distinct.len()})
}

/// One run of `threads` concurrent threads under a schedule of thread turns (one turn = one primitive on the counter, or
/// the return of a call).  Turns of a thread that has finished are skipped; when the schedule is used up the remaining
/// threads run freely.  In the plain mode every thread makes one temp_file_name call; in the mixed mode thread 1 calls
/// serialize::test(.., remove = true) - whose internally taken path a probe value discovers - and then temp_file_name,
/// and the other threads call temp_file_name twice.  Returns the paths in thread order (None if a call panicked).
fn run_schedule(schedule: &[usize], threads: usize, part: &str, mixed: bool) -> Vec<Option<String>> {
    struct Ctl { pos: usize, running: Option<usize>, done: Vec<bool> }
    impl Ctl { fn skip(&mut self, sched: &[usize]) { while self.pos < sched.len() && self.done[sched[self.pos]] { self.pos += 1; } } }
    let ctl = Arc::new((Mutex::new(Ctl { pos: 0, running: None, done: vec![false; threads + 2] }), Condvar::new()));
    let sched: Arc<Vec<usize>> = Arc::new(schedule.iter().copied().filter(|t| *t >= 1 && *t <= threads).collect());
    let (gate_ctl, gate_sched) = (ctl.clone(), sched.clone());
    hooks::set_gate(Some(Arc::new(move |tag: usize, _op: &'static str| {
        if tag == 0 || tag > threads { return; }
        let (m, cv) = &*gate_ctl;
        let mut c = m.lock().unwrap();
        if c.running == Some(tag) { c.running = None; c.pos += 1; cv.notify_all(); }
        loop {
            c.skip(&gate_sched);
            if c.running.is_none() && (c.pos >= gate_sched.len() || gate_sched[c.pos] == tag) { c.running = Some(tag); return; }
            let (g, _) = cv.wait_timeout(c, std::time::Duration::from_millis(50)).unwrap();
            c = g;
        }
    })));
    let mut handles = Vec::new();
    for t in 1..=threads {
        let (ctl2, sched2, part2) = (ctl.clone(), sched.clone(), part.to_string());
        handles.push(std::thread::spawn(move || {
            hooks::set_thread_tag(t);
            // the return of every call is a scheduled step as well
            let ret = |last: bool| {
                let (m, cv) = &*ctl2;
                let mut c = m.lock().unwrap();
                if c.running == Some(t) { c.running = None; c.pos += 1; cv.notify_all(); }
                loop {
                    c.skip(&sched2);
                    if c.running.is_none() && (c.pos >= sched2.len() || sched2[c.pos] == t) { if c.pos < sched2.len() { c.pos += 1; } break; }
                    let (g, _) = cv.wait_timeout(c, std::time::Duration::from_millis(50)).unwrap();
                    c = g;
                }
                if last { c.done[t] = true; }
                cv.notify_all();
            };
            let mut got: Vec<Option<String>> = Vec::new();
            let direct = || guarded(|| temp_file_name(&part2)).ok().map(|p| p.to_string_lossy().to_string());
            if !mixed {
                got.push(direct());
                ret(true);
            } else if t == 1 {
                let probe = Probe { part: part2.clone(), seen: Default::default() };
                let r = guarded(|| simple_sds::serialize::test(&probe, &part2, Some(1), true));
                let seen = probe.seen.borrow().clone();
                got.push(if r.is_ok() && seen.len() == 1 { Some(std::env::temp_dir().join(&seen[0]).to_string_lossy().to_string()) } else { None });
                ret(false);
                got.push(direct());
                ret(true);
            } else {
                got.push(direct());
                ret(false);
                got.push(direct());
                ret(true);
            }
            got
        }));
    }
    let names: Vec<Option<String>> = handles.into_iter().flat_map(|h| h.join().unwrap_or_else(|_| vec![None])).collect();
    hooks::set_gate(None);
    hooks::set_thread_tag(0);
    names
}

/// Replays every schedule generated by mech/Sched on the real code and records what the calls returned.
pub fn record_schedules(cases: &[Value], path: &str, mixed: bool) -> Value {
    let mut out = TraceOut::new();
    let mut dup = 0usize;
    let mut seen = std::collections::HashSet::new();
    for (i, c) in cases.iter().enumerate() {
        let threads = c["threads"].as_u64().unwrap() as usize;
        let sched: Vec<usize> = c["s"].as_array().unwrap().iter().map(|x| x.as_u64().unwrap() as usize).collect();
        let part = format!("sched{}", i % 7);
        let got = run_schedule(&sched, threads, &part, mixed);
        let names: Vec<String> = got.iter().flatten().map(|p| std::path::PathBuf::from(p).file_name().unwrap().to_str().unwrap().to_string()).collect();
        for n in names.iter() { if !seen.insert(n.clone()) { dup += 1; } }
        out.push(json!({"e": "sched", "s": sched, "completed": got.iter().all(|p| p.is_some()), "has_part": names.iter().all(|n| n.contains(&part)), "names": names}));
    }
    out.write(path);
    json!({"schedules": cases.len(), "queries": cases.len(), "duplicates_seen_by_harness": dup, "events": out.lines.len(), "sample": serde_json::from_str::<Value>(&out.lines[out.lines.len() / 2]).unwrap()})
}
