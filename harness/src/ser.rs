//! Serialization: values of every Serialize type built from generated descriptors, round trips in
//! concatenated streams, exact sizes, truncation and write-budget faults, size_by_params.

use crate::bv::{self, Runs};
use crate::common::*;
use crate::vec::set_to_u64;
use serde_json::{json, Value};
use simple_sds::bit_vector::BitVector;
use simple_sds::int_vector::IntVector;
use simple_sds::ops::{Access, BitVec, Pop, Push, Rank, Select, SelectZero, Vector, VectorIndex};
use simple_sds::raw_vector::{AccessRaw, PopRaw, PushRaw, RawVector};
use simple_sds::rl_vector::RLVector;
use simple_sds::serialize::{self, Serialize};
use simple_sds::sparse_vector::SparseVector;
use simple_sds::wavelet_matrix::wm_core::WMCore;
use simple_sds::wavelet_matrix::WaveletMatrix;
use std::io::{self, Read, Write};

#[derive(Clone, Debug, PartialEq)]
pub enum Val {
    U64(u64),
    Usize(usize),
    Pair((u64, u64)),
    VecU64(Vec<u64>),
    VecPair(Vec<(u64, u64)>),
    Bytes(Vec<u8>),
    Str(String),
    OptVecU64(Option<Vec<u64>>),
    OptVecPair(Option<Vec<(u64, u64)>>),
    OptBytes(Option<Vec<u8>>),
    OptStr(Option<String>),
    OptRaw(Option<RawVector>),
    OptInt(Option<IntVector>),
    OptOptBytes(Option<Option<Vec<u8>>>),
    Raw(RawVector),
    Int(IntVector),
    Bv(BitVector),
    Sparse(SparseVector),
    RL(RLVector),
    WMCore(WMCore),
    WM(WaveletMatrix),
}

fn ones_runs(d: &Value) -> (usize, Runs) {
    let len = d["len"].as_u64().unwrap() as usize;
    let runs: Runs = d["ones"].as_array().unwrap().iter().map(|p| (p.as_u64().unwrap() as usize, 1)).collect();
    (len, bv::normalize(len, runs))
}

fn bytes_of(d: &Value) -> Vec<u8> { d["v"].as_array().unwrap().iter().map(|b| b.as_u64().unwrap() as u8).collect() }

thread_local! {
    /// 0: vectors are built directly; 1: they also go through a grow-and-shrink history (pushes crossing word boundaries,
    /// then pops back to the described content) before they are serialized - the file must not depend on it.
    pub static VEC_ROUTE: std::cell::Cell<u8> = std::cell::Cell::new(0);
}

fn make_raw(d: &Value) -> RawVector {
    let (len, runs) = ones_runs(d);
    let mut r = RawVector::with_len(len, false);
    for p in bv::positions(&runs) { r.set_bit(p, true); }
    if VEC_ROUTE.with(|c| c.get()) == 1 {
        unsafe { r.push_int(u64::MAX, 64); r.push_int(u64::MAX, 64); }
        for _ in 0..5 { r.push_bit(true); }
        for _ in 0..5 { r.pop_bit(); }
        unsafe { r.pop_int(64); r.pop_int(64); }
    }
    r
}

fn make_int(d: &Value) -> IntVector {
    let mut v = IntVector::new(d["w"].as_u64().unwrap() as usize).unwrap();
    for x in d["v"].as_array().unwrap() { v.push(set_to_u64(x)); }
    if VEC_ROUTE.with(|c| c.get()) == 1 {
        let extra = 130 / v.width() + 2;
        for _ in 0..extra { v.push(u64::MAX); }
        for _ in 0..extra { v.pop(); }
    }
    v
}

/// Builds the value a descriptor stands for.
pub fn make(d: &Value) -> Val {
    match d["t"].as_str().unwrap() {
        "u64" => Val::U64(set_to_u64(&d["v"])),
        "usize" => Val::Usize(d["v"].as_u64().unwrap() as usize),
        "pair" => Val::Pair((set_to_u64(&d["a"]), set_to_u64(&d["b"]))),
        "vec_u64" => Val::VecU64(d["v"].as_array().unwrap().iter().map(set_to_u64).collect()),
        "vec_pair" => Val::VecPair(d["v"].as_array().unwrap().iter().map(|p| (set_to_u64(&p[0]), set_to_u64(&p[1]))).collect()),
        "bytes" => Val::Bytes(bytes_of(d)),
        "string" => Val::Str(String::from_utf8(bytes_of(d)).unwrap()),
        "none" => match d["of"].as_str().unwrap() {
            "vec_u64" => Val::OptVecU64(None), "vec_pair" => Val::OptVecPair(None), "bytes" => Val::OptBytes(None), "string" => Val::OptStr(None),
            "raw" => Val::OptRaw(None), "int" => Val::OptInt(None), "some" => Val::OptOptBytes(None),
            t => panic!("TOOL-ERROR: no optional of {}", t),
        },
        "some" => match make(&d["inner"]) {
            Val::VecU64(v) => Val::OptVecU64(Some(v)), Val::VecPair(v) => Val::OptVecPair(Some(v)), Val::Bytes(v) => Val::OptBytes(Some(v)), Val::Str(v) => Val::OptStr(Some(v)),
            Val::Raw(v) => Val::OptRaw(Some(v)), Val::Int(v) => Val::OptInt(Some(v)), Val::OptBytes(v) => Val::OptOptBytes(Some(v)),
            v => panic!("TOOL-ERROR: no optional of {:?}", v),
        },
        "raw" => Val::Raw(make_raw(d)),
        "int" => Val::Int(make_int(d)),
        "bv" => {
            let mut b = BitVector::from(make_raw(d));
            for s in d["sup"].as_array().unwrap() {
                match s.as_str().unwrap() { "rank" => b.enable_rank(), "select" => b.enable_select(), "select_zero" => b.enable_select_zero(), x => panic!("TOOL-ERROR: support {}", x) }
            }
            Val::Bv(b)
        },
        "sparse" => { let (len, runs) = ones_runs(d); Val::Sparse(bv::sparse_builder(len, &runs)) },
        "rl" => { let (len, runs) = ones_runs(d); Val::RL(bv::rl_runs(len, &runs)) },
        "wmcore" => Val::WMCore(WMCore::from(d["vals"].as_array().unwrap().iter().map(|x| x.as_u64().unwrap()).collect::<Vec<u64>>())),
        "wmcore64" => Val::WMCore(WMCore::from(d["vals"].as_array().unwrap().iter().map(set_to_u64).collect::<Vec<u64>>())),
        "wm" => Val::WM(WaveletMatrix::from(d["vals"].as_array().unwrap().iter().map(|x| x.as_u64().unwrap()).collect::<Vec<u64>>())),
        t => panic!("TOOL-ERROR: unknown value type {}", t),
    }
}

macro_rules! each {
    ($self:expr, $x:ident => $body:expr) => {
        match $self {
            Val::U64($x) => $body, Val::Usize($x) => $body, Val::Pair($x) => $body, Val::VecU64($x) => $body, Val::VecPair($x) => $body,
            Val::Bytes($x) => $body, Val::Str($x) => $body, Val::OptVecU64($x) => $body, Val::OptVecPair($x) => $body, Val::OptBytes($x) => $body,
            Val::OptStr($x) => $body, Val::OptRaw($x) => $body, Val::OptInt($x) => $body, Val::OptOptBytes($x) => $body, Val::Raw($x) => $body,
            Val::Int($x) => $body, Val::Bv($x) => $body, Val::Sparse($x) => $body, Val::RL($x) => $body, Val::WMCore($x) => $body, Val::WM($x) => $body,
        }
    };
}

impl Val {
    pub fn serialize<W: Write>(&self, w: &mut W) -> io::Result<()> { each!(self, x => x.serialize(w)) }
    pub fn size_in_elements(&self) -> usize { each!(self, x => x.size_in_elements()) }
    pub fn size_in_bytes(&self) -> usize { each!(self, x => x.size_in_bytes()) }

    /// Loads a value of the same type as `self`.
    pub fn load_same<R: Read>(&self, r: &mut R) -> io::Result<Val> {
        Ok(match self {
            Val::U64(_) => Val::U64(u64::load(r)?), Val::Usize(_) => Val::Usize(usize::load(r)?), Val::Pair(_) => Val::Pair(<(u64, u64)>::load(r)?),
            Val::VecU64(_) => Val::VecU64(Vec::<u64>::load(r)?), Val::VecPair(_) => Val::VecPair(Vec::<(u64, u64)>::load(r)?),
            Val::Bytes(_) => Val::Bytes(Vec::<u8>::load(r)?), Val::Str(_) => Val::Str(String::load(r)?),
            Val::OptVecU64(_) => Val::OptVecU64(Option::<Vec<u64>>::load(r)?), Val::OptVecPair(_) => Val::OptVecPair(Option::<Vec<(u64, u64)>>::load(r)?),
            Val::OptBytes(_) => Val::OptBytes(Option::<Vec<u8>>::load(r)?), Val::OptStr(_) => Val::OptStr(Option::<String>::load(r)?),
            Val::OptRaw(_) => Val::OptRaw(Option::<RawVector>::load(r)?), Val::OptInt(_) => Val::OptInt(Option::<IntVector>::load(r)?),
            Val::OptOptBytes(_) => Val::OptOptBytes(Option::<Option<Vec<u8>>>::load(r)?),
            Val::Raw(_) => Val::Raw(RawVector::load(r)?), Val::Int(_) => Val::Int(IntVector::load(r)?), Val::Bv(_) => Val::Bv(BitVector::load(r)?),
            Val::Sparse(_) => Val::Sparse(SparseVector::load(r)?), Val::RL(_) => Val::RL(RLVector::load(r)?),
            Val::WMCore(_) => Val::WMCore(WMCore::load(r)?), Val::WM(_) => Val::WM(WaveletMatrix::load(r)?),
        })
    }

    /// serialize::serialize_to / serialize::load_from (the file-level convenience functions).
    pub fn serialize_to_file(&self, p: &std::path::Path) -> io::Result<()> { each!(self, x => serialize::serialize_to(x, p)) }
    pub fn load_from_file(&self, p: &std::path::Path) -> io::Result<Val> {
        use serialize::load_from as lf;
        Ok(match self {
            Val::U64(_) => Val::U64(lf(p)?), Val::Usize(_) => Val::Usize(lf(p)?), Val::Pair(_) => Val::Pair(lf(p)?),
            Val::VecU64(_) => Val::VecU64(lf(p)?), Val::VecPair(_) => Val::VecPair(lf(p)?), Val::Bytes(_) => Val::Bytes(lf(p)?), Val::Str(_) => Val::Str(lf(p)?),
            Val::OptVecU64(_) => Val::OptVecU64(lf(p)?), Val::OptVecPair(_) => Val::OptVecPair(lf(p)?), Val::OptBytes(_) => Val::OptBytes(lf(p)?), Val::OptStr(_) => Val::OptStr(lf(p)?),
            Val::OptRaw(_) => Val::OptRaw(lf(p)?), Val::OptInt(_) => Val::OptInt(lf(p)?), Val::OptOptBytes(_) => Val::OptOptBytes(lf(p)?),
            Val::Raw(_) => Val::Raw(lf(p)?), Val::Int(_) => Val::Int(lf(p)?), Val::Bv(_) => Val::Bv(lf(p)?), Val::Sparse(_) => Val::Sparse(lf(p)?), Val::RL(_) => Val::RL(lf(p)?),
            Val::WMCore(_) => Val::WMCore(lf(p)?), Val::WM(_) => Val::WM(lf(p)?),
        })
    }

    pub fn is_option(&self) -> bool {
        matches!(self, Val::OptVecU64(_) | Val::OptVecPair(_) | Val::OptBytes(_) | Val::OptStr(_) | Val::OptRaw(_) | Val::OptInt(_) | Val::OptOptBytes(_))
    }

    /// A digest of the answers the value gives to its queries (to compare a loaded copy with the original).
    pub fn answers(&self) -> Value {
        match self {
            Val::Raw(r) => json!([r.len(), r.count_ones(), (0..r.len()).filter(|i| r.bit(*i)).collect::<Vec<usize>>()]),
            Val::Int(v) => json!([v.len(), v.width(), v.iter().collect::<Vec<u64>>()]),
            Val::Bv(b) => {
                let mut a = vec![json!(b.len()), json!(b.count_ones()), json!(b.one_iter().map(|x| x.1).collect::<Vec<usize>>()), json!([b.supports_rank(), b.supports_select(), b.supports_select_zero()])];
                if b.supports_rank() { a.push(json!((0..=b.len() + 1).map(|i| b.rank(i)).collect::<Vec<usize>>())); }
                if b.supports_select() { a.push(json!((0..=b.count_ones()).map(|i| enc_opt(b.select(i))).collect::<Vec<Value>>())); }
                if b.supports_select_zero() { a.push(json!((0..=b.count_zeros()).map(|i| enc_opt(b.select_zero(i))).collect::<Vec<Value>>())); }
                Value::Array(a)
            },
            Val::Sparse(b) => json!([b.len(), b.count_ones(), b.one_iter().collect::<Vec<(usize, usize)>>(), (0..=b.len() + 1).map(|i| b.rank(i)).collect::<Vec<usize>>(), (0..=b.count_zeros()).map(|i| enc_opt(b.select_zero(i))).collect::<Vec<Value>>()]),
            Val::RL(b) => json!([b.len(), b.count_ones(), b.run_iter().collect::<Vec<(usize, usize)>>(), (0..=b.len() + 1).map(|i| b.rank(i)).collect::<Vec<usize>>(), (0..=b.count_ones()).map(|i| enc_opt(b.select(i))).collect::<Vec<Value>>(), (0..=b.count_zeros()).map(|i| enc_opt(b.select_zero(i))).collect::<Vec<Value>>()]),
            Val::WMCore(c) => json!([c.len(), c.width(), (0..c.len()).map(|i| c.map_down(i).map(|(p, v)| json!([p, v])).unwrap_or(json!(null))).collect::<Vec<Value>>()]),
            Val::WM(w) => json!([w.len(), w.width(), w.iter().collect::<Vec<u64>>(), (0..8u64).map(|v| (0..=w.len()).map(|i| w.rank(i, v)).collect::<Vec<usize>>()).collect::<Vec<Vec<usize>>>(), (0..8u64).map(|v| enc_opt(w.select(0, v))).collect::<Vec<Value>>()]),
            other => json!(format!("{:?}", other)),
        }
    }
}

/// A reader that counts what was consumed.
pub struct Counting<R: Read> { pub inner: R, pub count: usize }
impl<R: Read> Read for Counting<R> {
    fn read(&mut self, buf: &mut [u8]) -> io::Result<usize> { let n = self.inner.read(buf)?; self.count += n; Ok(n) }
}

/// A reader that hands out at most `chunk` bytes per call (a legal `Read`: pipes, sockets and buffered readers do this).
pub struct Chunked<R: Read> { pub inner: R, pub chunk: usize }
impl<R: Read> Read for Chunked<R> {
    fn read(&mut self, buf: &mut [u8]) -> io::Result<usize> { let n = buf.len().min(self.chunk); self.inner.read(&mut buf[..n]) }
}

/// A reader whose every third call is interrupted by a signal (`ErrorKind::Interrupted`: a legal `Read`; callers must retry).
pub struct Interrupting<R: Read> { pub inner: R, pub calls: usize }
impl<R: Read> Read for Interrupting<R> {
    fn read(&mut self, buf: &mut [u8]) -> io::Result<usize> { self.calls += 1; if self.calls % 3 == 0 { Err(io::Error::new(io::ErrorKind::Interrupted, "interrupted")) } else { self.inner.read(buf) } }
}

/// A writer that accepts at most `chunk` bytes per call (a legal `Write`).
pub struct ChunkedSink { pub data: Vec<u8>, pub chunk: usize }
impl Write for ChunkedSink {
    fn write(&mut self, buf: &[u8]) -> io::Result<usize> { let n = buf.len().min(self.chunk); self.data.extend_from_slice(&buf[..n]); Ok(n) }
    fn flush(&mut self) -> io::Result<()> { Ok(()) }
}

/// A sink that accepts at most `budget` bytes and then fails.
pub struct Budget { pub budget: usize, pub written: usize }
impl Write for Budget {
    fn write(&mut self, buf: &[u8]) -> io::Result<usize> {
        if self.written >= self.budget { return Err(io::Error::new(io::ErrorKind::Other, "sink is full")); }
        let n = buf.len().min(self.budget - self.written);
        self.written += n;
        Ok(n)
    }
    fn flush(&mut self) -> io::Result<()> { Ok(()) }
}

fn desc_short(d: &Value) -> Value {
    let s = d.to_string();
    if s.len() > 200 { json!(format!("{}...", &s[..200])) } else { d.clone() }
}

/// C06: a stream of values written back to back: sizes, consumption, equality, answers.
pub fn replay_stream(case: &Value, tally: &mut Tally, via_file: bool) {
    tally.cases += 1;
    let items = case["items"].as_array().unwrap();
    let ckey = hstr(&case["items"].to_string());
    let ctx = |k: usize, what: &str| json!({"kind": "stream", "items": items.iter().map(desc_short).collect::<Vec<Value>>(), "item": k, "what": what});
    let r = guarded(|| {
        let mut out: Vec<(usize, &'static str, Value, Value)> = Vec::new();
        let vals: Vec<Val> = items.iter().map(make).collect();
        let mut buf: Vec<u8> = Vec::new();
        let mut offsets = vec![0usize];
        for (k, v) in vals.iter().enumerate() {
            let before = buf.len();
            let res = v.serialize(&mut buf);
            out.push((k, "serialize returns Ok", json!(true), json!(res.is_ok())));
            let written = buf.len() - before;
            out.push((k, "bytes written = 8 * size_in_elements", json!(8 * v.size_in_elements()), json!(written)));
            out.push((k, "size_in_bytes = 8 * size_in_elements", json!(8 * v.size_in_elements()), json!(v.size_in_bytes())));
            let exp = case["sizes"][k].as_i64().unwrap();
            if exp >= 0 { out.push((k, "size in elements as determined by the format", json!(exp), json!(v.size_in_elements()))); }
            offsets.push(buf.len() / 8);
        }
        if let Some(off) = case["offsets"].as_array() {
            if !off.is_empty() { out.push((0, "record offsets (elements)", case["offsets"].clone(), json!(offsets))); }
        }
        // load back in sequence
        let path = if via_file { let p = serialize::temp_file_name("verif-stream"); std::fs::write(&p, &buf).unwrap(); Some(p) } else { None };
        let mut file_reader; let mut mem_reader;
        let reader: &mut dyn Read = if let Some(p) = &path { file_reader = std::fs::File::open(p).unwrap(); &mut file_reader } else { mem_reader = std::io::Cursor::new(&buf); &mut mem_reader };
        let mut counting = Counting { inner: reader, count: 0 };
        for (k, v) in vals.iter().enumerate() {
            let before = counting.count;
            match v.load_same(&mut counting) {
                Ok(copy) => {
                    out.push((k, "bytes consumed by load = bytes written", json!(8 * v.size_in_elements()), json!(counting.count - before)));
                    out.push((k, "loaded value == original", json!(true), json!(copy == *v)));
                    out.push((k, "loaded value answers every query as the original", v.answers(), copy.answers()));
                    out.push((k, "loaded value has the same size", json!(v.size_in_elements()), json!(copy.size_in_elements())));
                },
                Err(e) => { out.push((k, "load returns Ok", json!("ok"), json!(e.to_string()))); break; },
            }
        }
        let mut rest = Vec::new();
        let _ = counting.read_to_end(&mut rest);
        out.push((vals.len(), "nothing left in the stream after loading every structure", json!(0), json!(rest.len())));
        // readers and writers that transfer a few bytes per call: the same bytes, the same values, the same consumption
        for chunk in [1usize, 3, 5] {
            let mut sink = ChunkedSink { data: Vec::new(), chunk };
            let wrote = vals.iter().all(|v| v.serialize(&mut sink).is_ok());
            out.push((0, "serialize through a writer that accepts a few bytes per call: same bytes", json!(true), json!(wrote && sink.data == buf)));
            let mut rd = Counting { inner: Chunked { inner: std::io::Cursor::new(&buf), chunk }, count: 0 };
            for (k, v) in vals.iter().enumerate() {
                let before = rd.count;
                match v.load_same(&mut rd) {
                    Ok(copy) => out.push((k, "load through a reader that returns a few bytes per call: value and bytes consumed", json!([true, 8 * v.size_in_elements()]), json!([copy == *v, rd.count - before]))),
                    Err(e) => { out.push((k, "load through a reader that returns a few bytes per call", json!("ok"), json!(e.to_string()))); break; },
                }
            }
        }
        if let Some(p) = path.filter(|p| { if vals.is_empty() { let _ = std::fs::remove_file(p); } !vals.is_empty() }) {
            // serialize_to over an existing, longer file: the file is exactly the serialization afterwards; load_from reads it back
            let v = &vals[0];
            let single = &buf[..8 * (offsets[1] - offsets[0])];
            std::fs::write(&p, vec![0xFFu8; single.len() + 24]).unwrap();
            let res = v.serialize_to_file(&p);
            out.push((0, "serialize_to returns Ok", json!(true), json!(res.is_ok())));
            let on_disk = std::fs::read(&p).unwrap();
            out.push((0, "serialize_to over a longer existing file leaves exactly the serialization (length)", json!(single.len()), json!(on_disk.len())));
            out.push((0, "serialize_to over a longer existing file leaves exactly the serialization (bytes)", json!(true), json!(on_disk == single)));
            match v.load_from_file(&p) {
                Ok(copy) => { out.push((0, "load_from(file) == original", json!(true), json!(copy == *v))); out.push((0, "load_from(file) answers as the original", v.answers(), copy.answers())); },
                Err(e) => out.push((0, "load_from returns Ok", json!("ok"), json!(e.to_string()))),
            }
            let _ = std::fs::remove_file(&p);
            let missing = v.load_from_file(&p);
            out.push((0, "load_from on a missing file is an error", json!(true), json!(missing.is_err())));
        }
        out
    });
    match r {
        Ok(list) => for (j, (k, what, exp, got)) in list.iter().enumerate() { tally.check(hkey(&[ckey, j as u64]), true, &|| ctx(*k, what), exp, got); },
        Err(msg) => { tally.check(ckey, true, &|| ctx(0, "panic"), &json!("no panic"), &json!(format!("PANIC: {}", msg))); },
    }
    if items.len() >= 2 { tally.sample(json!({"stream_of": items.iter().map(|d| d["t"].clone()).collect::<Vec<Value>>()})); }
}

pub fn replay_params(case: &Value, tally: &mut Tally) {
    tally.cases += 1;
    let c = case["capacity"].as_u64().unwrap() as usize;
    let w = case["width"].as_u64().unwrap() as usize;
    let key = hkey(&[c as u64, w as u64]);
    tally.check(key, true, &|| json!({"kind": "params", "what": "RawVector::size_by_params", "capacity": c}), &case["raw"], &json!(RawVector::size_by_params(c)));
    tally.check(hkey(&[key, 1]), true, &|| json!({"kind": "params", "what": "IntVector::size_by_params", "capacity": c, "width": w}), &case["int"], &json!(IntVector::size_by_params(c, w)));
    // and they match the real vectors with those parameters
    let raw = RawVector::with_len(c, true);
    tally.check(hkey(&[key, 2]), true, &|| json!({"kind": "params", "what": "RawVector of that length: size_in_elements", "capacity": c}), &case["raw"], &json!(raw.size_in_elements()));
    let iv = IntVector::with_len(c, w, 1).unwrap();
    tally.check(hkey(&[key, 3]), true, &|| json!({"kind": "params", "what": "IntVector of that length and width: size_in_elements", "capacity": c, "width": w}), &case["int"], &json!(iv.size_in_elements()));
}

/// C14: every strict prefix of the serialization must make load (and skip_option) fail with an error;
/// every write budget below the size must make serialize fail with an error.
pub fn replay_faults(case: &Value, tally: &mut Tally) {
    tally.cases += 1;
    let d = &case["items"][0];
    let ckey = hstr(&d.to_string());
    let v = match guarded(|| make(d)) { Ok(v) => v, Err(_) => return };
    let mut bytes: Vec<u8> = Vec::new();
    v.serialize(&mut bytes).unwrap();
    let n = bytes.len();
    let ctx = |what: &str, cut: usize| json!({"kind": "fault", "value": desc_short(d), "size_bytes": n, "what": what, "cut_or_budget": cut});
    for cut in 0..n {
        let got = match guarded(|| { let mut r = std::io::Cursor::new(&bytes[..cut]); v.load_same(&mut r).is_ok() }) {
            Ok(true) => json!("returned a structure"), Ok(false) => json!("err"), Err(m) => json!(format!("PANIC: {}", m)),
        };
        tally.check(hkey(&[ckey, 1, cut as u64]), true, &|| ctx("load from a stream cut after this many bytes", cut), &json!("err"), &got);
        if v.is_option() {
            let got = match guarded(|| { let mut r = std::io::Cursor::new(&bytes[..cut]); serialize::skip_option(&mut r).is_ok() }) {
                Ok(true) => json!("reported success"), Ok(false) => json!("err"), Err(m) => json!(format!("PANIC: {}", m)),
            };
            tally.check(hkey(&[ckey, 2, cut as u64]), true, &|| ctx("skip_option on a stream cut after this many bytes", cut), &json!("err"), &got);
        }
        let got = match guarded(|| { let mut sink = Budget { budget: cut, written: 0 }; v.serialize(&mut sink).is_ok() }) {
            Ok(true) => json!("reported success"), Ok(false) => json!("err"), Err(m) => json!(format!("PANIC: {}", m)),
        };
        tally.check(hkey(&[ckey, 3, cut as u64]), true, &|| ctx("serialize into a sink that accepts this many bytes", cut), &json!("err"), &got);
    }
    // the complete stream is accepted, and skip_option lands exactly behind the optional structure
    let got = match guarded(|| { let mut r = std::io::Cursor::new(&bytes[..]); v.load_same(&mut r).is_ok() }) { Ok(b) => json!(b), Err(m) => json!(m) };
    tally.check(hkey(&[ckey, 4]), true, &|| ctx("load from the complete stream", n), &json!(true), &got);
    if v.is_option() {
        let mut padded = bytes.clone();
        padded.extend_from_slice(&[0xAB; 16]);
        let got = match guarded(|| { let mut r = std::io::Cursor::new(&padded[..]); let ok = serialize::skip_option(&mut r).is_ok(); json!([ok, r.position()]) }) { Ok(v) => v, Err(m) => json!(m) };
        tally.check(hkey(&[ckey, 5]), true, &|| ctx("skip_option moves the reader exactly past the optional structure", n), &json!([true, n]), &got);
        for chunk in [1usize, 3, 4097] {
            let got = match guarded(|| { let mut r = Counting { inner: Chunked { inner: std::io::Cursor::new(&padded[..]), chunk }, count: 0 }; let ok = serialize::skip_option(&mut r).is_ok(); json!([ok, r.count]) }) { Ok(v) => v, Err(m) => json!(m) };
            tally.check(hkey(&[ckey, 6, chunk as u64]), true, &|| ctx("skip_option through a reader that returns at most this many bytes per call", chunk), &json!([true, n]), &got);
        }
    }
    tally.sample(json!({"value": desc_short(d), "cuts": n}));
}

//-----------------------------------------------------------------------------
// Recording: larger random values, 2-6 per stream, half of the streams through real files.

fn random_runs(rng: &mut Rng, len: usize) -> Runs {
    let mut v: Runs = Vec::new();
    let mut pos = rng.below(40);
    while pos < len { let l = rng.geo(20); v.push((pos, l)); pos += l + rng.geo(60); }
    bv::normalize(len, v)
}

fn random_val(rng: &mut Rng) -> (Val, Value) {
    match rng.below(14) {
        0 => { let n = rng.below(300); (Val::VecU64((0..n).map(|_| rng.next()).collect()), json!({"t": "vec_u64", "n": n})) },
        1 => { let n = rng.below(200); (Val::VecPair((0..n).map(|_| (rng.next(), rng.next())).collect()), json!({"t": "vec_pair", "n": n})) },
        2 => { let n = rng.below(1000); (Val::Bytes((0..n).map(|_| rng.next() as u8).collect()), json!({"t": "bytes", "n": n})) },
        3 => { let n = rng.below(300); let s: String = (0..n).map(|_| *rng.pick(&['a', 'ñ', '€', 'z', ' ', '𝄞'])).collect(); let l = s.len(); (Val::Str(s), json!({"t": "string", "n": l})) },
        4 => (if rng.chance(1, 2) { Val::OptBytes(None) } else { Val::OptRaw(None) }, json!({"t": "opt_none"})),
        5 => { let n = rng.below(100); (Val::OptVecU64(Some((0..n).map(|_| rng.next()).collect())), json!({"t": "opt_some"})) },
        6 => { let n = rng.below(5000); let mut r = RawVector::with_len(n, false); for p in bv::positions(&random_runs(rng, n)) { r.set_bit(p, true); } (Val::Raw(r), json!({"t": "raw", "n": n})) },
        7 => { let w = rng.range(1, 64); let n = rng.below(500); let mut v = IntVector::new(w).unwrap(); for _ in 0..n { v.push(rng.next()); } (Val::Int(v), json!({"t": "int", "n": n, "w": w})) },
        8 | 9 => {
            let n = rng.below(20000); let runs = random_runs(rng, n);
            let mut b = bv::plain_raw(n, &runs);
            if rng.chance(1, 2) { b.enable_rank(); } if rng.chance(1, 2) { b.enable_select(); } if rng.chance(1, 2) { b.enable_select_zero(); }
            (Val::Bv(b), json!({"t": "bv", "n": n}))
        },
        10 => { let n = rng.below(100000); let runs = random_runs(rng, n); (Val::Sparse(bv::sparse_builder(n, &runs)), json!({"t": "sparse", "n": n})) },
        11 => { let n = rng.below(100000); let runs = random_runs(rng, n); (Val::RL(bv::rl_runs(n, &runs)), json!({"t": "rl", "n": n})) },
        12 => { let n = rng.below(400); let w = rng.range(1, 9); (Val::WM(WaveletMatrix::from((0..n).map(|_| rng.below(1 << w) as u64).collect::<Vec<u64>>())), json!({"t": "wm", "n": n})) },
        _ => { let n = rng.below(400); let w = *rng.pick(&[1usize, 3, 9, 17, 33, 63, 64]); (Val::WMCore(WMCore::from((0..n).map(|_| if w == 64 { rng.next() } else { rng.next() & ((1u64 << w) - 1) }).collect::<Vec<u64>>())), json!({"t": "wmcore", "n": n})) },
    }
}

pub fn record_stream(seed: u64, thorough: bool, path: &str) -> Value {
    let mut rng = Rng::new(seed);
    let mut out = TraceOut::new();
    let streams = if thorough { 120 } else { 30 };
    let mut values = 0usize;
    for s in 0..streams {
        out.push(json!({"e": "s_begin", "via_file": s % 2 == 0}));
        let k = rng.range(2, 6);
        let vals: Vec<(Val, Value)> = (0..k).map(|_| random_val(&mut rng)).collect();
        let mut buf: Vec<u8> = Vec::new();
        for (v, d) in vals.iter() {
            let before = buf.len();
            let ok = v.serialize(&mut buf).is_ok();
            out.push(json!({"e": "s_write", "d": d, "ok": ok, "bytes": buf.len() - before, "elems": v.size_in_elements(), "size_in_bytes": v.size_in_bytes()}));
            values += 1;
        }
        let fname = serialize::temp_file_name("verif-rec-stream");
        let mut file_reader; let mut mem_reader;
        let reader: &mut dyn Read = if s % 2 == 0 { std::fs::write(&fname, &buf).unwrap(); file_reader = std::fs::File::open(&fname).unwrap(); &mut file_reader } else { mem_reader = std::io::Cursor::new(&buf); &mut mem_reader };
        let mut counting = Counting { inner: reader, count: 0 };
        for (v, _) in vals.iter() {
            let before = counting.count;
            let r = guarded(|| v.load_same(&mut counting));
            match r {
                Ok(Ok(copy)) => out.push(json!({"e": "s_load", "ok": true, "consumed": counting.count - before, "eq": copy == *v, "answers_eq": copy.answers() == v.answers()})),
                _ => { out.push(json!({"e": "s_load", "ok": false, "consumed": counting.count - before, "eq": false, "answers_eq": false})); break; },
            }
        }
        let mut rest = Vec::new();
        let _ = counting.read_to_end(&mut rest);
        out.push(json!({"e": "s_end", "left": rest.len(), "file_bytes": buf.len()}));
        let _ = std::fs::remove_file(&fname);
    }
    out.write(path);
    json!({"streams": streams, "queries": values, "events": out.lines.len(), "sample": serde_json::from_str::<Value>(&out.lines[1]).unwrap()})
}

/// C08: loading library-written vectors with more than 2^20 items (where a loader may treat the header differently):
/// the hooked raw-slice site in Vec<V>::load reports the bytes filled against the bytes allocated.
pub fn replay_bigload(tally: &mut Tally) {
    tally.cases += 1;
    let n = (1usize << 20) + 100;
    let v: Vec<u64> = (0..n as u64).map(|i| i.wrapping_mul(0x9E37_79B9_7F4A_7C15)).collect();
    let pairs: Vec<(u64, u64)> = (0..(n / 2 + 7) as u64).map(|i| (i, !i)).collect();
    let raw = { let mut r = RawVector::with_len(64 * n + 17, false); for i in (0..r.len()).step_by(4099) { r.set_bit(i, true); } r };
    let r = guarded(|| {
        let mut out: Vec<(&'static str, Value, Value)> = Vec::new();
        macro_rules! rt { ($x:expr, $ty:ty, $what:expr) => {{
            let mut buf: Vec<u8> = Vec::new();
            $x.serialize(&mut buf).unwrap();
            let mut cur = std::io::Cursor::new(&buf);
            match <$ty>::load(&mut cur) { Ok(y) => out.push(($what, json!([true, buf.len()]), json!([y == $x, cur.position()]))), Err(e) => out.push(($what, json!("ok"), json!(e.to_string()))) }
        }} }
        rt!(v, Vec<u64>, "Vec<u64> of 2^20 + 100 items: load == original, all bytes consumed");
        rt!(pairs, Vec<(u64, u64)>, "Vec<(u64, u64)> of 2^19 + 57 items");
        rt!(raw, RawVector, "RawVector of 2^26 + 6417 bits");
        let bv = BitVector::from(raw.clone());
        rt!(bv, BitVector, "BitVector of 2^26 + 6417 bits");
        out
    });
    match r {
        Ok(list) => for (j, (what, exp, got)) in list.iter().enumerate() { tally.check(hkey(&[77, j as u64]), true, &|| json!({"kind": "bigload", "what": what}), exp, got); },
        Err(msg) => { tally.check(77, true, &|| json!({"kind": "bigload", "what": "panic"}), &json!("no panic"), &json!(format!("PANIC: {}", msg))); },
    }
}
